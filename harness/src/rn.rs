//! renet engine (E1 renet wire, E2 honest pair under faults, E3 hostile input + server API)
use crate::common::*;
use renet::{ChannelConfig, ConnectionConfig, DisconnectReason, RenetClient, RenetServer, SendType, ServerEvent};
use std::collections::{BTreeMap, HashMap};
use std::time::Duration;

pub struct RWorld {
    server: Option<RenetServer>,
    cfg: Option<ConnectionConfig>,
    clients: BTreeMap<u64, RenetClient>,
    hist: HashMap<String, Vec<Vec<u8>>>,
}

pub fn new_world() -> Box<dyn World> {
    Box::new(RWorld { server: None, cfg: None, clients: BTreeMap::new(), hist: HashMap::new() })
}

fn parse_chans(n: usize, t: &[&str]) -> Option<(Vec<ChannelConfig>, usize)> {
    let mut v = vec![];
    let mut i = 0;
    for _ in 0..n {
        if i + 4 > t.len() {
            return None;
        }
        let id: u8 = t[i].parse().ok()?;
        let mm: usize = t[i + 2].parse().ok()?;
        let rs: u64 = t[i + 3].parse().ok()?;
        let st = match t[i + 1] {
            "U" => SendType::Unreliable,
            "RO" => SendType::ReliableOrdered { resend_time: Duration::from_micros(rs) },
            "RU" => SendType::ReliableUnordered { resend_time: Duration::from_micros(rs) },
            _ => return None,
        };
        v.push(ChannelConfig { channel_id: id, max_memory_usage_bytes: mm, send_type: st });
        i += 4;
    }
    Some((v, i))
}

pub fn reason_str(r: &DisconnectReason) -> String {
    use DisconnectReason::*;
    match r {
        Transport => "Transport".into(),
        DisconnectedByClient => "DisconnectedByClient".into(),
        DisconnectedByServer => "DisconnectedByServer".into(),
        PacketSerialization(e) => format!("PacketSerialization({:?})", e),
        PacketDeserialization(e) => format!("PacketDeserialization({:?})", e),
        ReceivedInvalidChannelId(c) => format!("ReceivedInvalidChannelId({})", c),
        SendChannelError { channel_id, error } => format!("SendChannelError({},{:?})", channel_id, error),
        ReceiveChannelError { channel_id, error } => format!("ReceiveChannelError({},{:?})", channel_id, error),
    }
}

fn status_str(c: &RenetClient) -> String {
    if c.is_connected() {
        "connected".into()
    } else if c.is_connecting() {
        "connecting".into()
    } else {
        format!("disconnected:{}", reason_str(&c.disconnect_reason().unwrap()))
    }
}

enum Who {
    Client(u64),
    SConn(u64),
    Srv,
}

fn parse_who(s: &str) -> Option<Who> {
    if s == "srv" {
        return Some(Who::Srv);
    }
    if let Some(r) = s.strip_prefix('c') {
        return r.parse().ok().map(Who::Client);
    }
    if let Some(r) = s.strip_prefix('s') {
        return r.parse().ok().map(Who::SConn);
    }
    None
}

pub fn apply_mut(b: &[u8], m: &str) -> Option<Vec<u8>> {
    let p: Vec<&str> = m.split(':').collect();
    let mut b = b.to_vec();
    match p.as_slice() {
        ["flip", bit] => {
            let bit: usize = bit.parse().ok()?;
            if bit / 8 < b.len() {
                b[bit / 8] ^= 1u8 << (bit % 8);
            }
            Some(b)
        }
        ["trunc", n] => {
            let n: usize = n.parse().ok()?;
            b.truncate(n);
            Some(b)
        }
        ["xor", off, v] => {
            let off: usize = off.parse().ok()?;
            let v: usize = v.parse().ok()?;
            if off < b.len() {
                b[off] ^= v as u8;
            }
            Some(b)
        }
        _ => None,
    }
}

impl RWorld {
    fn process(&mut self, to: Who, bytes: &[u8]) -> String {
        match to {
            Who::Client(h) => match self.clients.get_mut(&h) {
                None => "bad-op".into(),
                Some(c) => {
                    c.process_packet(bytes);
                    "ok".into()
                }
            },
            Who::SConn(id) => match self.server.as_mut() {
                None => "bad-op".into(),
                Some(s) => match s.process_packet_from(bytes, id) {
                    Ok(()) => "ok".into(),
                    Err(_) => "notfound".into(),
                },
            },
            Who::Srv => "bad-op".into(),
        }
    }
}

const BAD: &str = "bad-op";

impl World for RWorld {
    fn exec(&mut self, op: &str) -> String {
        let t: Vec<&str> = op.split(' ').filter(|s| !s.is_empty()).collect();
        if t.is_empty() {
            return BAD.into();
        }
        macro_rules! num {
            ($s:expr, $ty:ty) => {
                match $s.parse::<$ty>() {
                    Ok(v) => v,
                    Err(_) => return BAD.into(),
                }
            };
        }
        macro_rules! srv {
            () => {
                match self.server.as_mut() {
                    Some(s) => s,
                    None => return BAD.into(),
                }
            };
        }
        match t[0] {
            "cfg" => {
                if t.len() < 4 || t[2] != "S" {
                    return BAD.into();
                }
                let budget = num!(t[1], u64);
                let ns = num!(t[3], usize);
                let (sc, used) = match parse_chans(ns, &t[4..]) {
                    Some(x) => x,
                    None => return BAD.into(),
                };
                let rest = &t[4 + used..];
                if rest.len() < 2 || rest[0] != "C" {
                    return BAD.into();
                }
                let nc = num!(rest[1], usize);
                let (cc, used2) = match parse_chans(nc, &rest[2..]) {
                    Some(x) => x,
                    None => return BAD.into(),
                };
                if rest.len() != 2 + used2 {
                    return BAD.into();
                }
                let cfg = ConnectionConfig { available_bytes_per_tick: budget, server_channels_config: sc, client_channels_config: cc };
                self.server = Some(RenetServer::new(cfg.clone()));
                self.cfg = Some(cfg);
                "ok".into()
            }
            "cli" if t.len() == 2 => {
                let h = num!(t[1], u64);
                match &self.cfg {
                    None => BAD.into(),
                    Some(cfg) => {
                        self.clients.insert(h, RenetClient::new(cfg.clone()));
                        "ok".into()
                    }
                }
            }
            "add" if t.len() == 2 => {
                let id = num!(t[1], u64);
                srv!().add_connection(id);
                "ok".into()
            }
            "rem" if t.len() == 2 => {
                let id = num!(t[1], u64);
                srv!().remove_connection(id);
                "ok".into()
            }
            "sdisc" if t.len() == 2 => {
                let id = num!(t[1], u64);
                srv!().disconnect(id);
                "ok".into()
            }
            "sdiscall" if t.len() == 1 => {
                srv!().disconnect_all();
                "ok".into()
            }
            "lnew" if t.len() == 3 => {
                let id = num!(t[1], u64);
                let h = num!(t[2], u64);
                let c = srv!().new_local_client(id);
                self.clients.insert(h, c);
                "ok".into()
            }
            "ldisc" if t.len() == 3 => {
                let id = num!(t[1], u64);
                let h = num!(t[2], u64);
                let s = match self.server.as_mut() {
                    Some(s) => s,
                    None => return BAD.into(),
                };
                match self.clients.get_mut(&h) {
                    None => BAD.into(),
                    Some(c) => {
                        s.disconnect_local_client(id, c);
                        "ok".into()
                    }
                }
            }
            "lproc" if t.len() == 3 => {
                let id = num!(t[1], u64);
                let h = num!(t[2], u64);
                let s = match self.server.as_mut() {
                    Some(s) => s,
                    None => return BAD.into(),
                };
                match self.clients.get_mut(&h) {
                    None => BAD.into(),
                    Some(c) => match s.process_local_client(id, c) {
                        Ok(()) => "ok".into(),
                        Err(_) => "notfound".into(),
                    },
                }
            }
            "ev" if t.len() == 1 => match srv!().get_event() {
                None => "none".into(),
                Some(ServerEvent::ClientConnected { client_id }) => format!("connected {}", client_id),
                Some(ServerEvent::ClientDisconnected { client_id, reason }) => format!("disconnected {} {}", client_id, reason_str(&reason)),
            },
            "ids" if t.len() == 1 => {
                let s = srv!();
                let mut a = s.clients_id();
                a.sort();
                let mut d = s.disconnections_id();
                d.sort();
                let a: Vec<String> = a.iter().map(|x| x.to_string()).collect();
                let d: Vec<String> = d.iter().map(|x| x.to_string()).collect();
                format!("ids [{}] disc [{}]", a.join(","), d.join(","))
            }
            // server-side query API: has_connections, connected_clients, is_connected(id), disconnect_reason(id)
            "sq" if t.len() == 2 => {
                let id = num!(t[1], u64);
                let s = srv!();
                let reason = match s.disconnect_reason(id) {
                    None => "none".to_string(),
                    Some(r) => reason_str(&r),
                };
                format!("has={} n={} is={} reason={}", s.has_connections(), s.connected_clients(), s.is_connected(id), reason)
            }
            "send" if t.len() == 4 => {
                let ch = num!(t[2], u8);
                let m = match unhex(t[3]) {
                    Some(m) => m,
                    None => return BAD.into(),
                };
                match parse_who(t[1]) {
                    Some(Who::Client(h)) => match self.clients.get_mut(&h) {
                        None => BAD.into(),
                        Some(c) => {
                            c.send_message(ch, m);
                            "ok".into()
                        }
                    },
                    Some(Who::SConn(id)) => {
                        srv!().send_message(id, ch, m);
                        "ok".into()
                    }
                    _ => BAD.into(),
                }
            }
            "bcast" if t.len() == 3 => {
                let ch = num!(t[1], u8);
                match unhex(t[2]) {
                    Some(m) => {
                        srv!().broadcast_message(ch, m);
                        "ok".into()
                    }
                    None => BAD.into(),
                }
            }
            "bcastx" if t.len() == 4 => {
                let id = num!(t[1], u64);
                let ch = num!(t[2], u8);
                match unhex(t[3]) {
                    Some(m) => {
                        srv!().broadcast_message_except(id, ch, m);
                        "ok".into()
                    }
                    None => BAD.into(),
                }
            }
            "recv" if t.len() == 3 => {
                let ch = num!(t[2], u8);
                let m = match parse_who(t[1]) {
                    Some(Who::Client(h)) => match self.clients.get_mut(&h) {
                        None => return BAD.into(),
                        Some(c) => c.receive_message(ch),
                    },
                    Some(Who::SConn(id)) => srv!().receive_message(id, ch),
                    _ => return BAD.into(),
                };
                match m {
                    None => "none".into(),
                    Some(m) => format!("msg {}", hex(&m)),
                }
            }
            "upd" if t.len() == 3 => {
                let us = num!(t[2], u64);
                match parse_who(t[1]) {
                    Some(Who::Client(h)) => match self.clients.get_mut(&h) {
                        None => BAD.into(),
                        Some(c) => {
                            c.update(Duration::from_micros(us));
                            "ok".into()
                        }
                    },
                    Some(Who::Srv) => {
                        srv!().update(Duration::from_micros(us));
                        "ok".into()
                    }
                    _ => BAD.into(),
                }
            }
            "flush" if t.len() == 2 => {
                let ps = match parse_who(t[1]) {
                    Some(Who::Client(h)) => match self.clients.get_mut(&h) {
                        None => return BAD.into(),
                        Some(c) => c.get_packets_to_send(),
                    },
                    Some(Who::SConn(id)) => match srv!().get_packets_to_send(id) {
                        Ok(ps) => ps,
                        Err(_) => return "notfound".into(),
                    },
                    _ => return BAD.into(),
                };
                let mut s = format!("pkts {}", ps.len());
                for p in ps.iter() {
                    s.push(' ');
                    s.push_str(&hex(p));
                }
                self.hist.entry(t[1].to_string()).or_default().extend(ps);
                s
            }
            "dlv" | "dlvm" if (t[0] == "dlv" && t.len() == 4) || (t[0] == "dlvm" && t.len() == 5) => {
                let to = match parse_who(t[1]) {
                    Some(w) => w,
                    None => return BAD.into(),
                };
                let k = num!(t[3], usize);
                let b = match self.hist.get(t[2]).and_then(|h| h.get(k)) {
                    None => return "nohist".into(),
                    Some(b) => b.clone(),
                };
                let b = if t[0] == "dlvm" {
                    match apply_mut(&b, t[4]) {
                        Some(b) => b,
                        None => return BAD.into(),
                    }
                } else {
                    b
                };
                self.process(to, &b)
            }
            "raw" if t.len() == 3 => {
                let to = match parse_who(t[1]) {
                    Some(w) => w,
                    None => return BAD.into(),
                };
                match unhex(t[2]) {
                    Some(b) => self.process(to, &b),
                    None => BAD.into(),
                }
            }
            "stat" if t.len() == 2 => match parse_who(t[1]) {
                Some(Who::Client(h)) => match self.clients.get(&h) {
                    None => BAD.into(),
                    Some(c) => status_str(c),
                },
                Some(Who::SConn(id)) => match srv!().verif_connection(id) {
                    None => "notfound".into(),
                    Some(c) => status_str(c),
                },
                _ => BAD.into(),
            },
            "dump" if t.len() == 2 => match parse_who(t[1]) {
                Some(Who::Client(h)) => match self.clients.get(&h) {
                    None => BAD.into(),
                    Some(c) => c.verif_dump(),
                },
                Some(Who::SConn(id)) => match srv!().verif_connection(id) {
                    None => "notfound".into(),
                    Some(c) => c.verif_dump(),
                },
                _ => BAD.into(),
            },
            "avail" if t.len() == 3 => {
                let ch = num!(t[2], u8);
                match parse_who(t[1]) {
                    Some(Who::Client(h)) => match self.clients.get(&h) {
                        None => BAD.into(),
                        Some(c) => c.channel_available_memory(ch).to_string(),
                    },
                    Some(Who::SConn(id)) => srv!().channel_available_memory(id, ch).to_string(),
                    _ => BAD.into(),
                }
            }
            "note" if t.len() == 2 => "ok".into(),
            // bulk ops: `sendn <who> <ch> <count> <tag>` submits count 5-byte messages (tag, i as u32 LE);
            // `recvn <who> <ch> <max>` drains up to max messages and answers their count and a checksum
            "sendn" if t.len() == 5 => {
                let ch = num!(t[2], u8);
                let n = num!(t[3], u32);
                let tag = num!(t[4], u8);
                for i in 0..n {
                    let mut m = vec![tag];
                    m.extend(i.to_le_bytes());
                    match parse_who(t[1]) {
                        Some(Who::Client(h)) => match self.clients.get_mut(&h) {
                            None => return BAD.into(),
                            Some(c) => c.send_message(ch, m),
                        },
                        Some(Who::SConn(id)) => srv!().send_message(id, ch, m),
                        _ => return BAD.into(),
                    }
                }
                "ok".into()
            }
            // `sendfill <who> <ch> <len> <byte>` submits ONE message of len copies of byte (implementation-only profiles:
            // messages far beyond what a hex line can carry; the buffer is allocated once and handed over without a copy)
            "sendfill" if t.len() == 5 => {
                let ch = num!(t[2], u8);
                let n = num!(t[3], usize);
                let byte = num!(t[4], u8);
                let m = vec![byte; n];
                match parse_who(t[1]) {
                    Some(Who::Client(h)) => match self.clients.get_mut(&h) {
                        None => return BAD.into(),
                        Some(c) => c.send_message(ch, m),
                    },
                    Some(Who::SConn(id)) => srv!().send_message(id, ch, m),
                    _ => return BAD.into(),
                }
                "ok".into()
            }
            "recvn" if t.len() == 4 => {
                let ch = num!(t[2], u8);
                let max = num!(t[3], u64);
                let mut n = 0u64;
                let mut sum: u64 = 0;
                while n < max {
                    let m = match parse_who(t[1]) {
                        Some(Who::Client(h)) => match self.clients.get_mut(&h) {
                            None => return BAD.into(),
                            Some(c) => c.receive_message(ch),
                        },
                        Some(Who::SConn(id)) => srv!().receive_message(id, ch),
                        _ => return BAD.into(),
                    };
                    match m {
                        None => break,
                        Some(m) => {
                            n += 1;
                            for b in m.iter() {
                                sum = (sum * 31 + *b as u64) % 1_000_000_007;
                            }
                        }
                    }
                }
                format!("msgs {} {}", n, sum)
            }
            "enc" => match parse_term(&t[1..]) {
                None => BAD.into(),
                Some(p) => {
                    let mut buffer = [0u8; 1400];
                    let mut oct = octets::OctetsMut::with_slice(&mut buffer);
                    match p.to_bytes(&mut oct) {
                        Ok(len) => hex(&buffer[..len]),
                        Err(e) => format!("err:{:?}", e),
                    }
                }
            },
            "dec" if t.len() == 2 => match unhex(t[1]) {
                None => BAD.into(),
                Some(b) => {
                    let mut oct = octets::Octets::with_slice(&b);
                    match WPacket::from_bytes(&mut oct) {
                        Ok(p) => show_term(&p),
                        Err(e) => format!("err:{:?}", e),
                    }
                }
            },
            "cansend" if t.len() == 4 => {
                let ch = num!(t[2], u8);
                let n = num!(t[3], usize);
                match parse_who(t[1]) {
                    Some(Who::Client(h)) => match self.clients.get(&h) {
                        None => BAD.into(),
                        Some(c) => c.can_send_message(ch, n).to_string(),
                    },
                    Some(Who::SConn(id)) => srv!().can_send_message(id, ch, n).to_string(),
                    _ => BAD.into(),
                }
            }
            "setc" | "setg" | "disc" | "disct" if t.len() == 2 => {
                let h = num!(t[1], u64);
                match self.clients.get_mut(&h) {
                    None => BAD.into(),
                    Some(c) => {
                        match t[0] {
                            "setc" => c.set_connected(),
                            "setg" => c.set_connecting(),
                            "disc" => c.disconnect(),
                            _ => c.disconnect_due_to_transport(),
                        }
                        "ok".into()
                    }
                }
            }
            _ => BAD.into(),
        }
    }
}

use renet::verif::{Packet as WPacket, Slice as WSlice};

pub fn show_term(p: &WPacket) -> String {
    match p {
        WPacket::SmallReliable { sequence, channel_id, messages } => {
            let mut s = format!("SR {} {} {}", sequence, channel_id, messages.len());
            for (id, m) in messages {
                s.push_str(&format!(" {} {}", id, hex(m)));
            }
            s
        }
        WPacket::SmallUnreliable { sequence, channel_id, messages } => {
            let mut s = format!("SU {} {} {}", sequence, channel_id, messages.len());
            for m in messages {
                s.push_str(&format!(" {}", hex(m)));
            }
            s
        }
        WPacket::ReliableSlice { sequence, channel_id, slice } => format!(
            "RS {} {} {} {} {} {}",
            sequence,
            channel_id,
            slice.message_id,
            slice.slice_index,
            slice.num_slices,
            hex(&slice.payload)
        ),
        WPacket::UnreliableSlice { sequence, channel_id, slice } => format!(
            "US {} {} {} {} {} {}",
            sequence,
            channel_id,
            slice.message_id,
            slice.slice_index,
            slice.num_slices,
            hex(&slice.payload)
        ),
        WPacket::Ack { sequence, ack_ranges } => {
            let mut s = format!("AK {} {}", sequence, ack_ranges.len());
            for r in ack_ranges {
                s.push_str(&format!(" {} {}", r.start, r.end));
            }
            s
        }
    }
}

pub fn parse_term(t: &[&str]) -> Option<WPacket> {
    if t.len() < 3 {
        return None;
    }
    let seq: u64 = t[1].parse().ok()?;
    match t[0] {
        "SR" => {
            let ch: u8 = t[2].parse().ok()?;
            let n: usize = t.get(3)?.parse().ok()?;
            if t.len() != 4 + 2 * n {
                return None;
            }
            let mut messages = vec![];
            for i in 0..n {
                messages.push((t[4 + 2 * i].parse().ok()?, unhex(t[5 + 2 * i])?.into()));
            }
            Some(WPacket::SmallReliable { sequence: seq, channel_id: ch, messages })
        }
        "SU" => {
            let ch: u8 = t[2].parse().ok()?;
            let n: usize = t.get(3)?.parse().ok()?;
            if t.len() != 4 + n {
                return None;
            }
            let mut messages = vec![];
            for i in 0..n {
                messages.push(unhex(t[4 + i])?.into());
            }
            Some(WPacket::SmallUnreliable { sequence: seq, channel_id: ch, messages })
        }
        "RS" | "US" if t.len() == 7 => {
            let ch: u8 = t[2].parse().ok()?;
            let slice = WSlice {
                message_id: t[3].parse().ok()?,
                slice_index: t[4].parse().ok()?,
                num_slices: t[5].parse().ok()?,
                payload: unhex(t[6])?.into(),
            };
            if t[0] == "RS" {
                Some(WPacket::ReliableSlice { sequence: seq, channel_id: ch, slice })
            } else {
                Some(WPacket::UnreliableSlice { sequence: seq, channel_id: ch, slice })
            }
        }
        "AK" => {
            let n: usize = t[2].parse().ok()?;
            if t.len() != 3 + 2 * n {
                return None;
            }
            let mut ack_ranges = vec![];
            for i in 0..n {
                let s: u64 = t[3 + 2 * i].parse().ok()?;
                let e: u64 = t[4 + 2 * i].parse().ok()?;
                ack_ranges.push(s..e);
            }
            Some(WPacket::Ack { sequence: seq, ack_ranges })
        }
        _ => None,
    }
}

include!("rn_profiles.rs");
