// ---------------------------------------------------------------------------------------------
// Profiles (scripts) and trace oracles of the renet engine. Included into rn.rs.
//
// Conventions used by scripts and oracles:
//   * client handle h is the peer of server connection id 100+h  (c0 <-> s100, c1 <-> s101, …)
//   * `note <word>` is a no-op on both sides; scripts use it to tell the oracles about phases:
//       note healed     – a lossless phase long enough for the whole backlog has just ended
//       note quiescent  – additionally ≥ 3 s passed and everything was drained
// ---------------------------------------------------------------------------------------------

#[derive(Clone, Debug)]
pub struct Chan {
    pub id: u8,
    pub kind: &'static str, // U | RO | RU
    pub max_mem: usize,
    pub resend_us: u64,
}

fn chans_str(v: &[Chan]) -> String {
    let mut s = format!("{}", v.len());
    for c in v {
        s.push_str(&format!(" {} {} {} {}", c.id, c.kind, c.max_mem, c.resend_us));
    }
    s
}

pub fn cfg_line(budget: u64, server: &[Chan], client: &[Chan]) -> String {
    format!("cfg {} S {} C {}", budget, chans_str(server), chans_str(client))
}

fn gen_chans(rng: &mut Rng, small_mem: bool) -> Vec<Chan> {
    let n = rng.range(1, 4) as usize;
    let mut ids: Vec<u8> = vec![0, 1, 2, 3, 7, 200];
    let mut v = vec![];
    for _ in 0..n {
        let i = rng.below(ids.len() as u64) as usize;
        let id = ids.remove(i);
        let kind = rng.pick(&["U", "RO", "RU", "RO", "RU"]);
        let max_mem = if small_mem {
            rng.pick(&[1200usize, 2400, 3600, 5000, 12_000, 40_000])
        } else {
            rng.pick(&[40_000usize, 5 * 1024 * 1024, 200_000])
        };
        let resend_us = rng.pick(&[50_000u64, 100_000, 300_000, 0]);
        v.push(Chan { id, kind, max_mem, resend_us });
    }
    v
}

fn default_chans() -> Vec<Chan> {
    vec![
        Chan { id: 0, kind: "U", max_mem: 5 * 1024 * 1024, resend_us: 0 },
        Chan { id: 1, kind: "RU", max_mem: 5 * 1024 * 1024, resend_us: 300_000 },
        Chan { id: 2, kind: "RO", max_mem: 5 * 1024 * 1024, resend_us: 300_000 },
    ]
}

const SIZES: &[usize] = &[0, 1, 2, 17, 63, 64, 500, 1185, 1189, 1190, 1191, 1195, 1199, 1200, 1201, 1202, 1280, 1288, 1291, 1293, 1295, 1297, 1299, 1300, 1301, 2399, 2400, 2401, 3600, 3601, 4799, 6000];

fn rand_msg(rng: &mut Rng, cap: usize) -> Vec<u8> {
    let n = gen_size(rng).min(cap);
    rng.payload(n)
}

fn rand_small(rng: &mut Rng, below: u64) -> Vec<u8> {
    let n = rng.below(below) as usize;
    rng.payload(n)
}

fn rand_bytes(rng: &mut Rng, below: u64) -> Vec<u8> {
    let n = rng.below(below) as usize;
    rng.bytes(n)
}

fn gen_size(rng: &mut Rng) -> usize {
    match rng.below(10) {
        0..=3 => rng.below(200) as usize,
        4..=8 => rng.pick(SIZES),
        _ => rng.range(1000, 7000) as usize,
    }
}

fn pkts_count(out: &str) -> usize {
    let mut it = out.split(' ');
    if it.next() == Some("pkts") {
        it.next().and_then(|s| s.parse().ok()).unwrap_or(0)
    } else {
        0
    }
}

struct Net {
    // (due_tick, to, from, index, mutation)
    inflight: Vec<(u64, String, String, usize, Option<String>)>,
    emitted: HashMap<String, usize>,
    /// what was already handed over (to, from, index): a second hand-over is a pure network duplicate
    delivered: std::collections::HashSet<(String, String, usize)>,
    /// bracket (half of the) duplicate hand-overs with `stat <to>`: windows for the duplicates-harmless oracle
    probe_dups: bool,
}

impl Net {
    fn new() -> Self {
        Net { inflight: vec![], emitted: HashMap::new(), delivered: Default::default(), probe_dups: false }
    }
    /// flush `from`, schedule its new packets towards `to` under the fault profile
    fn flush(&mut self, rng: &mut Rng, ex: &mut dyn FnMut(&str) -> String, from: &str, to: &str, tick: u64, loss: u64, dup: u64, delay: u64) {
        let out = ex(&format!("flush {}", from));
        let k = pkts_count(&out);
        let base = *self.emitted.get(from).unwrap_or(&0);
        self.emitted.insert(from.to_string(), base + k);
        for i in base..base + k {
            if rng.chance(loss, 100) {
                continue;
            }
            let copies = if rng.chance(dup, 100) { 1 + rng.range(1, 3) } else { 1 };
            for _ in 0..copies {
                let d = if rng.chance(delay, 100) { rng.range(1, 6) } else { 0 };
                self.inflight.push((tick + d, to.to_string(), from.to_string(), i, None));
            }
        }
    }
    fn deliver_due(&mut self, rng: &mut Rng, ex: &mut dyn FnMut(&str) -> String, tick: u64, shuffle: bool) {
        let mut due: Vec<_> = vec![];
        let mut rest = vec![];
        for x in self.inflight.drain(..) {
            if x.0 <= tick {
                due.push(x)
            } else {
                rest.push(x)
            }
        }
        self.inflight = rest;
        if shuffle {
            for i in (1..due.len()).rev() {
                let j = rng.below(i as u64 + 1) as usize;
                due.swap(i, j);
            }
        }
        for (_, to, from, k, m) in due {
            match m {
                None => {
                    let dup = !self.delivered.insert((to.clone(), from.clone(), k));
                    let probe = self.probe_dups && dup && rng.chance(1, 2);
                    if probe {
                        ex(&format!("stat {}", to));
                    }
                    ex(&format!("dlv {} {} {}", to, from, k));
                    if probe {
                        ex(&format!("stat {}", to));
                    }
                }
                Some(m) => {
                    ex(&format!("dlvm {} {} {} {}", to, from, k, m));
                }
            };
        }
    }
}

fn drain(ex: &mut dyn FnMut(&str) -> String, who: &str, ch: u8, max: usize) {
    for _ in 0..max {
        if ex(&format!("recv {} {}", who, ch)) == "none" {
            break;
        }
    }
}

/// E2: one client (c0) and its server connection (s100) joined by a faulty network.
fn script_pair(rng: &mut Rng, tier: Tier, ex: &mut dyn FnMut(&str) -> String) {
    let custom = rng.chance(1, 2);
    let (sm1, sm2) = (rng.chance(1, 3), rng.chance(1, 3));
    let (sc, cc) = if custom { (gen_chans(rng, sm1), gen_chans(rng, sm2)) } else { (default_chans(), default_chans()) };
    let budget = rng.pick(&[60_000u64, 60_000, 12_000, 4800, 2400, 1200, 1300]);
    ex(&cfg_line(budget, &sc, &cc));
    ex("cli 0");
    ex("add 100");
    ex("setc 0");
    let ticks = if tier == Tier::Quick { rng.range(3, 14) } else { rng.range(5, 40) };
    let dt = rng.pick(&[16_000u64, 50_000, 100_000, 300_000, 301_000, 1_000_000]);
    let loss = rng.pick(&[0u64, 0, 10, 30, 60]);
    let dup = rng.pick(&[0u64, 10, 40]);
    let delay = rng.pick(&[0u64, 20, 50]);
    let shuffle = rng.chance(1, 2);
    let mut net = Net::new();
    net.probe_dups = true;
    let mut sent_bytes: u64 = 0;
    let mut ctr = 0u32;
    for tick in 0..ticks {
        // application sends
        let ns = rng.below(4);
        for _ in 0..ns {
            let from_client = rng.chance(1, 2);
            let chs = if from_client { &cc } else { &sc };
            let c = rng.pick(chs);
            let n = gen_size(rng);
            sent_bytes += n as u64;
            let m = stamped(rng, n, &mut ctr);
            ex(&format!("send {} {} {}", if from_client { "c0" } else { "s100" }, c.id, hex(&m)));
        }
        let jitter = if rng.chance(1, 4) { rng.below(dt + 1) } else { dt };
        ex(&format!("upd c0 {}", jitter));
        ex(&format!("upd srv {}", jitter));
        if rng.chance(1, 3) {
            ex("dump c0"); // dump + flush: promptness under whatever budget this case has
        }
        net.flush(rng, ex, "c0", "s100", tick, loss, dup, delay);
        if rng.chance(1, 3) {
            ex("dump s100");
        }
        net.flush(rng, ex, "s100", "c0", tick, loss, dup, delay);
        net.deliver_due(rng, ex, tick, shuffle);
        // application receives (sometimes between arrivals only partially)
        for c in cc.iter() {
            if rng.chance(2, 3) {
                drain(ex, "s100", c.id, rng.range(1, 6) as usize);
            }
        }
        for c in sc.iter() {
            if rng.chance(2, 3) {
                drain(ex, "c0", c.id, rng.range(1, 6) as usize);
            }
        }
        if rng.chance(1, 5) {
            ex("dump c0");
            ex("dump s100");
            // channel_available_memory right after a dump: max − accounted
            let c = rng.pick(&sc);
            ex(&format!("avail s100 {}", c.id));
        }
        if rng.chance(1, 4) {
            // the query API agrees with what send_message will do, at the exact limit too
            let c = rng.pick(&cc);
            let a: u64 = ex(&format!("avail c0 {}", c.id)).parse().unwrap_or(0);
            for n in [a.saturating_sub(1), a, a + 1] {
                ex(&format!("cansend c0 {} {}", c.id, n));
            }
            let c = rng.pick(&sc);
            ex(&format!("cansend s100 {} {}", c.id, gen_size(rng)));
        }
        if rng.chance(1, 3) {
            // verdicts that wait for "still connected" (work conservation, head-of-line, memory) are raised here
            ex("stat c0");
            ex("stat s100");
        }
    }
    // heal: lossless, in-order, long enough for the whole backlog
    if budget >= 1300 {
        let max_resend = sc.iter().chain(cc.iter()).map(|c| c.resend_us).max().unwrap_or(0);
        let hdt = max_resend + 1000;
        let need = (2 * sent_bytes / budget.max(1) + 6).min(200);
        let mut t = ticks + 10;
        net.deliver_due(rng, ex, t, false);
        for _ in 0..need {
            t += 1;
            ex(&format!("upd c0 {}", hdt));
            ex(&format!("upd srv {}", hdt));
            net.flush(rng, ex, "c0", "s100", t, 0, 0, 0);
            net.flush(rng, ex, "s100", "c0", t, 0, 0, 0);
            net.deliver_due(rng, ex, t, false);
            for c in cc.iter() {
                drain(ex, "s100", c.id, 10_000);
            }
            for c in sc.iter() {
                drain(ex, "c0", c.id, 10_000);
            }
        }
        ex("stat c0");
        ex("stat s100");
        ex("note healed");
        // quiescence: let stale unreliable fragments expire, everything acked
        ex("upd c0 3100000");
        ex("upd srv 3100000");
        for c in sc.iter() {
            ex(&format!("avail s100 {}", c.id));
        }
        for c in cc.iter() {
            ex(&format!("avail c0 {}", c.id));
        }
        ex("dump c0");
        ex("dump s100");
        ex("note quiescent");
    }
}

fn nontrivial_pair(t: &Trace) -> bool {
    t.outs.iter().any(|o| o.starts_with("msg "))
}

fn keep_cfg(ops: &[String]) -> usize {
    // cfg + endpoint creation lines
    let mut k = 0;
    for o in ops {
        if o.starts_with("cfg ") || o.starts_with("cli ") || o.starts_with("add ") || o.starts_with("setc ") {
            k += 1;
        } else {
            break;
        }
    }
    k
}



// ---------------------------------------------------------------------------------------------
// E2 timing: dump + flush every tick, generous budget, tick lengths around resend_time
// ---------------------------------------------------------------------------------------------
fn script_timing(rng: &mut Rng, tier: Tier, ex: &mut dyn FnMut(&str) -> String) {
    let resend = rng.pick(&[50_000u64, 100_000, 300_000, 2_500, 100_700, 999]);
    let kind = rng.pick(&["RO", "RU"]);
    let ch = vec![Chan { id: 1, kind, max_mem: 5 * 1024 * 1024, resend_us: resend }, Chan { id: 0, kind: "U", max_mem: 100_000, resend_us: 0 }];
    ex(&cfg_line(10_000_000, &ch, &ch));
    ex("cli 0");
    ex("add 100");
    // the transport reports the connection as established at once, or only after the application has already submitted and
    // flushed messages on the fresh (Connecting) client; later it may flap Connecting -> Connected: the status never
    // touches the resend timers (seeded C15u)
    let connect_at = if rng.chance(1, 3) { rng.range(1, 3) } else { 0 };
    if connect_at == 0 {
        ex("setc 0");
    }
    let ticks = if tier == Tier::Quick { rng.range(6, 16) } else { rng.range(10, 40) };
    let mode = rng.below(4);
    let mut net = Net::new();
    net.probe_dups = true;
    let loss = rng.pick(&[0u64, 30, 60]);
    let mut ctr = 0u32;
    for tick in 0..ticks {
        if tick < ticks / 2 || rng.chance(1, 4) {
            for _ in 0..rng.below(3) {
                let n = gen_size(rng).min(6000);
                let m = stamped(rng, n, &mut ctr);
                let who = rng.pick(&["c0", "s100"]);
                ex(&format!("send {} 1 {}", who, hex(&m)));
            }
        }
        let dt = match mode {
            0 => resend,                                  // exactly resend_time
            1 => rng.pick(&[resend - 1, resend, resend + 1, resend - resend % 1000, resend - resend % 1000 + 200]),
            2 => rng.pick(&[resend / 2, resend / 3, resend]), // shorter ticks
            _ => rng.range(1, 2 * resend),                // irregular
        };
        if connect_at != 0 && tick == connect_at {
            ex("setc 0");
        } else if tick > connect_at && rng.chance(1, 8) {
            ex("setg 0");
            ex("setc 0");
        }
        ex(&format!("upd c0 {}", dt));
        ex(&format!("upd srv {}", dt));
        ex("dump c0");
        net.flush(rng, ex, "c0", "s100", tick, loss, 20, 30);
        ex("dump s100");
        net.flush(rng, ex, "s100", "c0", tick, loss, 20, 30);
        net.deliver_due(rng, ex, tick, true);
        if rng.chance(1, 2) {
            drain(ex, "c0", 1, 5);
            drain(ex, "s100", 1, 5);
        }
        if rng.chance(1, 4) {
            ex("stat c0");
            ex("stat s100");
        }
    }
    ex("stat c0");
    ex("stat s100");
}

/// C15 promptness + never-after-ack on `dump X` immediately followed by `flush X` (budget generous):
/// every unacknowledged entry/slice that is due at the flush time must be in the flush, nothing that is
/// not in the unacked set may be.
fn oracle_c15_prompt(ops: &[String], outs: &[String]) -> Option<OracleFail> {
    let mut cfg = Cfg::default();
    for i in 0..ops.len() {
        if let Some(c) = parse_cfg(&ops[i]) {
            cfg = c;
        }
        if i == 0 || !ops[i].starts_with("flush ") {
            continue;
        }
        let who = &ops[i][6..];
        if ops[i - 1] != format!("dump {}", who) || !outs[i - 1].starts_with("seq=") {
            continue;
        }
        if cfg.budget < 1_000_000 {
            continue; // "budget allows" is only trivially true for generous budgets
        }
        let dump = &outs[i - 1];
        let now: u64 = head_field(dump, "now").and_then(|x| x.parse().ok()).unwrap_or(0);
        // what this flush carries
        let mut carried: std::collections::HashSet<(u8, u64, i64)> = Default::default();
        for p in flush_packets(&outs[i]) {
            match decode(p) {
                Some(WPacket::SmallReliable { channel_id, messages, .. }) => {
                    for (id, _) in messages {
                        carried.insert((channel_id, id, -1));
                    }
                }
                Some(WPacket::ReliableSlice { channel_id, slice, .. }) => {
                    carried.insert((channel_id, slice.message_id, slice.slice_index as i64));
                }
                _ => {}
            }
        }
        if outs[i - 1].contains("disconnected") {
            continue;
        }
        let mut known: std::collections::HashSet<(u8, u64)> = Default::default();
        for (name, b) in dump_blocks(dump) {
            if !name.starts_with("sr") {
                continue;
            }
            let ch: u8 = name[2..].parse().unwrap_or(0);
            let list = if who.starts_with('c') { &cfg.client } else { &cfg.server };
            let resend_ns = list.iter().find(|c| c.0 == ch).map(|c| c.3 * 1000).unwrap_or(0);
            let due = |last: &str| -> bool {
                match last.parse::<u64>() {
                    Err(_) => true, // "-" never sent
                    Ok(t) => now.saturating_sub(t) >= resend_ns,
                }
            };
            for e in field(&b, "un").unwrap_or("").split(';').filter(|x| !x.is_empty()) {
                // id:S<len>@<last>   |   id:L<len>,<n>,<acked>,<next>,<bits>@<l0>,<l1>,…
                let (id, rest) = match e.split_once(':') {
                    Some(x) => x,
                    None => continue,
                };
                let id: u64 = id.parse().unwrap_or(0);
                known.insert((ch, id));
                let (head, lasts) = match rest.split_once('@') {
                    Some(x) => x,
                    None => continue,
                };
                if head.starts_with('S') {
                    if due(lasts) && !carried.contains(&(ch, id, -1)) {
                        return fail(i, "due-not-sent", format!("{} channel {} message {} is unacknowledged and due (last sent {}, now {}) but this flush does not carry it", who, ch, id, lasts, now));
                    }
                    if !due(lasts) && carried.contains(&(ch, id, -1)) {
                        return fail(i, "retransmitted-early", format!("{} channel {} message {} retransmitted before resend_time (last {}, now {})", who, ch, id, lasts, now));
                    }
                } else {
                    let f: Vec<&str> = head[1..].split(',').collect();
                    let bits = f.get(4).copied().unwrap_or("");
                    for (k, (bit, last)) in bits.chars().zip(lasts.split(',')).enumerate() {
                        let has = carried.contains(&(ch, id, k as i64));
                        if bit == '1' {
                            if has {
                                return fail(i, "sent-after-ack", format!("{} channel {} message {} slice {} was acknowledged but is transmitted again", who, ch, id, k));
                            }
                        } else if due(last) && !has {
                            return fail(i, "due-not-sent", format!("{} channel {} message {} slice {} is unacknowledged and due (last {}, now {}) but not in this flush", who, ch, id, k, last, now));
                        } else if !due(last) && has {
                            return fail(i, "retransmitted-early", format!("{} channel {} message {} slice {} retransmitted before resend_time", who, ch, id, k));
                        }
                    }
                }
            }
        }
        for (ch, id, sl) in carried.iter() {
            if !known.contains(&(*ch, *id)) {
                return fail(i, "sent-after-ack", format!("{} channel {} message {} (slice {}) is not in the unacknowledged set but is transmitted", who, ch, id, sl));
            }
        }
    }
    None
}

// ---------------------------------------------------------------------------------------------
// E2 long: tens of thousands of tiny messages (ids and sequences cross the varint widths),
// hundreds per tick (packing), lossy, then heal
// ---------------------------------------------------------------------------------------------
fn script_long(rng: &mut Rng, _tier: Tier, ex: &mut dyn FnMut(&str) -> String) {
    let kind = rng.pick(&["RO", "RU"]);
    let ch = vec![Chan { id: 2, kind, max_mem: 5 * 1024 * 1024, resend_us: 100_000 }, Chan { id: 0, kind: "U", max_mem: 5 * 1024 * 1024, resend_us: 0 }];
    ex(&cfg_line(60_000, &ch, &ch));
    ex("cli 0");
    ex("add 100");
    ex("setc 0");
    let total = rng.pick(&[17_000u64, 17_500]);
    let per_tick = rng.pick(&[500u64, 700, 900]);
    let mut sent = 0u64;
    let mut net = Net::new();
    let mut tick = 0u64;
    let loss = rng.pick(&[0u64, 10, 30]);
    let mut ctr = 0u32;
    while sent < total {
        for _ in 0..per_tick {
            // tiny messages (hundreds per packet); half of them carry a 4-byte counter so that neighbours differ
            let n = match rng.below(40) {
                0 => rng.pick(&[1185usize, 1189, 1190, 1195, 1199, 1200]),
                1 => 100,
                2..=20 => 4 + rng.below(3) as usize,
                _ => rng.below(3) as usize,
            };
            let m = stamped(rng, n, &mut ctr);
            ex(&format!("send c0 2 {}", hex(&m)));
            if rng.chance(1, 3) {
                ex(&format!("send c0 0 {}", hex(&m)));
            }
            sent += 1;
        }
        ex("upd c0 101000");
        ex("upd srv 101000");
        if rng.chance(1, 3) {
            ex("dump c0"); // dump + flush: the ack packet is the recorded set, whatever the channels used of the budget
        }
        net.flush(rng, ex, "c0", "s100", tick, loss, 5, 10);
        if rng.chance(1, 3) {
            ex("dump s100");
        }
        net.flush(rng, ex, "s100", "c0", tick, loss, 5, 10);
        net.deliver_due(rng, ex, tick, true);
        drain(ex, "s100", 2, 100_000);
        drain(ex, "s100", 0, 100_000);
        tick += 1;
    }
    net.deliver_due(rng, ex, tick + 10, false);
    for _ in 0..60 {
        tick += 1;
        ex("upd c0 101000");
        ex("upd srv 101000");
        net.flush(rng, ex, "c0", "s100", tick + 20, 0, 0, 0);
        net.flush(rng, ex, "s100", "c0", tick + 20, 0, 0, 0);
        net.deliver_due(rng, ex, tick + 20, false);
        drain(ex, "s100", 2, 100_000);
        drain(ex, "s100", 0, 100_000);
    }
    ex("stat c0");
    ex("stat s100");
    ex("note healed");
    ex("upd c0 3100000");
    ex("upd srv 3100000");
    ex("dump c0");
    ex("dump s100");
    ex("note quiescent");
}


// ---------------------------------------------------------------------------------------------
// E2 acks: more than 64 disjoint pending ranges at the receiver while the reverse path is out,
// late arrivals into the holes, then the acks arrive and the network heals
// ---------------------------------------------------------------------------------------------
fn script_acks(rng: &mut Rng, _tier: Tier, ex: &mut dyn FnMut(&str) -> String) {
    let sc = default_chans();
    ex(&cfg_line(60_000, &sc, &sc));
    ex("cli 0");
    ex("add 100");
    ex("setc 0");
    let n = rng.range(140, 320) as usize;
    let ch = rng.pick(&[1u8, 2]);
    // phase 1: one packet per message, no acks travel back
    let mut ctr = 0u32;
    for i in 0..n {
        let len = if rng.chance(1, 30) { 1300 } else { rng.below(8) as usize };
        let m = stamped(rng, len, &mut ctr);
        ex(&format!("send c0 {} {}", ch, hex(&m)));
        ex("upd c0 1000");
        ex("flush c0");
        let _ = i;
    }
    let total = n + 10; // sliced messages emit more packets: indices beyond the history answer `nohist`
    let pattern = rng.below(4);
    let mut lost: Vec<usize> = vec![];
    let mut order: Vec<usize> = vec![];
    for k in 0..total {
        let drop = match pattern {
            0 => k % 2 == 0,
            1 => k % 3 == 1,
            2 => rng.chance(2, 5),
            _ => k % 2 == 1 && k > 4,
        };
        if drop {
            lost.push(k)
        } else {
            order.push(k)
        }
    }
    if rng.chance(1, 3) {
        order.reverse();
    }
    let mut dumps = 0;
    for (j, k) in order.iter().enumerate() {
        ex(&format!("dlv s100 c0 {}", k));
        if j % 40 == 39 {
            ex("upd srv 1000");
            ex("flush s100");
            ex("dump s100");
            dumps += 1;
        }
    }
    let _ = dumps;
    // late arrivals fall into the holes between the pending ranges
    for _ in 0..rng.below(12) {
        if lost.is_empty() {
            break;
        }
        let i = rng.below(lost.len() as u64) as usize;
        let k = lost.remove(i);
        ex(&format!("dlv s100 c0 {}", k));
    }
    ex("upd srv 1000");
    let out = ex("flush s100");
    ex("dump s100");
    ex("stat s100");
    drain(ex, "s100", ch, 100_000);
    // phase 2: the reverse path comes back: every ack packet the receiver ever produced
    let acks = {
        let mut c = 0;
        // count packets emitted by s100 so far: each flush above printed `pkts k`; recount cheaply
        c += pkts_count(&out);
        c
    };
    let _ = acks;
    for k in 0..16 {
        let o = ex(&format!("dlv c0 s100 {}", k));
        if o == "nohist" {
            break;
        }
    }
    ex("dump c0");
    // phase 3: heal
    let mut net = Net::new();
    net.emitted.insert("c0".into(), 100_000); // history indices continue after the ones used above
    net.emitted.insert("s100".into(), 100_000);
    let base_c = {
        // number of packets c0 has emitted so far = first index not answering
        let mut lo = n;
        while ex(&format!("dlv s100 c0 {}", lo)) != "nohist" {
            lo += 1;
            if lo > n + 400 {
                break;
            }
        }
        lo
    };
    let mut next_c = base_c;
    let mut next_s = 0usize;
    while ex(&format!("dlv c0 s100 {}", next_s)) != "nohist" {
        next_s += 1;
        if next_s > 400 {
            break;
        }
    }
    for _ in 0..45 {
        ex("upd c0 301000");
        ex("upd srv 301000");
        let k = pkts_count(&ex("flush c0"));
        for i in 0..k {
            ex(&format!("dlv s100 c0 {}", next_c + i));
        }
        next_c += k;
        let k = pkts_count(&ex("flush s100"));
        for i in 0..k {
            ex(&format!("dlv c0 s100 {}", next_s + i));
        }
        next_s += k;
        drain(ex, "s100", ch, 100_000);
    }
    ex("stat c0");
    ex("stat s100");
    ex("note healed");
    ex("upd c0 3100000");
    ex("upd srv 3100000");
    ex("dump c0");
    ex("dump s100");
    ex("note quiescent");
}


// ---------------------------------------------------------------------------------------------
// E2 huge: 70 000 tiny messages queued at once (ids run more than 65 536 ahead of a missing one)
// ---------------------------------------------------------------------------------------------
fn script_huge_u(rng: &mut Rng, tier: Tier, ex: &mut dyn FnMut(&str) -> String) {
    script_huge(rng, tier, ex, 1)
}

fn script_huge_o(rng: &mut Rng, tier: Tier, ex: &mut dyn FnMut(&str) -> String) {
    script_huge(rng, tier, ex, 2)
}

fn script_huge(_rng: &mut Rng, _tier: Tier, ex: &mut dyn FnMut(&str) -> String, ch: u8) {
    ex(&cfg_line(600_000, &default_chans(), &default_chans()));
    ex("cli 0");
    ex("add 100");
    ex("setc 0");
    let total = 70_000u64;
    ex(&format!("sendn c0 {} {} 7", ch, total));
    let mut next = 0usize;
    let mut next_s = 0usize;
    let mut first = true;
    // 350 000 payload bytes at 600 000 per tick: everything goes out in the first flush
    for _ in 0..3 {
        ex("upd c0 310000");
        ex("upd srv 310000");
        let k = pkts_count(&ex("flush c0"));
        for i in 0..k {
            if first && i == 0 {
                continue; // the very first packet (ids 0..) is lost: the oldest id stays missing
            }
            ex(&format!("dlv s100 c0 {}", next + i));
        }
        first = false;
        next += k;
        ex(&format!("recvn s100 {} 1000000", ch));
        // the acks reach the sender at once: what was acknowledged is forgotten and never sent again
        let a = pkts_count(&ex("flush s100"));
        for i in 0..a {
            ex(&format!("dlv c0 s100 {}", next_s + i));
        }
        next_s += a;
    }
    // heal: the lost packet is retransmitted
    for _ in 0..6 {
        ex("upd c0 310000");
        ex("upd srv 310000");
        let k = pkts_count(&ex("flush c0"));
        for i in 0..k {
            ex(&format!("dlv s100 c0 {}", next + i));
        }
        next += k;
        let k = pkts_count(&ex("flush s100"));
        for i in 0..k {
            ex(&format!("dlv c0 s100 {}", next_s + i));
        }
        next_s += k;
        ex(&format!("recvn s100 {} 1000000", ch));
    }
    ex("stat c0");
    ex("stat s100");
    ex("note healed");
}

/// bulk liveness/safety: what `recvn` obtained never exceeds what `sendn` submitted, and after a
/// heal phase with both ends connected everything submitted was obtained.
///
/// Content (the checksum `recvn` prints is order-sensitive): on an ORDERED channel the k messages a `recvn` drains after g
/// earlier ones must be submissions g … g+k-1, so the expected checksum is computable here and compared — order, content
/// and a duplicate compensated by a loss are all visible. On an UNORDERED channel the hand-over order is the
/// implementation's choice, so the printed checksum cannot be judged; there the count is checked against the flush
/// history instead: a `recvn` that is allowed to drain everything obtains exactly the messages completely delivered and
/// not yet obtained ("handed over as soon as it is complete", each once).
fn oracle_bulk(ops: &[String], outs: &[String]) -> Option<OracleFail> {
    let mut sub: HashMap<(String, String), u64> = HashMap::new();
    let mut got: HashMap<(String, String), u64> = HashMap::new();
    let mut status: HashMap<String, String> = HashMap::new();
    let mut cfg = Cfg::default();
    let mut segments: HashMap<(String, String), Vec<(u8, u64)>> = HashMap::new(); // (sender, ch) -> (tag, count) per sendn
    let mut hist: HashMap<String, Vec<String>> = HashMap::new();
    let mut complete: HashMap<(String, u8), std::collections::HashSet<u64>> = HashMap::new(); // receiver, ch -> ids (small messages only)
    let mut honest = true;
    let mut pending: Vec<(String, OracleFail)> = vec![];
    for (i, (op, out)) in ops.iter().zip(outs.iter()).enumerate() {
        let t: Vec<&str> = op.split(' ').collect();
        match t[0] {
            "cfg" => {
                if let Some(c) = parse_cfg(op) {
                    cfg = c
                }
            }
            "raw" | "dlvm" | "send" | "bcast" | "bcastx" => honest = false, // the count rule below knows bulk traffic only
            "flush" if t.len() == 2 => {
                for p in flush_packets(out) {
                    hist.entry(t[1].to_string()).or_default().push(p.to_string());
                }
            }
            "dlv" if t.len() == 4 => {
                if peer_of(t[1]).as_deref() != Some(t[2]) {
                    honest = false;
                } else if out == "ok" {
                    let k: usize = t[3].parse().unwrap_or(usize::MAX);
                    if let Some(WPacket::SmallReliable { channel_id, messages, .. }) = hist.get(t[2]).and_then(|h| h.get(k)).filter(|p| p.starts_with("00")).and_then(|p| decode(p)) {
                        let e = complete.entry((t[1].to_string(), channel_id)).or_default();
                        for (id, _) in messages {
                            e.insert(id);
                        }
                    }
                }
            }
            "sendn" if t.len() == 5 => {
                *sub.entry((t[1].to_string(), t[2].to_string())).or_insert(0) += t[3].parse::<u64>().unwrap_or(0);
                segments.entry((t[1].to_string(), t[2].to_string())).or_default().push((t[4].parse().unwrap_or(0), t[3].parse().unwrap_or(0)));
            }
            "recvn" if t.len() == 4 => {
                let n: u64 = out.split(' ').nth(1).and_then(|x| x.parse().ok()).unwrap_or(0);
                let printed: u64 = out.split(' ').nth(2).and_then(|x| x.parse().ok()).unwrap_or(0);
                if let Some(p) = peer_of(t[1]) {
                    let e = got.entry((p.clone(), t[2].to_string())).or_insert(0);
                    let before = *e;
                    *e += n;
                    if *e > *sub.get(&(p.clone(), t[2].to_string())).unwrap_or(&0) {
                        return fail(i, "bulk-more-than-submitted", format!("{} obtained more messages on channel {} than were submitted", t[1], t[2]));
                    }
                    let ch: u8 = t[2].parse().unwrap_or(0);
                    match send_kind(&cfg, &p, ch).as_deref() {
                        Some("RO") if out.starts_with("msgs ") => {
                            // expected checksum of submissions before … before+n-1 (the world's fold: sum*31 + byte mod 1e9+7)
                            let mut want: u64 = 0;
                            let mut idx = 0u64;
                            for (tag, cnt) in segments.get(&(p.clone(), t[2].to_string())).cloned().unwrap_or_default() {
                                for j in 0..cnt {
                                    if idx >= before && idx < before + n {
                                        let mut m = vec![tag];
                                        m.extend((j as u32).to_le_bytes());
                                        for b in m {
                                            want = (want * 31 + b as u64) % 1_000_000_007;
                                        }
                                    }
                                    idx += 1;
                                }
                            }
                            if want != printed {
                                return fail(i, "bulk-content-or-order", format!("{} drained {} messages after {} earlier ones on ordered channel {}: their checksum is {}, that of submissions {}..{} is {}", t[1], n, before, ch, printed, before, before + n, want));
                            }
                        }
                        Some("RU") if out.starts_with("msgs ") && honest => {
                            let max: u64 = t[3].parse().unwrap_or(0);
                            let have = complete.get(&(t[1].to_string(), ch)).map(|s| s.len() as u64).unwrap_or(0);
                            let ready = have.saturating_sub(before);
                            if (n < ready && n < max || n > ready) && !pending.iter().any(|q| q.0 == t[1]) {
                                pending.push((
                                    t[1].to_string(),
                                    OracleFail { at: i, signature: "bulk-count-differs-from-complete".into(), what: format!("`{}` (op {}) obtained {} messages; {} distinct messages were completely delivered to {} on unordered channel {} and {} of them obtained before", op, i, n, have, t[1], ch, before) },
                                ));
                            }
                        }
                        _ => {}
                    }
                }
            }
            "stat" if t.len() == 2 && out == "connected" && pending.iter().any(|q| q.0 == t[1]) => {
                let pos = pending.iter().position(|q| q.0 == t[1]).unwrap();
                let mut f = pending.remove(pos).1;
                f.at = i;
                return Some(f);
            }
            "stat" if t.len() == 2 => {
                status.insert(t[1].to_string(), out.clone());
            }
            "note" if t.len() == 2 && t[1] == "healed" => {
                if !status.values().all(|s| s == "connected") {
                    continue;
                }
                for ((who, ch), n) in sub.iter() {
                    let g = *got.get(&(who.clone(), ch.clone())).unwrap_or(&0);
                    if g != *n {
                        return fail(i, "bulk-not-delivered-after-heal", format!("channel {} from {}: {} of {} submitted messages obtained after the lossless phase", ch, who, g, n));
                    }
                }
            }
            _ => {}
        }
    }
    None
}

// ---------------------------------------------------------------------------------------------
// E2 unreliable under tight budgets: sliced unreliable messages whose size sits between the
// remaining budget and the next multiple of 1200; lossless delivery
// ---------------------------------------------------------------------------------------------
fn script_unrel(rng: &mut Rng, _tier: Tier, ex: &mut dyn FnMut(&str) -> String) {
    let umem = rng.pick(&[200_000usize, 2400, 3600, 4800, 6000, 7200, 9600]);
    let u = Chan { id: 0, kind: "U", max_mem: umem, resend_us: 0 };
    // a long resend time keeps acknowledged-late reliable data in flight without it being due again
    let r = Chan { id: 1, kind: "RO", max_mem: 200_000, resend_us: rng.pick(&[100_000u64, 100_000, 5_000_000]) };
    let order = if rng.chance(1, 2) { vec![u.clone(), r.clone()] } else { vec![r.clone(), u.clone()] };
    let budget = rng.pick(&[2500u64, 3000, 3700, 4900, 6000, 7300, 10_000, 2400, 3600, 4800]);
    let big_rel = rng.chance(1, 3);
    // an earlier reliable channel that uses the tick's budget to the last byte
    let exact = budget % 1200 == 0 && order[0].kind == "RO" && rng.chance(1, 2);
    ex(&cfg_line(budget, &order, &order));
    ex("cli 0");
    ex("add 100");
    ex("setc 0");
    let ticks = rng.range(4, 10);
    let mut next = 0usize;
    for tick in 0..ticks {
        if exact && tick == 1 {
            let m = rng.payload(budget as usize);
            ex(&format!("send c0 1 {}", hex(&m)));
            let m = rand_small(rng, 300);
            ex(&format!("send c0 0 {}", hex(&m)));
            ex("upd c0 101000");
            ex("upd srv 101000");
            let k = pkts_count(&ex("flush c0"));
            for i in 0..k {
                ex(&format!("dlv s100 c0 {}", next + i));
            }
            next += k;
            drain(ex, "s100", 0, 1000);
            drain(ex, "s100", 1, 1000);
            continue;
        }
        for _ in 0..rng.range(1, 4) {
            // lengths that need 2..6 slices, often just below a multiple of 1200
            let k = rng.range(2, 6) as usize;
            let n = match rng.below(3) {
                0 => k * 1200 - rng.range(1, 1199) as usize,
                1 => (k - 1) * 1200 + 1,
                _ => k * 1200,
            };
            let m = rng.payload(n);
            ex(&format!("send c0 0 {}", hex(&m)));
            if rng.chance(1, 3) {
                let m = rand_small(rng, 300);
                ex(&format!("send c0 {} {}", rng.pick(&[0u8, 1]), hex(&m)));
            }
            if big_rel && rng.chance(1, 3) {
                // a sliced reliable message that stays unacknowledged (no acks flow in this profile)
                let n = rng.range(1201, 3000) as usize;
                let m = rng.payload(n);
                ex(&format!("send c0 1 {}", hex(&m)));
            }
        }
        ex("upd c0 101000");
        ex("upd srv 101000");
        let k = pkts_count(&ex("flush c0"));
        for i in 0..k {
            ex(&format!("dlv s100 c0 {}", next + i));
        }
        next += k;
        drain(ex, "s100", 0, 1000);
        drain(ex, "s100", 1, 1000);
    }
    ex("stat c0");
    ex("stat s100");
}

// ---------------------------------------------------------------------------------------------
// E3: hostile packets injected into live sessions; second healthy connection on the same server
// ---------------------------------------------------------------------------------------------
fn varint(v: u64) -> Vec<u8> {
    if v <= 63 {
        vec![v as u8]
    } else if v <= 16383 {
        let x = (v as u16) | 0x4000;
        x.to_be_bytes().to_vec()
    } else if v <= 1_073_741_823 {
        let x = (v as u32) | 0x8000_0000;
        x.to_be_bytes().to_vec()
    } else {
        let x = (v & 0x3fff_ffff_ffff_ffff) | 0xc000_0000_0000_0000;
        x.to_be_bytes().to_vec()
    }
}

/// a field-targeted hostile packet for one of the given channel ids
fn hostile_packet(rng: &mut Rng, chans: &[u8]) -> Vec<u8> {
    let fields: &[u64] = &[0, 1, 2, 3, 5, 63, 64, 999_999, 1_000_000, 1_000_001, (1 << 30) - 1, 1 << 30, (1u64 << 62) - 1];
    let seq = if rng.chance(1, 2) { rng.below(50) } else { rng.pick(fields) };
    let ch = if rng.chance(5, 6) && !chans.is_empty() { rng.pick(chans) } else { rng.pick(&[0u8, 1, 2, 9, 255]) };
    let mut b = vec![];
    match rng.below(6) {
        0 | 1 => {
            // slice (reliable or unreliable) with boundary index / count / payload length
            b.push(if rng.chance(1, 2) { 2 } else { 3 });
            b.extend(varint(seq));
            b.push(ch);
            b.extend(varint(if rng.chance(2, 3) { rng.below(4) } else { rng.pick(fields) })); // message id
            let n = rng.pick(&[1u64, 2, 3, 4, 5, 1000, 4000, 1_000_000, 0, 1_000_001]);
            let idx = match rng.below(4) {
                0 => n.saturating_sub(1),
                1 => n,
                2 => rng.below(n.max(1)),
                _ => rng.pick(fields),
            };
            b.extend(varint(idx));
            b.extend(varint(n));
            let l = rng.pick(&[0usize, 1, 10, 1199, 1200, 1200, 1201]);
            b.extend(varint(l as u64));
            b.extend(rng.payload(l));
        }
        2 => {
            // small reliable with boundary ids, duplicate ids, huge announced count
            b.push(0);
            b.extend(varint(seq));
            b.push(ch);
            let n = rng.pick(&[0u16, 1, 2, 3, 65535]);
            b.extend(n.to_be_bytes());
            for _ in 0..n.min(4) {
                b.extend(varint(if rng.chance(1, 2) { rng.below(4) } else { rng.pick(fields) }));
                let l = rng.pick(&[0usize, 1, 100, 1200]);
                b.extend(varint(l as u64));
                b.extend(rng.payload(l));
            }
        }
        3 => {
            b.push(1);
            b.extend(varint(seq));
            b.push(ch);
            let n = rng.pick(&[0u16, 1, 2, 600]);
            b.extend(n.to_be_bytes());
            for _ in 0..n.min(3) {
                let l = rng.pick(&[0usize, 1, 100, 1200, 1290]);
                b.extend(varint(l as u64));
                b.extend(rng.payload(l));
            }
        }
        4 => {
            // ack with arbitrary ranges (huge, overlapping what we sent, malformed)
            b.push(4);
            b.extend(varint(seq));
            let end = if rng.chance(1, 2) { rng.below(200) } else { rng.pick(fields) };
            b.extend(varint(end));
            b.extend(varint(if rng.chance(2, 3) { rng.below(end + 1) } else { rng.pick(fields) }));
            let n = rng.pick(&[0u64, 1, 2, 5, 1 << 40]);
            b.extend(varint(n));
            for _ in 0..n.min(5) {
                b.extend(varint(rng.pick(&[0u64, 1, 2, 7, 1 << 35])));
                b.extend(varint(rng.pick(&[0u64, 1, 3, 1 << 35])));
            }
        }
        _ => {
            let n = rng.pick(&[0usize, 1, 2, 3, 7, 30, 1400]);
            b = rng.bytes(n);
            if !b.is_empty() && rng.chance(1, 2) {
                b[0] = rng.pick(&[0u8, 1, 2, 3, 4, 5]);
            }
        }
    }
    if rng.chance(1, 8) && !b.is_empty() {
        let cut = rng.below(b.len() as u64) as usize;
        b.truncate(cut);
    }
    b
}

fn script_hostile(rng: &mut Rng, tier: Tier, ex: &mut dyn FnMut(&str) -> String) {
    let small = rng.chance(1, 2);
    let sc = if rng.chance(1, 2) { gen_chans(rng, small) } else { default_chans() };
    let cc = if rng.chance(1, 2) { gen_chans(rng, small) } else { default_chans() };
    let budget = rng.pick(&[60_000u64, 12_000, 2400]);
    ex(&cfg_line(budget, &sc, &cc));
    // victim pair c0/s100 and healthy pair c1/s101
    for h in 0..2 {
        ex(&format!("cli {}", h));
        ex(&format!("add {}", 100 + h));
        ex(&format!("setc {}", h));
    }
    let s_ids: Vec<u8> = sc.iter().map(|c| c.id).collect();
    let c_ids: Vec<u8> = cc.iter().map(|c| c.id).collect();
    let ticks = if tier == Tier::Quick { rng.range(2, 8) } else { rng.range(4, 20) };
    let mut net = Net::new();
    // the bystander pair c1 / s101 stays within its channel budgets (every message counted at its worst: whole slices), so
    // that nothing but the hostile input next door could explain a disconnect or a lost message of it
    let mut used: HashMap<(bool, u8), usize> = HashMap::new();
    let mut by_bytes = 0u64;
    let mut fit = |rng: &mut Rng, used: &mut HashMap<(bool, u8), usize>, from_client: bool, c: &Chan, m: Vec<u8>| -> Option<Vec<u8>> {
        let cost = |n: usize| if n > 1200 { (n + 1199) / 1200 * 1200 } else { n };
        let e = used.entry((from_client, c.id)).or_insert(0);
        let m = if *e + cost(m.len()) <= c.max_mem { m } else { rand_small(rng, 40) };
        if *e + cost(m.len()) <= c.max_mem {
            *e += cost(m.len());
            Some(m)
        } else {
            None
        }
    };
    for tick in 0..ticks {
        for h in 0..2u64 {
            if rng.chance(2, 3) {
                let c = rng.pick(&cc);
                let m = rand_msg(rng, if h == 0 { 1_000_000 } else { 3000 });
                let m = if h == 0 { Some(m) } else { fit(rng, &mut used, true, &c, m) };
                if let Some(m) = m {
                    by_bytes += if h == 1 { m.len() as u64 } else { 0 };
                    ex(&format!("send c{} {} {}", h, c.id, hex(&m)));
                }
            }
            if rng.chance(2, 3) {
                let c = rng.pick(&sc);
                let m = rand_msg(rng, if h == 0 { 1_000_000 } else { 3000 });
                let m = if h == 0 { Some(m) } else { fit(rng, &mut used, false, &c, m) };
                if let Some(m) = m {
                    by_bytes += if h == 1 { m.len() as u64 } else { 0 };
                    ex(&format!("send s{} {} {}", 100 + h, c.id, hex(&m)));
                }
            }
        }
        let dt = rng.pick(&[16_000u64, 100_000, 400_000, 3_100_000]);
        ex(&format!("upd c0 {}", dt));
        ex(&format!("upd c1 {}", dt));
        ex(&format!("upd srv {}", dt));
        for h in 0..2u64 {
            let (c, s) = (format!("c{}", h), format!("s{}", 100 + h));
            let loss = if h == 0 { 20 } else { 0 };
            net.flush(rng, ex, &c, &s, tick, loss, 10, 20);
            net.flush(rng, ex, &s, &c, tick, loss, 10, 20);
        }
        net.deliver_due(rng, ex, tick, true);
        // hostile input against the victim pair (both directions), at any point of the session
        let nh = rng.below(4);
        for _ in 0..nh {
            let to_server = rng.chance(1, 2);
            let (to, chans) = if to_server { ("s100", &c_ids) } else { ("c0", &s_ids) };
            match rng.below(5) {
                0..=2 => {
                    let b = hostile_packet(rng, chans);
                    ex(&format!("raw {} {}", to, hex(&b)));
                }
                3 => {
                    // mutated copy of something the peer really sent
                    let from = if to_server { "c0" } else { "s100" };
                    let n = *net.emitted.get(from).unwrap_or(&0);
                    if n > 0 {
                        let k = rng.below(n as u64);
                        let m = match rng.below(3) {
                            0 => format!("flip:{}", rng.below(200)),
                            1 => format!("trunc:{}", rng.below(40)),
                            _ => format!("xor:{}:{}", rng.below(16), rng.range(1, 255)),
                        };
                        ex(&format!("dlvm {} {} {} {}", to, from, k, m));
                    }
                }
                _ => {
                    // cross-delivery: a packet of the healthy pair (or of the same side) fed to the victim
                    let from = rng.pick(&["c1", "s101", "c0", "s100"]);
                    let n = *net.emitted.get(from).unwrap_or(&0);
                    if n > 0 {
                        ex(&format!("dlv {} {} {}", to, from, rng.below(n as u64)));
                    }
                }
            }
            let st = ex(&format!("stat {}", to));
            if st.starts_with("disconnected") {
                // post-mortem probe: a disconnected endpoint yields nothing and emits nothing
                let chans = if to_server { &c_ids } else { &s_ids };
                for ch in chans.iter() {
                    ex(&format!("recv {} {}", to, ch));
                }
                ex(&format!("flush {}", to));
                ex(&format!("stat {}", to));
            }
            if rng.chance(1, 3) {
                ex(&format!("dump {}", to));
            }
        }
        for h in 0..2u64 {
            for c in cc.iter() {
                drain(ex, &format!("s{}", 100 + h), c.id, 4);
            }
            for c in sc.iter() {
                drain(ex, &format!("c{}", h), c.id, 4);
            }
        }
    }
    // everything keeps working afterwards: a perfect network for the bystander pair, long enough for its whole backlog
    let need = 2 * by_bytes / budget + 6;
    let hdt = sc.iter().chain(cc.iter()).map(|c| c.resend_us).max().unwrap_or(0) + 1000;
    if need <= 60 {
        let mut t = ticks + 10;
        net.deliver_due(rng, ex, t, false);
        for _ in 0..need {
            t += 1;
            ex(&format!("upd c1 {}", hdt));
            ex(&format!("upd srv {}", hdt));
            net.flush(rng, ex, "c1", "s101", t, 0, 0, 0);
            net.flush(rng, ex, "s101", "c1", t, 0, 0, 0);
            net.deliver_due(rng, ex, t, false);
            for c in cc.iter() {
                drain(ex, "s101", c.id, 10_000);
            }
            for c in sc.iter() {
                drain(ex, "c1", c.id, 10_000);
            }
        }
    }
    for who in ["c0", "s100", "c1", "s101"] {
        ex(&format!("dump {}", who));
        ex(&format!("stat {}", who));
    }
    if need <= 60 {
        ex("note healed");
    }
    ex("ids");
    for c in sc.iter() {
        ex(&format!("avail s100 {}", c.id));
        ex(&format!("avail s101 {}", c.id));
    }
}


// ---------------------------------------------------------------------------------------------
// E2 multi: several honest clients with independent fault schedules, broadcasts, one hostile
// ---------------------------------------------------------------------------------------------
fn script_multi(rng: &mut Rng, tier: Tier, ex: &mut dyn FnMut(&str) -> String) {
    let mut sc = default_chans();
    let mut cc = default_chans();
    // a quarter of the cases: small reliable send budgets at the server, so that a stalled client's channel fills up
    let tight = rng.chance(1, 4);
    if tight {
        let m = rng.pick(&[3000usize, 6000, 10_000]);
        for c in sc.iter_mut() {
            if c.kind != "U" {
                c.max_mem = m;
            }
        }
    }
    if rng.chance(1, 3) {
        // the two directions need not agree on what a channel id means: the client sends on ids whose kind
        // differs from the kind the server uses for the same id
        let rot = rng.range(1, 2) as usize;
        let kinds: Vec<(&'static str, u64)> = cc.iter().map(|c| (c.kind, c.resend_us)).collect();
        for (i, c) in cc.iter_mut().enumerate() {
            let (k, r) = kinds[(i + rot) % 3];
            c.kind = k;
            c.resend_us = r;
        }
    }
    let budget = rng.pick(&[60_000u64, 12_000]);
    ex(&cfg_line(budget, &sc, &cc));
    let n = rng.range(2, 5);
    for h in 0..n {
        ex(&format!("cli {}", h));
        ex(&format!("add {}", 100 + h));
        ex(&format!("setc {}", h));
    }
    let ticks = if tier == Tier::Quick { rng.range(3, 10) } else { rng.range(5, 25) };
    let mut net = Net::new();
    let mut faults: Vec<(u64, u64, u64)> = (0..n).map(|_| (rng.pick(&[0u64, 20, 50]), rng.pick(&[0u64, 20]), rng.pick(&[0u64, 30]))).collect();
    if tight {
        // one client's link is down for the whole faulty phase: nothing it sends or is sent arrives until the heal
        let stalled = rng.below(n) as usize;
        faults[stalled] = (100, 0, 0);
    }
    let victim = if rng.chance(1, 2) { Some(rng.below(n)) } else { None };
    let mut sent_bytes = 0u64;
    // half of the cases: one client's session ends mid-run (server-side disconnect, removal by the transport, or the
    // client's own disconnect); sometimes a newcomer joins right after. Everybody else must not notice.
    let leave_at = if rng.chance(1, 2) { Some(rng.below(ticks)) } else { None };
    let mut n = n;
    let mut ctr = 0u32;
    for tick in 0..ticks {
        if leave_at == Some(tick) {
            let d = rng.below(n);
            ex(&format!("stat s{}", 100 + d));
            ex(&format!("stat c{}", d));
            match rng.below(3) {
                0 => ex(&format!("sdisc {}", 100 + d)),
                1 => ex(&format!("rem {}", 100 + d)),
                _ => ex(&format!("disc {}", d)),
            };
            if rng.chance(1, 2) {
                ex(&format!("cli {}", n));
                ex(&format!("add {}", 100 + n));
                ex(&format!("setc {}", n));
                faults.push((rng.pick(&[0u64, 20]), 0, rng.pick(&[0u64, 30])));
                n += 1;
            }
        }
        for h in 0..n {
            if rng.chance(1, 2) {
                let len = gen_size(rng).min(3000);
                let m = stamped(rng, len, &mut ctr);
                sent_bytes += m.len() as u64;
                ex(&format!("send c{} {} {}", h, rng.pick(&[0, 1, 2]), hex(&m)));
            }
            if rng.chance(1, 3) {
                let len = gen_size(rng).min(3000);
                let m = stamped(rng, len, &mut ctr);
                sent_bytes += m.len() as u64;
                ex(&format!("send s{} {} {}", 100 + h, rng.pick(&[0, 1, 2]), hex(&m)));
            }
        }
        if rng.chance(1, 2) {
            ex("ids");
            let m = rand_small(rng, 2000);
            sent_bytes += m.len() as u64 * n;
            if rng.chance(1, 2) {
                ex(&format!("bcast {} {}", rng.pick(&[1, 2]), hex(&m)));
            } else {
                let ex_id = if rng.chance(1, 3) { rng.pick(&[99u64, 999, 100 + n]) } else { 100 + rng.below(n) };
                ex(&format!("bcastx {} {} {}", ex_id, rng.pick(&[1, 2]), hex(&m)));
            }
        }
        let dt = rng.pick(&[50_000u64, 300_000, 301_000]);
        ex(&format!("upd srv {}", dt));
        for h in 0..n {
            ex(&format!("upd c{} {}", h, dt));
            let (c, s) = (format!("c{}", h), format!("s{}", 100 + h));
            let f = faults[h as usize];
            net.flush(rng, ex, &c, &s, tick, f.0, f.1, f.2);
            net.flush(rng, ex, &s, &c, tick, f.0, f.1, f.2);
        }
        net.deliver_due(rng, ex, tick, true);
        if let Some(v) = victim {
            if rng.chance(1, 3) {
                // hostile input against ONE pair, either end: made-up packets or damaged copies of genuine ones
                let (sv, cv) = (format!("s{}", 100 + v), format!("c{}", v));
                match rng.below(4) {
                    0 | 1 => {
                        let b = hostile_packet(rng, &[0, 1, 2]);
                        ex(&format!("raw {} {}", sv, hex(&b)));
                    }
                    2 => {
                        let b = hostile_packet(rng, &[0, 1, 2]);
                        ex(&format!("raw {} {}", cv, hex(&b)));
                    }
                    _ => {
                        let (to, from) = if rng.chance(1, 2) { (&sv, &cv) } else { (&cv, &sv) };
                        let k = *net.emitted.get(from.as_str()).unwrap_or(&0);
                        if k > 0 {
                            let m = match rng.below(3) {
                                0 => format!("flip:{}", rng.below(200)),
                                1 => format!("trunc:{}", rng.below(40)),
                                _ => format!("xor:{}:{}", rng.below(16), rng.range(1, 255)),
                            };
                            ex(&format!("dlvm {} {} {} {}", to, from, rng.below(k as u64), m));
                        }
                    }
                }
            }
        }
        for h in 0..n {
            for ch in 0..3u8 {
                if rng.chance(1, 2) {
                    drain(ex, &format!("s{}", 100 + h), ch, 3);
                    drain(ex, &format!("c{}", h), ch, 3);
                }
            }
        }
    }
    let mut t = ticks + 10;
    net.deliver_due(rng, ex, t, false);
    let need = (2 * sent_bytes / budget + 6).min(150);
    for _ in 0..need {
        t += 1;
        ex("upd srv 301000");
        for h in 0..n {
            ex(&format!("upd c{} 301000", h));
            let (c, s) = (format!("c{}", h), format!("s{}", 100 + h));
            net.flush(rng, ex, &c, &s, t, 0, 0, 0);
            net.flush(rng, ex, &s, &c, t, 0, 0, 0);
        }
        net.deliver_due(rng, ex, t, false);
        for h in 0..n {
            for ch in 0..3u8 {
                drain(ex, &format!("s{}", 100 + h), ch, 10_000);
                drain(ex, &format!("c{}", h), ch, 10_000);
            }
        }
    }
    for h in 0..n {
        ex(&format!("stat c{}", h));
        ex(&format!("stat s{}", 100 + h));
    }
    ex("note healed");
}

// ---------------------------------------------------------------------------------------------
// E3: arbitrary public API call sequences on RenetServer / RenetClient
// ---------------------------------------------------------------------------------------------
fn script_api(rng: &mut Rng, tier: Tier, ex: &mut dyn FnMut(&str) -> String) {
    let mut sc = default_chans();
    let mut cc = default_chans();
    if rng.chance(1, 3) {
        // small channel memory: connections also end by themselves, with a Send/ReceiveChannelError as their FIRST reason
        // (which a later sdisc / rem / event must keep)
        for c in sc.iter_mut().chain(cc.iter_mut()) {
            c.max_mem = rng.pick(&[1200usize, 2400, 3600, 5000, 12_000]);
        }
    }
    ex(&cfg_line(60_000, &sc, &cc));
    let n = if tier == Tier::Quick { rng.range(10, 50) } else { rng.range(20, 150) };
    let mut handles: Vec<u64> = vec![];
    let mut emitted: HashMap<String, usize> = HashMap::new();
    for _ in 0..n {
        let id = 100 + rng.below(3);
        let h = id - 100;
        match rng.below(22) {
            0 | 1 => {
                ex(&format!("add {}", id));
            }
            2 => {
                ex(&format!("stat s{}", id));
                ex(&format!("rem {}", id));
            }
            3 => {
                ex(&format!("sdisc {}", id));
                if rng.chance(1, 2) {
                    // post-mortem probe without a `stat` in between: nothing buffered comes out, nothing is emitted
                    for ch in 0..3u8 {
                        ex(&format!("recv s{} {}", id, ch));
                    }
                    ex(&format!("flush s{}", id));
                }
                if rng.chance(1, 3) {
                    // the disconnected connection lingers for a long time before the transport removes it: it keeps its
                    // first reason and its removal is still reported (seeded C12u: a silent reaper in `update`)
                    ex(&format!("upd srv {}", rng.pick(&[31_000_000u64, 120_000_000, 3_600_000_000])));
                    ex(&format!("stat s{}", id));
                    ex(&format!("rem {}", id));
                    ex("ev");
                    ex("ev");
                }
            }
            4 => {
                if rng.chance(1, 3) {
                    ex("sdiscall");
                }
            }
            5 | 6 => {
                ex(&format!("lnew {} {}", id, h));
                if !handles.contains(&h) {
                    handles.push(h);
                }
            }
            7 => {
                if handles.contains(&h) {
                    ex(&format!("stat s{}", id));
                    ex(&format!("stat c{}", h));
                    ex(&format!("ldisc {} {}", id, h));
                }
            }
            8 | 9 => {
                if handles.contains(&h) {
                    ex(&format!("lproc {} {}", id, h));
                }
            }
            10 => {
                if !handles.contains(&h) {
                    ex(&format!("cli {}", h));
                    handles.push(h);
                }
            }
            11 => {
                let m = rand_msg(rng, 3000);
                ex(&format!("send s{} {} {}", id, rng.pick(&[0, 1, 2]), hex(&m)));
            }
            12 => {
                if handles.contains(&h) {
                    let m = rand_msg(rng, 3000);
                    ex(&format!("send c{} {} {}", h, rng.pick(&[0, 1, 2]), hex(&m)));
                }
            }
            13 => {
                ex("ids");
                let m = rand_small(rng, 40);
                if rng.chance(1, 2) {
                    ex(&format!("bcast {} {}", rng.pick(&[0, 1, 2]), hex(&m)));
                } else {
                    ex(&format!("bcastx {} {} {}", id, rng.pick(&[0, 1, 2]), hex(&m)));
                }
            }
            14 => {
                ex(&format!("recv s{} {}", id, rng.pick(&[0, 1, 2])));
                if handles.contains(&h) {
                    ex(&format!("recv c{} {}", h, rng.pick(&[0, 1, 2])));
                }
            }
            15 => {
                ex(&format!("upd srv {}", rng.pick(&[16_000u64, 400_000, 3_100_000, 3_100_000, 45_000_000])));
                if handles.contains(&h) {
                    ex(&format!("upd c{} {}", h, rng.pick(&[16_000u64, 400_000])));
                }
            }
            16 => {
                let who = format!("s{}", id);
                let out = ex(&format!("flush {}", who));
                *emitted.entry(who).or_insert(0) += pkts_count(&out);
                if handles.contains(&h) {
                    let who = format!("c{}", h);
                    let out = ex(&format!("flush {}", who));
                    *emitted.entry(who).or_insert(0) += pkts_count(&out);
                }
            }
            17 => {
                // deliver something previously emitted (possibly to a re-created connection)
                let (to, from) = if rng.chance(1, 2) { (format!("s{}", id), format!("c{}", h)) } else { (format!("c{}", h), format!("s{}", id)) };
                let k = *emitted.get(&from).unwrap_or(&0);
                if k > 0 && (to.starts_with('s') || handles.contains(&h)) {
                    ex(&format!("dlv {} {} {}", to, from, rng.below(k as u64)));
                }
            }
            18 => {
                if handles.contains(&h) {
                    let call = rng.pick(&["setc", "setg", "disc", "disct"]);
                    ex(&format!("{} {}", call, h));
                    if call.starts_with("disc") && rng.chance(1, 2) {
                        for ch in 0..3u8 {
                            ex(&format!("recv c{} {}", h, ch));
                        }
                        ex(&format!("flush c{}", h));
                    }
                }
            }
            19 => {
                ex(&format!("raw s{} {}", id, hex(&rand_bytes(rng, 12))));
            }
            _ => {
                ex("ev");
            }
        }
        if rng.chance(1, 3) {
            ex(&format!("stat s{}", id));
            if handles.contains(&h) {
                ex(&format!("stat c{}", h));
            }
        }
        if rng.chance(1, 4) {
            // the server's query API, for a known and for an unknown id (judged against `ids` / `stat`)
            let q = if rng.chance(1, 4) { rng.pick(&[99u64, 103, 1 << 40]) } else { id };
            ex("ids");
            ex(&format!("stat s{}", q));
            ex(&format!("sq {}", q));
            if rng.chance(1, 2) {
                ex(&format!("avail s{} {}", q, rng.pick(&[0, 1, 2])));
                ex(&format!("cansend s{} {} {}", q, rng.pick(&[0, 1, 2]), rng.pick(&[0u64, 1, 1200, 5_000_000, 6_000_000])));
            }
        }
    }
    for _ in 0..40 {
        if ex("ev") == "none" {
            break;
        }
    }
    ex("ids");
}

/// C11 / C12 / C20 (what the message layer reports): `has_connections`, `connected_clients`, `is_connected(id)` and
/// `disconnect_reason(id)` agree with `clients_id` / `disconnections_id` and with the connection's own status
/// (ops `ids`, `stat s<id>`, `sq <id>` issued back to back).
fn oracle_server_queries(ops: &[String], outs: &[String]) -> Option<OracleFail> {
    for i in 2..ops.len() {
        let t: Vec<&str> = ops[i].split(' ').collect();
        if t.len() != 2 || t[0] != "sq" || ops[i - 2] != "ids" || ops[i - 1] != format!("stat s{}", t[1]) {
            continue;
        }
        let ids_out = &outs[i - 2];
        let lists: Vec<Vec<&str>> = ids_out.split('[').skip(1).map(|p| p.split(']').next().unwrap_or("").split(',').filter(|x| !x.is_empty()).collect()).collect();
        if lists.len() != 2 {
            continue;
        }
        let (conn, disc) = (&lists[0], &lists[1]);
        let stat = &outs[i - 1];
        let mut f: HashMap<&str, &str> = HashMap::new();
        for kv in outs[i].split(' ') {
            if let Some((k, v)) = kv.split_once('=') {
                f.insert(k, v);
            }
        }
        if f.len() != 4 {
            continue; // bad-op / dead: judged elsewhere
        }
        let want_has = !(conn.is_empty() && disc.is_empty());
        let want_n = conn.len().to_string();
        let want_is = conn.contains(&t[1]);
        let want_reason = stat.strip_prefix("disconnected:").unwrap_or("none");
        if f["has"] != want_has.to_string() {
            return fail(i, "has-connections-wrong", format!("has_connections() = {} but clients_id = {:?}, disconnections_id = {:?}", f["has"], conn, disc));
        }
        if f["n"] != want_n {
            return fail(i, "connected-clients-wrong", format!("connected_clients() = {} but clients_id has {} entries", f["n"], want_n));
        }
        if f["is"] != want_is.to_string() {
            return fail(i, "is-connected-wrong", format!("is_connected({}) = {} but clients_id = {:?}", t[1], f["is"], conn));
        }
        if stat != "notfound" && f["reason"] != want_reason {
            return fail(i, "disconnect-reason-wrong", format!("disconnect_reason({}) = {} but the connection's status is `{}`", t[1], f["reason"], stat));
        }
        if stat == "notfound" && (f["reason"] != "none" || f["is"] != "false") {
            return fail(i, "unknown-client-reported", format!("unknown client {}: {}", t[1], outs[i]));
        }
        // unknown client: no memory, nothing can be sent
        if stat == "notfound" {
            for j in i + 1..(i + 3).min(ops.len()) {
                if ops[j].starts_with(&format!("avail s{} ", t[1])) && outs[j] != "0" {
                    return fail(j, "unknown-client-memory", format!("channel_available_memory for unknown client {} = {}", t[1], outs[j]));
                }
                if ops[j].starts_with(&format!("cansend s{} ", t[1])) && outs[j] != "false" {
                    return fail(j, "unknown-client-can-send", format!("can_send_message for unknown client {} = {}", t[1], outs[j]));
                }
            }
        }
    }
    None
}

// ---------------------------------------------------------------------------------------------
// regression scenarios of the repaired defects (run first; each is a fixed op list)
// ---------------------------------------------------------------------------------------------
fn slice_pkt(ty: u8, seq: u64, ch: u8, id: u64, idx: u64, n: u64, payload: &[u8]) -> String {
    let mut b = vec![ty];
    b.extend(varint(seq));
    b.push(ch);
    b.extend(varint(id));
    b.extend(varint(idx));
    b.extend(varint(n));
    b.extend(varint(payload.len() as u64));
    b.extend(payload);
    hex(&b)
}

const REGRESS_N: usize = 8;

fn script_none(_rng: &mut Rng, _tier: Tier, _ex: &mut dyn FnMut(&str) -> String) {}

fn regress_ops(case: usize) -> Vec<String> {
    let d = cfg_line(60_000, &default_chans(), &default_chans());
    let start = vec![d.clone(), "cli 0".to_string(), "add 100".to_string(), "setc 0".to_string()];
    let full = vec![7u8; 1200];
    let mut ops = start.clone();
    match case {
        // D3: slice_index >= num_slices with a full payload (both channel kinds)
        0 => {
            ops.push(format!("raw s100 {}", slice_pkt(2, 0, 2, 0, 5, 1, &full)));
            ops.push("stat s100".into());
            ops.push(format!("raw c0 {}", slice_pkt(3, 0, 0, 0, 5, 1, &full)));
            ops.push("stat c0".into());
        }
        // D2: later slice announcing a larger count (reliable and unreliable)
        1 => {
            ops.push(format!("raw s100 {}", slice_pkt(2, 0, 2, 0, 0, 2, &full)));
            ops.push(format!("raw s100 {}", slice_pkt(2, 1, 2, 0, 1, 1000, &[1u8; 10])));
            ops.push("stat s100".into());
            ops.push("dump s100".into());
            ops.push(format!("raw c0 {}", slice_pkt(3, 0, 0, 0, 0, 2, &full)));
            ops.push(format!("raw c0 {}", slice_pkt(3, 1, 0, 0, 1, 1000, &[1u8; 10])));
            ops.push("stat c0".into());
            ops.push("recv c0 0".into());
            ops.push("dump c0".into());
        }
        // D1: unordered channel, duplicate slice of a message already consumed while an older one is missing
        2 => {
            let m0 = vec![1u8; 5];
            let m1: Vec<u8> = (0..2500).map(|i| (i % 251) as u8).collect();
            ops.push(format!("send c0 1 {}", hex(&m0)));
            ops.push(format!("send c0 1 {}", hex(&m1)));
            ops.push("upd c0 1000".into());
            ops.push("flush c0".into()); // packets: slices of id1 (seq 0,1,2) then small id0 (seq 3)
            ops.push("dlv s100 c0 0".into());
            ops.push("dlv s100 c0 1".into());
            ops.push("dlv s100 c0 2".into());
            ops.push("recv s100 1".into()); // consumes id 1 while id 0 is missing
            ops.push("dlv s100 c0 0".into()); // duplicate slice of the consumed message
            ops.push("dump s100".into());
            ops.push("dlv s100 c0 3".into());
            ops.push("recv s100 1".into());
            ops.push("upd srv 1000".into());
            ops.push("flush s100".into());
            ops.push("dlv c0 s100 0".into());
            ops.push("stat c0".into());
            ops.push("stat s100".into());
            ops.push("note healed".into());
            ops.push("upd c0 3100000".into());
            ops.push("upd srv 3100000".into());
            ops.push("avail c0 1".into());
            ops.push("dump c0".into());
            ops.push("dump s100".into());
            ops.push("note quiescent".into());
        }
        // D15: a lower unreliable fragment id refreshed by duplicates shields a stale higher one
        3 => {
            ops.push(format!("raw c0 {}", slice_pkt(3, 0, 0, 0, 0, 2, &full)));
            ops.push(format!("raw c0 {}", slice_pkt(3, 1, 0, 1, 0, 2, &full)));
            ops.push("upd c0 2000000".into());
            ops.push(format!("raw c0 {}", slice_pkt(3, 2, 0, 0, 0, 2, &full))); // refresh id 0 only
            ops.push("upd c0 1500000".into()); // id 1 idle for 3.5 s, id 0 for 1.5 s
            ops.push("dump c0".into());
            ops.push("note stale-check".into());
        }
        // D16: descending every-other sequences insert ranges in front without bound
        4 => {
            let mut seqs: Vec<u64> = (0..800).map(|i| 2 * i).collect();
            seqs.reverse();
            for s in seqs {
                let mut b = vec![1u8];
                b.extend(varint(s));
                b.push(0);
                b.extend(0u16.to_be_bytes());
                ops.push(format!("raw c0 {}", hex(&b)));
            }
            ops.push("flush c0".into());
            ops.push("stat c0".into());
            ops.push("dump c0".into());
        }
        // D13: disconnect_local_client after the server disconnected the connection first
        5 => {
            ops = vec![d.clone()];
            ops.push("lnew 100 0".into());
            ops.push("ev".into());
            ops.push("sdisc 100".into());
            ops.push("stat s100".into());
            ops.push("stat c0".into());
            ops.push("ldisc 100 0".into());
            ops.push("ev".into());
            ops.push("ev".into());
        }
        // honest-only variant of D16: burst delivered in reverse with every other packet lost
        6 => {
            for i in 0..700 {
                ops.push(format!("send c0 0 {:02x}", i % 256));
                ops.push("flush c0".into());
            }
            for i in (0..700).rev().step_by(2) {
                ops.push(format!("dlv s100 c0 {}", i));
            }
            ops.push("flush s100".into());
            ops.push("stat s100".into());
        }
        // packing threshold: first message whose serialised size exceeds SLICE_SIZE
        _ => {
            ops.push(format!("send c0 2 {}", hex(&vec![3u8; 1200])));
            ops.push(format!("send c0 2 {}", hex(&vec![4u8; 1200])));
            ops.push(format!("send c0 0 {}", hex(&vec![5u8; 1199])));
            ops.push(format!("send c0 0 {}", hex(&vec![6u8; 1])));
            ops.push("flush c0".into());
            ops.push("stat c0".into());
        }
    }
    ops
}


// ---------------------------------------------------------------------------------------------
// bounded exhaustive sweep: every arrival order of every subset of sequence numbers 0..=6
// (13 700 cases; model validation + "acks = exactly the received set" on the implementation)
// ---------------------------------------------------------------------------------------------
fn sweep_arrangement(mut idx: usize) -> Vec<u64> {
    // enumerate (subset size k, k-permutation of 7 items) in a fixed order
    for k in 0..=7usize {
        let count: usize = (0..k).map(|i| 7 - i).product();
        if idx < count {
            let mut items: Vec<u64> = (0..7).collect();
            let mut out = vec![];
            let mut rem = idx;
            for i in 0..k {
                let radix = 7 - i;
                let d = rem % radix;
                rem /= radix;
                out.push(items.remove(d));
            }
            return out;
        }
        idx -= count;
    }
    vec![]
}

/// local clients (`new_local_client` / `process_local_client` / `disconnect_local_client`) that leave and come back
/// under the same id, with broadcasts, broadcast_except and directed messages on every channel kind in every round
const LOCAL_REJOIN_N: usize = 8;

fn local_rejoin_ops(case: usize) -> Vec<String> {
    let mut ops = vec![cfg_line(60_000, &default_chans(), &default_chans())];
    let ids = [11u64, 12, 13];
    for (h, id) in ids.iter().enumerate() {
        ops.push(format!("lnew {} {}", id, h));
    }
    let mut tag = 0u8;
    let mut round = |ops: &mut Vec<String>, present: &[usize]| {
        ops.push("ids".into());
        for ch in 0..3u8 {
            tag += 1;
            ops.push(format!("bcast {} {}", ch, hex(&[0xB0, tag, ch])));
        }
        tag += 1;
        ops.push(format!("bcastx {} 2 {}", ids[0], hex(&[0xE0, tag])));
        tag += 1;
        ops.push(format!("send s{} 1 {}", ids[2], hex(&[0xD0, tag])));
        ops.push("upd srv 16000".into());
        for h in present {
            ops.push(format!("upd c{} 16000", h));
            ops.push(format!("lproc {} {}", ids[*h], h));
            for ch in 0..3u8 {
                for _ in 0..6 {
                    ops.push(format!("recv c{} {}", h, ch));
                }
            }
        }
    };
    round(&mut ops, &[0, 1, 2]);
    let who = case % 3; // the client that flaps
    let times = 1 + (case / 3) % 2; // once or twice
    for _ in 0..times {
        ops.push(format!("stat s{}", ids[who]));
        ops.push(format!("stat c{}", who));
        ops.push(format!("ldisc {} {}", ids[who], who));
        let rest: Vec<usize> = (0..3).filter(|h| *h != who).collect();
        round(&mut ops, &rest);
        ops.push(format!("lnew {} {}", ids[who], who));
        round(&mut ops, &[0, 1, 2]);
    }
    if case >= 6 {
        // the same through add/remove of a plain connection next to the local ones
        ops.push("add 20".into());
        ops.push("rem 20".into());
        ops.push("add 20".into());
        round(&mut ops, &[0, 1, 2]);
    }
    for _ in 0..12 {
        ops.push("ev".into());
    }
    ops.push("note local-rejoin".into());
    ops
}

/// C11: every broadcast is obtained exactly once by every local client that was connected when it was issued
/// (lossless in-process exchange), `broadcast_except` skips exactly the named id, a directed message reaches only its
/// target.
fn oracle_local_exact(ops: &[String], outs: &[String]) -> Option<OracleFail> {
    if !ops.iter().any(|o| o == "note local-rejoin") {
        return None;
    }
    let mut connected: Vec<String> = vec![];
    let mut expect: HashMap<(String, String), i64> = HashMap::new(); // (client handle, message) -> copies still expected
    let mut handle_of: HashMap<String, String> = HashMap::new(); // id -> handle
    let mut id_of: HashMap<String, String> = HashMap::new();
    for (i, (op, out)) in ops.iter().zip(outs.iter()).enumerate() {
        let t: Vec<&str> = op.split(' ').collect();
        match t[0] {
            "lnew" if t.len() == 3 => {
                handle_of.insert(t[1].to_string(), t[2].to_string());
                id_of.insert(t[2].to_string(), t[1].to_string());
                // a new session starts with nothing owed
                expect.retain(|k, _| k.0 != t[2]);
            }
            "ldisc" if t.len() == 3 => {
                expect.retain(|k, _| k.0 != t[2]);
            }
            "ids" => {
                if let Some(l) = out.strip_prefix("ids [").and_then(|r| r.split(']').next()) {
                    connected = l.split(',').filter(|x| !x.is_empty()).map(|x| x.to_string()).collect();
                }
            }
            "bcast" | "bcastx" => {
                let (ex_id, m) = if t[0] == "bcast" && t.len() == 3 { ("", t[2]) } else if t.len() == 4 { (t[1], t[3]) } else { continue };
                for id in connected.iter() {
                    if id == ex_id {
                        continue;
                    }
                    if let Some(h) = handle_of.get(id) {
                        *expect.entry((h.clone(), m.to_string())).or_insert(0) += 1;
                    }
                }
            }
            "send" if t.len() == 4 && t[1].starts_with('s') => {
                if let Some(h) = handle_of.get(&t[1][1..]) {
                    if connected.iter().any(|c| c == &t[1][1..]) {
                        *expect.entry((h.clone(), t[3].to_string())).or_insert(0) += 1;
                    }
                }
            }
            "recv" if t.len() == 3 && t[1].starts_with('c') && out.starts_with("msg ") => {
                let h = t[1][1..].to_string();
                let m = out[4..].to_string();
                let e = expect.entry((h.clone(), m.clone())).or_insert(0);
                *e -= 1;
                if *e < 0 {
                    return fail(i, "broadcast-obtained-too-often", format!("local client {} (id {}) obtained message {} more often than it was sent to it", h, id_of.get(&h).cloned().unwrap_or_default(), m));
                }
            }
            "note" if t.len() == 2 && t[1] == "local-rejoin" => {
                for ((h, m), n) in expect.iter() {
                    if *n > 0 {
                        return fail(i, "broadcast-not-obtained", format!("local client {} never obtained message {} ({} copies owed)", h, m, n));
                    }
                }
            }
            _ => {}
        }
    }
    None
}

/// many connect / disconnect reports between two polls of `get_event` (an application that polls once per frame
/// while clients flap): every report must still come out, once, in order
fn events_burst_ops(case: usize) -> Vec<String> {
    let mut ops = vec![cfg_line(60_000, &default_chans(), &default_chans())];
    match case {
        0 => {
            // 1100 connects before the first poll, then everything is removed with a poll after each removal
            for id in 0..1100u64 {
                ops.push(format!("add {}", 1000 + id));
            }
            for _ in 0..1100 {
                ops.push("ev".into());
            }
            for id in 0..1100u64 {
                ops.push(format!("rem {}", 1000 + id));
                ops.push("ev".into());
            }
        }
        1 => {
            // three ids flapping 200 times (1200 reports) between two polls
            for _ in 0..200 {
                for id in [7u64, 8, 9] {
                    ops.push(format!("add {}", id));
                }
                for id in [7u64, 8, 9] {
                    ops.push(format!("rem {}", id));
                }
            }
            for _ in 0..1201 {
                ops.push("ev".into());
            }
        }
        _ => {
            // control: exactly 1024 reports queued
            for id in 0..512u64 {
                ops.push(format!("add {}", 1000 + id));
                ops.push(format!("rem {}", 1000 + id));
            }
            for _ in 0..1025 {
                ops.push("ev".into());
            }
        }
    }
    ops.push("ev".into());
    ops.push("ids".into());
    ops
}

/// volume scenarios: many packets in flight before an ack is processed; packet sequence numbers crossing a varint
/// width inside one flush; a tick whose unreliable traffic needs several packets next to reliable traffic, with the
/// reliable packet lost

fn pat(len: usize, seed: u8) -> Vec<u8> {
    (0..len).map(|i| seed.wrapping_add((i % 251) as u8)).collect()
}

fn volume_ops(case: usize) -> Vec<String> {
    let mut ops: Vec<String> = vec![];
    let chans = |resend: u64| -> Vec<Chan> {
        vec![
            Chan { id: 0, kind: "U", max_mem: 5 * 1024 * 1024, resend_us: 0 },
            Chan { id: 1, kind: "RU", max_mem: 5 * 1024 * 1024, resend_us: resend },
            Chan { id: 2, kind: "RO", max_mem: 5 * 1024 * 1024, resend_us: resend },
        ]
    };
    match case {
        0 | 1 => {
            // > 1024 packets sent between a reliable packet and the processing of its acknowledgement, all within 3 s
            let c = chans(500_000);
            ops.push(cfg_line(60_000, &c, &c));
            ops.extend(["cli 0", "add 100", "setc 0"].iter().map(|x| x.to_string()));
            let ch = if case == 0 { 2 } else { 1 };
            ops.push(format!("send c0 {} {}", ch, hex(&pat(40, 1))));
            ops.push(format!("send c0 {} {}", ch, hex(&pat(3000, 2))));
            ops.push("upd c0 1000".into());
            ops.push("upd srv 1000".into());
            ops.push("flush c0".into()); // packets 0..3
            for k in 0..4 {
                ops.push(format!("dlv s100 c0 {}", k));
            }
            ops.push(format!("recv s100 {}", ch));
            ops.push(format!("recv s100 {}", ch));
            ops.push("flush s100".into()); // the ack packet, held back
            let big = hex(&pat(60_000, 7));
            for _ in 0..27 {
                ops.push(format!("send c0 0 {}", big)); // 50 slice packets per tick
                ops.push("upd c0 10000".into());
                ops.push("flush c0".into());
            }
            ops.push("dump c0".into());
            ops.push("dlv c0 s100 0".into()); // 271 ms after the packets were sent
            ops.push("dump c0".into());
            ops.push("upd c0 600000".into());
            ops.push("flush c0".into());
            ops.push("upd c0 600000".into());
            ops.push("flush c0".into());
            ops.push("stat c0".into());
            ops.push("stat s100".into());
        }
        2 | 3 => {
            // the packet sequence crosses 16383 -> 16384 (2 -> 4 varint bytes) inside one flush of many small messages
            let c = chans(300_000);
            ops.push(cfg_line(200_000, &c, &c));
            ops.extend(["cli 0", "add 100", "setc 0"].iter().map(|x| x.to_string()));
            for _ in 0..16_383 {
                ops.push("send c0 0 aa".into());
                ops.push("flush c0".into());
            }
            if case == 2 {
                for k in 0..9 {
                    ops.push(format!("send c0 0 {}", hex(&pat(429, k as u8))));
                }
            } else {
                for k in 0..1500u32 {
                    ops.push(format!("send c0 0 {}", hex(&[(k % 256) as u8, (k / 256) as u8])));
                }
            }
            ops.push(format!("send c0 1 {}", hex(&pat(700, 9))));
            ops.push("upd c0 1000".into());
            ops.push("flush c0".into());
            ops.push("stat c0".into());
            ops.push("dump c0".into());
            // with 4-byte sequence numbers: messages of more than 64 slices whose last slice is as large as / a little
            // smaller than a full one, and whose length is a few bytes past a slice boundary
            for (k, len) in [70 * 1200 + 88usize, 70 * 1200, 70 * 1200 + 1199, 65 * 1200 + 1].iter().enumerate() {
                ops.push(format!("send c0 {} {}", if case == 2 { 0 } else { 2 }, hex(&pat(*len, 20 + k as u8))));
                ops.push("upd c0 1000".into());
                ops.push("flush c0".into());
            }
            ops.push("stat c0".into());
        }
        8 | 9 => {
            // message id AND packet sequence both need 4-byte varints (>= 16384), then reliable messages just below the
            // slicing threshold: the largest single-message packets the reliable channel can build (seeded C13t)
            let c = chans(300_000);
            ops.push(cfg_line(200_000, &c, &c));
            ops.extend(["cli 0", "add 100", "setc 0"].iter().map(|x| x.to_string()));
            let rel = if case == 8 { 1 } else { 2 };
            for _ in 0..16_384 {
                ops.push(format!("send c0 {} bb", rel));
            }
            ops.push("upd c0 1000".into());
            ops.push("upd srv 1000".into());
            ops.push("flush c0".into());
            for k in 0..150 {
                ops.push(format!("dlv s100 c0 {}", k)); // beyond the flush: nohist on both sides alike
            }
            ops.push("flush s100".into());
            ops.push("dlv c0 s100 0".into()); // everything acknowledged: nothing is left to retransmit
            ops.push("dump c0".into());
            for k in 0..16_384 {
                ops.push("send c0 0 aa".into());
                ops.push("flush c0".into());
                if k % 256 == 255 {
                    ops.push("upd c0 3100000".into()); // the records of sent packets older than 3 s are dropped: keeps the run cheap
                }
            }
            for (k, len) in (1188usize..=1201).enumerate() {
                ops.push(format!("send c0 {} {}", rel, hex(&pat(len, 60 + k as u8))));
                ops.push("upd c0 1000".into());
                ops.push("flush c0".into());
                ops.push("stat c0".into());
            }
            // the same sizes packed together with a neighbour in one flush
            for (k, len) in [1199usize, 1200, 1195].iter().enumerate() {
                ops.push(format!("send c0 {} {}", rel, hex(&pat(3, 90 + k as u8))));
                ops.push(format!("send c0 {} {}", rel, hex(&pat(*len, 80 + k as u8))));
                ops.push(format!("send c0 {} {}", rel, hex(&pat(3, 95 + k as u8))));
                ops.push("upd c0 1000".into());
                ops.push("flush c0".into());
            }
            ops.push("stat c0".into());
            // one message that fills a packet of its own followed by a short tail, nothing else due in the call (every tick is
            // 0.5 ms, all of it well inside the 300 ms resend time): each packet still fits, whatever the sender does with the
            // tail (seeded C13x: a tail of <= 88 serialised bytes is appended to the previous packet, 1302 bytes with 4-byte
            // varints for sequence and message id)
            let mut k = 0u8;
            let mut tick = |ops: &mut Vec<String>, lens: &[usize]| {
                for len in lens {
                    k = k.wrapping_add(1);
                    ops.push(format!("send c0 {} {}", rel, hex(&pat(*len, k))));
                }
                ops.push("upd c0 500".into());
                ops.push("flush c0".into());
            };
            let tails: Vec<usize> = [1usize, 40, 70].iter().copied().chain(78..=90).chain([100, 120]).collect();
            for b in 1190usize..=1200 {
                for t in tails.iter() {
                    tick(&mut ops, &[b, *t]);
                }
                ops.push("stat c0".into());
            }
            // two-message tails of 80 … 90 serialised bytes (each message: payload + 1 length byte + 4 id bytes)
            for b in 1196usize..=1200 {
                for t2 in 40usize..=50 {
                    tick(&mut ops, &[b, 30, t2]);
                }
                ops.push("stat c0".into());
            }
            ops.push("stat c0".into());
            ops.push("dump c0".into());
        }
        10 => {
            // the ack packet is the recorded set also in a tick whose channels use the whole budget (seeded C16t): the
            // receiver holds three disjoint ranges {0},{2},{4}; its own reliable traffic takes exactly / nearly all of the
            // 60 000 bytes of the tick; dump + flush (oracle ack-is-the-recorded-set), then the peer acknowledges the ack
            let c = chans(300_000);
            ops.push(cfg_line(60_000, &c, &c));
            ops.extend(["cli 0", "add 100", "setc 0"].iter().map(|x| x.to_string()));
            for k in 0..5u8 {
                ops.push(format!("send s100 2 {}", hex(&pat(20, k))));
                ops.push("upd srv 1000".into());
                ops.push("flush s100".into());
            }
            for k in [0, 2, 4] {
                ops.push(format!("dlv c0 s100 {}", k));
            }
            let mut emitted = 0usize;
            for (round, len) in [60_000usize, 59_990, 58_801, 61_000].iter().enumerate() {
                ops.push(format!("send c0 2 {}", hex(&pat(*len, 30 + round as u8))));
                ops.push("upd c0 1000".into());
                ops.push("dump c0".into());
                ops.push("flush c0".into());
                // everything of this flush reaches the server (indices beyond it answer nohist on both sides alike)
                for k in emitted..emitted + 60 {
                    ops.push(format!("dlv s100 c0 {}", k));
                }
                emitted += if *len > 60_000 { 51 } else { 51 };
                ops.push("recv s100 2".into());
                ops.push("dump s100".into());
                ops.push("flush s100".into());
                ops.push("upd c0 301000".into());
                ops.push("upd srv 301000".into());
            }
            ops.push("dlv c0 s100 5".into()); // the server's first ack packet: acknowledges c0's ack packet too
            ops.push("dump c0".into());
            ops.push("flush c0".into());
            ops.push("stat c0".into());
            ops.push("stat s100".into());
        }
        _ => {
            // one tick: unreliable small messages that need two packets + reliable traffic; the reliable packet is lost,
            // everything else arrives and is acknowledged; then a perfect network
            let c = if case == 4 || case == 6 { chans(300_000) } else { vec![chans(300_000)[0].clone(), chans(300_000)[2].clone(), chans(300_000)[1].clone()] };
            ops.push(cfg_line(60_000, &c, &c));
            ops.extend(["cli 0", "add 100", "setc 0"].iter().map(|x| x.to_string()));
            let rel = if case == 4 || case == 6 { 2 } else { 1 };
            if case >= 6 {
                // one unreliable message that is too big to share a batch and too small to be sliced
                ops.push(format!("send c0 0 {}", hex(&pat(if case == 6 { 1199 } else { 1200 }, 10))));
            } else {
                for k in 0..3 {
                    ops.push(format!("send c0 0 {}", hex(&pat(500, 10 + k))));
                }
            }
            ops.push(format!("send c0 {} {}", rel, hex(&pat(100, 50))));
            ops.push(format!("send c0 {} {}", rel, hex(&pat(100, 51))));
            ops.push("upd c0 16000".into());
            ops.push("upd srv 16000".into());
            ops.push("flush c0".into()); // U, U, R   (cases 6, 7: U, R)
            ops.push("dlv s100 c0 0".into());
            if case < 6 {
                ops.push("dlv s100 c0 1".into()); // the last packet of the flush (reliable) is lost
            }
            ops.push("recv s100 0".into());
            ops.push("recv s100 0".into());
            ops.push("recv s100 0".into());
            ops.push("dump s100".into());
            ops.push("flush s100".into());
            ops.push("dlv c0 s100 0".into());
            ops.push("dump c0".into());
            let mut next = if case < 6 { 3usize } else { 2 };
            let mut next_s = 1usize;
            for _ in 0..6 {
                ops.push("upd c0 301000".into());
                ops.push("upd srv 301000".into());
                ops.push("flush c0".into());
                // at most two packets per tick are expected here; deliver generously (missing indexes answer nohist on
                // both sides alike)
                for k in 0..2 {
                    ops.push(format!("dlv s100 c0 {}", next + k));
                }
                next += 2;
                ops.push(format!("recv s100 {}", rel));
                ops.push(format!("recv s100 {}", rel));
                ops.push("flush s100".into());
                ops.push(format!("dlv c0 s100 {}", next_s));
                next_s += 1;
            }
            ops.push("dump c0".into());
            ops.push("stat c0".into());
            ops.push("stat s100".into());
            ops.push("note healed".into());
        }
    }
    ops
}

/// bounded sweep over THREE correlated hostile packets about one message id on a reliable channel: slices announcing
/// different counts, a small message reusing the id, interleaved with a receive
const TRIPLE_ALPHABET: usize = 7;
const SWEEP_TRIPLES_N: usize = 2 * 2 * TRIPLE_ALPHABET * TRIPLE_ALPHABET * TRIPLE_ALPHABET;

fn sweep_triples_ops(mut case: usize) -> Vec<String> {
    let mut take = |n: usize| -> usize {
        let v = case % n;
        case /= n;
        v
    };
    let ch: u8 = [2u8, 1][take(2)];
    let recv_between = take(2) == 1;
    let full = vec![9u8; 1200];
    let item = |k: usize, seq: u64| -> String {
        match k {
            0 => slice_pkt(2, seq, ch, 0, 0, 2, &full),
            1 => slice_pkt(2, seq, ch, 0, 1, 2, &[7u8; 10]),
            2 => slice_pkt(2, seq, ch, 0, 0, 5, &full),
            3 => slice_pkt(2, seq, ch, 0, 1, 1000, &full),
            4 => slice_pkt(2, seq, ch, 0, 0, 1, &[5u8; 100]),
            5 => {
                // a small reliable message with the same id 0
                let mut b = vec![0u8];
                b.extend(varint(seq));
                b.push(ch);
                b.extend(1u16.to_be_bytes());
                b.extend(varint(0));
                b.extend(varint(3));
                b.extend([1u8, 2, 3]);
                hex(&b)
            }
            _ => {
                let mut b = vec![0u8];
                b.extend(varint(seq));
                b.push(ch);
                b.extend(1u16.to_be_bytes());
                b.extend(varint(1));
                b.extend(varint(2));
                b.extend([4u8, 5]);
                hex(&b)
            }
        }
    };
    let (a, b, c) = (take(TRIPLE_ALPHABET), take(TRIPLE_ALPHABET), take(TRIPLE_ALPHABET));
    let small_budget = vec![
        Chan { id: 0, kind: "U", max_mem: 10_000, resend_us: 0 },
        Chan { id: 1, kind: "RU", max_mem: 10_000, resend_us: 300_000 },
        Chan { id: 2, kind: "RO", max_mem: 10_000, resend_us: 300_000 },
    ];
    let mut ops = vec![cfg_line(60_000, &small_budget, &small_budget), "cli 0".to_string(), "add 100".to_string(), "cli 1".to_string(), "add 101".to_string()];
    ops.push(format!("raw s100 {}", item(a, 1)));
    ops.push("dump s100".into());
    if recv_between {
        ops.push(format!("recv s100 {}", ch));
    }
    ops.push(format!("raw s100 {}", item(b, 2)));
    ops.push("dump s100".into());
    ops.push(format!("raw s100 {}", item(c, 3)));
    ops.push("stat s100".into());
    ops.push("dump s100".into());
    ops.push(format!("recv s100 {}", ch));
    ops.push(format!("recv s100 {}", ch));
    ops.push("dump s100".into());
    ops.push("upd srv 3100000".into());
    ops.push("flush s100".into());
    ops.push("stat s101".into());
    ops
}

const SWEEP_ACKS_N: usize = 13_700;

/// the range list at / around its cap: n single-element ranges 10, 12, 14, …, then one or two late or new
/// arrivals at every position that matters relative to the oldest and newest range
const SWEEP_CAP_BASES: [u64; 4] = [62, 63, 64, 65];
const SWEEP_CAP_N: usize = 4 * 12 * 12;

fn sweep_cap_ops(mut case: usize) -> Vec<String> {
    let n = SWEEP_CAP_BASES[case % 4];
    case /= 4;
    let last = 10 + 2 * (n - 1);
    let places = |k: usize| -> Option<u64> {
        match k {
            0 => None,
            1 => Some(9),        // adjacent below the oldest range
            2 => Some(8),        // one gap below it
            3 => Some(0),
            4 => Some(11),       // fills the gap between the two oldest ranges
            5 => Some(13),
            6 => Some(last - 1), // fills the gap between the two newest
            7 => Some(last + 1), // extends the newest
            8 => Some(last + 2), // a new newest range
            9 => Some(last + 40),
            10 => Some(10),      // duplicate of the oldest
            _ => Some(7),
        }
    };
    let a = places(case % 12);
    let b = places((case / 12) % 12);
    let mut ops = vec![cfg_line(60_000, &default_chans(), &default_chans()), "cli 0".to_string()];
    let pkt = |seq: u64| -> String {
        let mut b = vec![1u8];
        b.extend(varint(seq));
        b.push(0);
        b.extend(0u16.to_be_bytes());
        format!("raw c0 {}", hex(&b))
    };
    for k in 0..n {
        ops.push(pkt(10 + 2 * k));
    }
    ops.push("dump c0".into());
    for late in [a, b].iter().flatten() {
        ops.push(pkt(*late));
        ops.push("dump c0".into());
    }
    ops.push("flush c0".into());
    ops.push("stat c0".into()); // C13: the flush did not end in PacketSerialization
    ops.push("note sweep-acks".into());
    ops
}

fn sweep_acks_ops(case: usize) -> Vec<String> {
    let mut ops = vec![cfg_line(60_000, &default_chans(), &default_chans()), "cli 0".to_string()];
    let spread = [0u64, 1, 2, 3, 4, 5, 6];
    for s in sweep_arrangement(case) {
        let mut b = vec![1u8];
        b.extend(varint(spread[s as usize]));
        b.push(0);
        b.extend(0u16.to_be_bytes());
        ops.push(format!("raw c0 {}", hex(&b)));
    }
    ops.push("dump c0".into());
    ops.push("flush c0".into());
    ops.push("note sweep-acks".into());
    ops
}

/// C16/C08 on the sweep: the pending-ack list denotes exactly the set of sequence numbers handed
/// over, as maximal ranges, and the emitted ack packet decodes to exactly that list.
fn oracle_sweep_acks(ops: &[String], outs: &[String]) -> Option<OracleFail> {
    if !ops.iter().any(|o| o == "note sweep-acks") {
        return None;
    }
    let mut got: std::collections::BTreeSet<u64> = Default::default();
    for (i, (op, out)) in ops.iter().zip(outs.iter()).enumerate() {
        if let Some(h) = op.strip_prefix("raw c0 ") {
            if let Some(p) = decode(h) {
                got.insert(p.sequence());
                // "the newest 64 ranges of it": when a 65th range appears the oldest one is forgotten for good
                loop {
                    let mut ranges: Vec<(u64, u64)> = vec![];
                    for s in got.iter() {
                        match ranges.last_mut() {
                            Some(r) if r.1 == *s => r.1 = s + 1,
                            _ => ranges.push((*s, s + 1)),
                        }
                    }
                    if ranges.len() <= 64 {
                        break;
                    }
                    for x in ranges[0].0..ranges[0].1 {
                        got.remove(&x);
                    }
                }
            }
        }
        if op == "dump c0" {
            let mut expect: Vec<(u64, u64)> = vec![];
            for s in got.iter() {
                match expect.last_mut() {
                    Some(r) if r.1 == *s => r.1 = s + 1,
                    _ => expect.push((*s, s + 1)),
                }
            }
            let want: Vec<String> = expect.iter().map(|(a, b)| format!("{}-{}", a, b)).collect();
            let have = head_field(out, "acks").unwrap_or("");
            if have != want.join(";") {
                return fail(i, "acks-not-the-set", format!("pending acks [{}] but the received set is [{}]", have, want.join(";")));
            }
        }
        if op == "flush c0" && !got.is_empty() {
            let pk = flush_packets(out);
            match pk.last().and_then(|p| decode(p)) {
                Some(WPacket::Ack { ack_ranges, .. }) => {
                    let mut s: std::collections::BTreeSet<u64> = Default::default();
                    for r in ack_ranges {
                        for x in r {
                            s.insert(x);
                        }
                    }
                    if s != got {
                        return fail(i, "ack-packet-not-the-set", format!("ack packet denotes {:?}, received {:?}", s, got));
                    }
                }
                _ => return fail(i, "ack-packet-missing", "no ack packet emitted although sequence numbers are pending".to_string()),
            }
        }
    }
    None
}


// ---------------------------------------------------------------------------------------------
// E2 tight receive budgets: a few messages whose reservations nearly fill the receiver, newest first
// ---------------------------------------------------------------------------------------------
fn script_tight(rng: &mut Rng, _tier: Tier, ex: &mut dyn FnMut(&str) -> String) {
    let kind = rng.pick(&["RO", "RO", "RU"]);
    let mm = rng.pick(&[2400usize, 3600, 4000, 4800, 5000, 6000]);
    let ch = vec![Chan { id: 2, kind, max_mem: mm, resend_us: 100_000 }];
    ex(&cfg_line(60_000, &ch, &ch));
    ex("cli 0");
    ex("add 100");
    ex("setc 0");
    if rng.chance(1, 2) {
        // targeted: a sliced message and a later small one that fit the sender's budget together while the
        // receiver's slice reservation (n x 1200) does not fit next to the buffered small message
        let big = rng.range(1201, (mm - 1) as u64) as usize;
        let n = (big + 1199) / 1200;
        let room = (mm - big).min(1200).max(1);
        let lo = if n * 1200 < mm && rng.chance(2, 3) { (mm - n * 1200 + 1).min(room) } else { 1 };
        let small = rng.range(lo as u64, room as u64) as usize;
        for len in [big, small.max(1)] {
            let m = rng.payload(len);
            ex(&format!("send c0 2 {}", hex(&m)));
        }
    } else {
        let n = rng.range(2, 4);
        for _ in 0..n {
            let len = match rng.below(4) {
                0 => rng.range(1, 1200) as usize,
                1 => rng.pick(&[1201usize, 2000, 2400, 2500]),
                2 => rng.pick(&[800usize, 1000, 1200]),
                _ => rng.range(1201, 3600) as usize,
            };
            let m = rng.payload(len);
            ex(&format!("send c0 2 {}", hex(&m)));
        }
    }
    ex("upd c0 1000");
    let k = pkts_count(&ex("flush c0"));
    let mut order: Vec<usize> = (0..k).collect();
    match rng.below(3) {
        0 => order.reverse(),
        1 => {
            for i in (1..order.len()).rev() {
                let j = rng.below(i as u64 + 1) as usize;
                order.swap(i, j);
            }
        }
        _ => {}
    }
    let lose = rng.below(k.max(1) as u64) as usize;
    let mut delivered_idx: Vec<usize> = vec![];
    for (j, i) in order.iter().enumerate() {
        if j == lose && rng.chance(1, 2) {
            continue;
        }
        delivered_idx.push(*i);
        ex(&format!("dlv s100 c0 {}", i));
        if rng.chance(1, 3) {
            drain(ex, "s100", 2, 2);
        }
    }
    ex("dump s100");
    ex("stat s100");
    if rng.chance(1, 2) {
        // the network duplicates: packets that already arrived arrive again (no new content)
        for (j, i) in order.iter().enumerate() {
            if !(j == lose && false) && rng.chance(1, 2) {
                if delivered_idx.contains(i) {
                    ex(&format!("dlv s100 c0 {}", i));
                }
            }
        }
        ex("stat s100");
    }
    // heal
    let mut next = k;
    let mut next_s = 0usize;
    if rng.chance(3, 4) {
        // the acks arrive before anything is due for a resend: what was acknowledged is never sent again
        let k = pkts_count(&ex("flush s100"));
        for i in 0..k {
            ex(&format!("dlv c0 s100 {}", i));
        }
        next_s = k;
    }
    for _ in 0..14 {
        ex("upd c0 101000");
        ex("upd srv 101000");
        let k = pkts_count(&ex("flush c0"));
        for i in 0..k {
            ex(&format!("dlv s100 c0 {}", next + i));
        }
        next += k;
        drain(ex, "s100", 2, 100);
        let k = pkts_count(&ex("flush s100"));
        for i in 0..k {
            ex(&format!("dlv c0 s100 {}", next_s + i));
        }
        next_s += k;
    }
    ex("stat c0");
    ex("stat s100");
    ex("note healed");
    ex("upd c0 3100000");
    ex("upd srv 3100000");
    ex("dump c0");
    ex("dump s100");
    ex("note quiescent");
}

// ---------------------------------------------------------------------------------------------
// bounded exhaustive sweep over slice packets: kind x id x index x count x payload length x prior state
// ---------------------------------------------------------------------------------------------
const SWEEP_SLICES_N: usize = 2 * 2 * 5 * 4 * 6 * 3;

fn sweep_slices_ops(mut case: usize) -> Vec<String> {
    let mut take = |n: usize| -> usize {
        let v = case % n;
        case /= n;
        v
    };
    let ty = [2u8, 3][take(2)];
    let id = [0u64, 1][take(2)];
    let idx = [0u64, 1, 2, 3, 1_000_000][take(5)];
    let n = [1u64, 2, 3, 4][take(4)];
    let len = [0usize, 1, 1199, 1200, 1201, 600][take(6)];
    let prior = take(3);
    let ch = if ty == 2 { 2 } else { 0 };
    let mut ops = vec![cfg_line(60_000, &default_chans(), &default_chans()), "cli 0".to_string(), "add 100".to_string(), "cli 1".to_string(), "add 101".to_string()];
    let full = vec![9u8; 1200];
    match prior {
        1 => ops.push(format!("raw s100 {}", slice_pkt(ty, 50, ch, 0, 0, 2, &full))),
        2 => {
            ops.push(format!("raw s100 {}", slice_pkt(ty, 50, ch, 0, 1, 2, &[7u8; 10])));
            ops.push(format!("raw s100 {}", slice_pkt(ty, 51, ch, 1, 0, 3, &full)));
        }
        _ => {}
    }
    ops.push(format!("raw s100 {}", slice_pkt(ty, 7, ch, id, idx, n, &vec![5u8; len])));
    ops.push("stat s100".into());
    ops.push("dump s100".into());
    ops.push(format!("recv s100 {}", ch));
    ops.push("upd srv 3100000".into());
    ops.push("flush s100".into());
    ops.push("dump s100".into());
    ops.push("stat s101".into());
    ops
}

// ---------------------------------------------------------------------------------------------
// E1: renet wire format
// ---------------------------------------------------------------------------------------------
const MAGS: &[u64] = &[0, 1, 62, 63, 64, 65, 255, 256, 16382, 16383, 16384, 16385, 65535, 65536, (1 << 30) - 1, 1 << 30, (1 << 30) + 1, u32::MAX as u64, (1u64 << 62) - 2, (1u64 << 62) - 1];

fn gen_mag(rng: &mut Rng) -> u64 {
    match rng.below(4) {
        0 => rng.below(100),
        1 | 2 => rng.pick(MAGS),
        _ => rng.next_u64() >> rng.range(2, 63),
    }
}

fn gen_ranges(rng: &mut Rng, n: usize) -> Vec<(u64, u64)> {
    // ascending, non-adjacent, starting at a random magnitude
    let mut start = if rng.chance(1, 2) { rng.below(1000) } else { gen_mag(rng) >> 1 };
    let mut v = vec![];
    for _ in 0..n {
        let len = rng.pick(&[1u64, 1, 2, 3, 10, 100, 70000]);
        let end = start.saturating_add(len);
        if end > (1u64 << 62) {
            break;
        }
        v.push((start, end));
        let gap = rng.pick(&[1u64, 1, 2, 5, 63, 64, 16384, 1 << 31]);
        start = end.saturating_add(gap);
        if start >= (1u64 << 62) - 1 {
            break;
        }
    }
    v
}

fn gen_term(rng: &mut Rng) -> String {
    let seq = gen_mag(rng);
    let ch = rng.pick(&[0u64, 1, 2, 7, 200, 255]);
    match rng.below(5) {
        0 => {
            let n = rng.pick(&[0usize, 1, 2, 3, 10, 40]);
            let mut s = format!("SR {} {} {}", seq, ch, n);
            let mut budget = 1300i64;
            for _ in 0..n {
                let l = (rng.pick(&[0usize, 1, 5, 63, 64, 100, 600, 1185, 1190, 1200]) as i64).min(budget.max(0)) as usize;
                budget -= l as i64 + 10;
                s.push_str(&format!(" {} {}", gen_mag(rng), hex(&rng.payload(l))));
            }
            s
        }
        1 => {
            // the unreliable channel packs messages until their serialised size passes SLICE_SIZE: up to 1200 empty ones
            let n = rng.pick(&[0usize, 1, 2, 3, 10, 100, 600, 601, 700, 1199, 1200]);
            let mut s = format!("SU {} {} {}", seq, ch, n);
            let mut budget = if n > 600 { 1200i64 - n as i64 } else { 1300i64 };
            for _ in 0..n {
                let l = (rng.pick(&[0usize, 0, 1, 5, 63, 64, 100, 600, 1199, 1200]) as i64).min(budget.max(0)) as usize;
                budget -= l as i64 + 2;
                s.push_str(&format!(" {}", hex(&rng.payload(l))));
            }
            s
        }
        2 | 3 => {
            let kind = if rng.chance(1, 2) { "RS" } else { "US" };
            let n = rng.pick(&[1u64, 2, 3, 100, 1_000_000, 1_000_001, 0]);
            let idx = if rng.chance(3, 4) { rng.below(n.max(1)) } else { gen_mag(rng) };
            let l = rng.pick(&[0usize, 1, 2, 600, 1199, 1200, 1201, 1300]);
            format!("{} {} {} {} {} {} {}", kind, seq, ch, gen_mag(rng), idx, n, hex(&rng.payload(l)))
        }
        _ => {
            let n = rng.pick(&[1usize, 1, 2, 3, 8, 32, 63, 64, 65, 90]);
            let r = gen_ranges(rng, n);
            let mut s = format!("AK {} {}", seq, r.len());
            for (a, b) in r {
                s.push_str(&format!(" {} {}", a, b));
            }
            s
        }
    }
}

fn script_wire(rng: &mut Rng, _tier: Tier, ex: &mut dyn FnMut(&str) -> String) {
    for _ in 0..12 {
        match rng.below(10) {
            0..=5 => {
                // structured value: encode, decode the encoding, re-encode the decoded term
                let term = gen_term(rng);
                let h = ex(&format!("enc {}", term));
                if h == "panic" {
                    return;
                }
                if !h.starts_with("err:") && h != "bad-op" {
                    let t2 = ex(&format!("dec {}", h));
                    if !t2.starts_with("err:") {
                        ex(&format!("enc {}", t2));
                    }
                    // malformed stream derived from a valid encoding
                    let b = unhex(&h).unwrap_or_default();
                    if !b.is_empty() {
                        match rng.below(4) {
                            0 => {
                                let cut = rng.below(b.len() as u64) as usize;
                                ex(&format!("dec {}", hex(&b[..cut])));
                            }
                            1 => {
                                let mut c = b.clone();
                                let i = rng.below(c.len().min(24) as u64) as usize;
                                c[i] ^= 1 << rng.below(8);
                                let o = ex(&format!("dec {}", hex(&c)));
                                if !o.starts_with("err:") {
                                    let h2 = ex(&format!("enc {}", o));
                                    if !h2.starts_with("err:") && h2 != "panic" {
                                        ex(&format!("dec {}", h2));
                                    }
                                }
                            }
                            2 => {
                                let mut c = b.clone();
                                let k = rng.below(8) as usize;
                                c.extend(rng.bytes(k));
                                ex(&format!("dec {}", hex(&c)));
                            }
                            _ => {}
                        }
                    }
                }
            }
            6 | 7 => {
                // raw bytes with a plausible type byte
                let n = rng.pick(&[0usize, 1, 2, 3, 5, 8, 12, 20, 40, 100, 1300, 1400]);
                let mut b = rng.bytes(n);
                if !b.is_empty() {
                    b[0] = rng.pick(&[0u8, 1, 2, 3, 4, 5, 255]);
                }
                let o = ex(&format!("dec {}", hex(&b)));
                if !o.starts_with("err:") {
                    let h2 = ex(&format!("enc {}", o));
                    if !h2.starts_with("err:") && h2 != "panic" {
                        ex(&format!("dec {}", h2));
                    }
                }
            }
            _ => {
                // non-canonical varints: a small value in a wide encoding
                let v = rng.below(64);
                let wide = match rng.below(3) {
                    0 => vec![0x40, v as u8],
                    1 => vec![0x80, 0, 0, v as u8],
                    _ => vec![0xc0, 0, 0, 0, 0, 0, 0, v as u8],
                };
                let mut b = vec![4u8];
                b.extend(&wide); // sequence
                b.extend(&[5, 2, 0]); // end 5 size 2 remaining 0
                let o = ex(&format!("dec {}", hex(&b)));
                if !o.starts_with("err:") {
                    let h2 = ex(&format!("enc {}", o));
                    if !h2.starts_with("err:") && h2 != "panic" {
                        ex(&format!("dec {}", h2));
                    }
                }
            }
        }
    }
}

/// C08 on the wire: an ack packet decodes to exactly the ranges that were encoded (an endpoint
/// never acknowledges, through its encoding, a sequence number that is not in its pending list).
fn oracle_c16_acks(ops: &[String], outs: &[String]) -> Option<OracleFail> {
    for i in 1..ops.len() {
        if let (Some(t), Some(h)) = (ops[i - 1].strip_prefix("enc "), ops[i].strip_prefix("dec ")) {
            if t.starts_with("AK ") && outs[i - 1] == h && outs[i] != t && term_wf(t) {
                return fail(i, "ack-encoding-differs", format!("an ack packet for ranges `{}` decodes to `{}`", &t[..t.len().min(80)], &outs[i][..outs[i].len().min(80)]));
            }
        }
    }
    None
}

/// is the term a value the library itself can build (the domain C16 quantifies over)?
fn term_wf(t: &str) -> bool {
    let v: Vec<&str> = t.split(' ').collect();
    let max = (1u64 << 62) - 1;
    let num = |s: &str| s.parse::<u64>().ok();
    match v[0] {
        "RS" | "US" if v.len() == 7 => {
            let n = num(v[5]).unwrap_or(0);
            let len = if v[6] == "-" { 0 } else { v[6].len() / 2 };
            n >= 1 && n <= 1_000_000 && (v[0] == "US" || (len >= 1 && len <= 1200)) && [v[1], v[3], v[4]].iter().all(|x| num(x).map(|x| x <= max).unwrap_or(false))
        }
        "AK" => {
            let mut prev_end: Option<u64> = None;
            let n = num(v[2]).unwrap_or(0) as usize;
            if n == 0 {
                return false;
            }
            for i in 0..n {
                let (s, e) = (num(v[3 + 2 * i]).unwrap_or(0), num(v[4 + 2 * i]).unwrap_or(0));
                if s >= e || e > max + 1 {
                    return false;
                }
                if let Some(pe) = prev_end {
                    if s <= pe {
                        return false;
                    }
                }
                prev_end = Some(e);
            }
            num(v[1]).map(|x| x <= max).unwrap_or(false)
        }
        _ => true,
    }
}

fn varint_len(v: u64) -> usize {
    if v <= 63 {
        1
    } else if v <= 16383 {
        2
    } else if v <= 1_073_741_823 {
        4
    } else {
        8
    }
}

/// is the term a packet `get_packets_to_send` can build, with every sequence number / message id up to 2^62-1?
///  * SR / SU: the channels append small messages (≤ 1200 bytes each) while the serialised sizes (length + varints) add
///    up to at most 1200, or the packet holds a single message;
///  * RS / US: index < count ≤ 1 000 000, payload 1 … 1200 bytes;
///  * AK: 1 … 64 ascending, non-adjacent, non-empty ranges.
fn term_buildable(t: &str) -> bool {
    let v: Vec<&str> = t.split(' ').collect();
    let max = (1u64 << 62) - 1;
    let num = |s: &str| s.parse::<u64>().ok().filter(|x| *x <= max);
    let hexlen = |h: &str| if h == "-" { Some(0usize) } else if h.len() % 2 == 0 { Some(h.len() / 2) } else { None };
    if v.len() < 3 || num(v[1]).is_none() {
        return false;
    }
    match v[0] {
        "SR" | "SU" => {
            if v[2].parse::<u8>().is_err() {
                return false;
            }
            let n: usize = match v.get(3).and_then(|x| x.parse().ok()) {
                Some(n) => n,
                None => return false,
            };
            let per = if v[0] == "SR" { 2 } else { 1 };
            if v.len() != 4 + per * n || n > 65_535 {
                return false;
            }
            let mut total = 0usize;
            for i in 0..n {
                let (id_len, h) = if v[0] == "SR" {
                    match num(v[4 + 2 * i]) {
                        Some(id) => (varint_len(id), v[5 + 2 * i]),
                        None => return false,
                    }
                } else {
                    (0, v[4 + i])
                };
                let l = match hexlen(h) {
                    Some(l) if l <= 1200 => l,
                    _ => return false,
                };
                total += l + varint_len(l as u64) + id_len;
            }
            n == 1 || total <= 1200
        }
        "RS" | "US" if v.len() == 7 => {
            let (idx, n) = match (num(v[4]), num(v[5])) {
                (Some(i), Some(n)) => (i, n),
                _ => return false,
            };
            let len = hexlen(v[6]).unwrap_or(usize::MAX);
            v[2].parse::<u8>().is_ok() && num(v[3]).is_some() && n >= 1 && n <= 1_000_000 && idx < n && len >= 1 && len <= 1200
        }
        "AK" => v[2].parse::<usize>().map(|n| n >= 1 && n <= 64).unwrap_or(false) && term_wf(t),
        _ => false,
    }
}

/// C13 on the wire level: "serialization never fails, for any mix of message sizes, message ids, packet sequence numbers
/// and pending acknowledgement ranges" and the result fits 1300 bytes — for every `enc` of a packet the library can build
/// (`term_buildable`), whatever the magnitudes.
fn oracle_c13_wire(ops: &[String], outs: &[String]) -> Option<OracleFail> {
    for (i, (op, out)) in ops.iter().zip(outs.iter()).enumerate() {
        let t = match op.strip_prefix("enc ") {
            Some(t) => t,
            None => continue,
        };
        if out == "bad-op" || out == "dead" || !term_buildable(t) {
            continue;
        }
        if out.starts_with("err:") || out == "panic" {
            return fail(i, "buildable-packet-does-not-serialize", format!("`{}` answers {} for a packet the send path can build: {}", &op[..op.len().min(20)], out, &t[..t.len().min(100)]));
        }
        if out != "-" && out.len() > 2600 {
            return fail(i, "buildable-packet-too-long", format!("a packet the send path can build serialises to {} bytes (> 1300): {}", out.len() / 2, &t[..t.len().min(100)]));
        }
    }
    None
}

/// C16 on the implementation: `dec` of what `enc T` produced gives T; a decoded term re-encodes and
/// decodes to itself.
fn oracle_c16(ops: &[String], outs: &[String]) -> Option<OracleFail> {
    for i in 1..ops.len() {
        if let (Some(t), Some(h)) = (ops[i - 1].strip_prefix("enc "), ops[i].strip_prefix("dec ")) {
            if outs[i - 1] == h && outs[i] != t && term_wf(t) {
                return fail(i, "encode-decode-differs", format!("decode(encode(T)) != T for T = {}", &t[..t.len().min(100)]));
            }
        }
        if let (Some(_), Some(t)) = (ops[i - 1].strip_prefix("dec "), ops[i].strip_prefix("enc ")) {
            if outs[i - 1] == t && (outs[i] == "panic") {
                return fail(i, "reencode-panics", format!("re-encoding a decoded packet panics: {}", &t[..t.len().min(100)]));
            }
        }
    }
    None
}

/// The recorded finding K2 (known_findings.json, class `oversized-message`), and nothing else: the packet `p` that `who`
/// emitted at op `i` and that the library's decoder rejects is, read with the independent wire reader, a slice of a message
/// `who` really submitted (`sendfill who ch len …` earlier in the trace) with len > 1 000 000 × 1200 bytes, announcing exactly
/// ⌈len / 1200⌉ > 1 000 000 slices. Any other undecodable packet keeps the class `emitted-undecodable`. When the trace goes
/// on to hand the packet to the peer, the verdict is placed at the peer's `stat` (the honest peer's disconnect).
fn oversized_message(ops: &[String], outs: &[String], i: usize, who: &str, p: &str) -> Option<OracleFail> {
    let (ch, n) = match decode(p) {
        Some(WPacket::ReliableSlice { channel_id, slice, .. }) | Some(WPacket::UnreliableSlice { channel_id, slice, .. }) => (channel_id, slice.num_slices as u64),
        _ => return None,
    };
    if n <= 1_000_000 {
        return None;
    }
    let len = ops[..i].iter().find_map(|o| {
        let t: Vec<&str> = o.split(' ').collect();
        if t.len() == 5 && t[0] == "sendfill" && t[1] == who && t[2].parse::<u8>().ok() == Some(ch) {
            t[3].parse::<u64>().ok().filter(|l| *l > 1_200_000_000 && (*l + 1199) / 1200 == n)
        } else {
            None
        }
    })?;
    let peer = peer_of(who)?;
    let mut at = i;
    let mut seen = String::new();
    let handed = ops[i..].iter().position(|o| o.starts_with(&format!("dlv {} {} ", peer, who))).map(|k| i + k);
    if let Some(h) = handed {
        if let Some(k) = ops[h..].iter().position(|o| *o == format!("stat {}", peer)) {
            if outs[h + k].starts_with("disconnected:") {
                at = h + k;
                seen = format!("; handed the packet, {} is {}", peer, outs[h + k]);
            }
        }
    }
    fail(at, "oversized-message", format!("{} accepted a message of {} bytes on channel {} and emits slice packets announcing {} slices, which its own decoder rejects (limit 1 000 000){}", who, len, ch, n, seen))
}

/// C16 on real traffic (profiles whose ids / sequences cross the varint widths or hold > 64 ack ranges): every packet an
/// endpoint emits decodes, the decoded value re-encodes, and the re-encoding decodes to the same value; the Ack packet
/// of a flush denotes exactly the pending list the adjacent `dump` of the same endpoint shows ("the set of sequence
/// numbers recorded as received").
fn oracle_c16_emitted(ops: &[String], outs: &[String]) -> Option<OracleFail> {
    for (i, (op, out)) in ops.iter().zip(outs.iter()).enumerate() {
        let who = match op.strip_prefix("flush ") {
            Some(w) => w,
            None => continue,
        };
        let pk = flush_packets(out);
        let mut ack: Option<String> = None;
        for p in pk.iter() {
            let t = match lib_decode(p) {
                Some(t) => t,
                None => {
                    if let Some(f) = oversized_message(ops, outs, i, who, p) {
                        return Some(f);
                    }
                    return fail(i, "emitted-undecodable", format!("{} emitted a packet its own decoder rejects: {}", who, &p[..p.len().min(60)]));
                }
            };
            let shown = show_term(&t);
            if let Some(w) = decode(p) {
                let on_wire = show_term(&w);
                if on_wire != shown {
                    return fail(i, "decoded-differs-from-wire", format!("{}: the library decodes its own packet to `{}`, the bytes say `{}`", who, &shown[..shown.len().min(100)], &on_wire[..on_wire.len().min(100)]));
                }
            }
            let mut buffer = [0u8; 1400];
            let mut oct = octets::OctetsMut::with_slice(&mut buffer);
            let len = match t.to_bytes(&mut oct) {
                Ok(l) => l,
                Err(e) => return fail(i, "emitted-reencode-fails", format!("{}: the decoded packet `{}` does not re-encode: {:?}", who, &shown[..shown.len().min(80)], e)),
            };
            match lib_decode(&hex(&buffer[..len])) {
                Some(t2) if show_term(&t2) == shown => {}
                _ => return fail(i, "emitted-reencode-differs", format!("{}: re-encoding the decoded packet `{}` decodes to another value", who, &shown[..shown.len().min(80)])),
            }
            if let WPacket::Ack { ack_ranges, .. } = &t {
                let v: Vec<String> = ack_ranges.iter().map(|r| format!("{}-{}", r.start, r.end)).collect();
                ack = Some(v.join(";"));
            }
        }
        if pk.is_empty() {
            continue; // a disconnected endpoint emits nothing
        }
        let dump_of = |j: usize| -> Option<&str> {
            if ops.get(j).map(|o| o == &format!("dump {}", who)).unwrap_or(false) && outs[j].starts_with("seq=") {
                head_field(&outs[j], "acks")
            } else {
                None
            }
        };
        let adjacent = dump_of(i + 1).or(if i > 0 { dump_of(i - 1) } else { None });
        if let Some(acks) = adjacent {
            if ack.as_deref().unwrap_or("") != acks {
                return fail(i, "ack-packet-not-the-pending-set", format!("{} holds pending acks [{}] but its flush carried the ack ranges [{}]", who, &acks[..acks.len().min(120)], ack.as_deref().map(|a| &a[..a.len().min(120)]).unwrap_or("none")));
            }
        }
    }
    None
}

// ---------------------------------------------------------------------------------------------
// Round-15 scenarios (deterministic structure, a few parameters from the PRNG)
// ---------------------------------------------------------------------------------------------

/// flush `from` and hand the packets selected by `keep(index in this flush, absolute index)` to `to`, in order
fn flush_to(ex: &mut dyn FnMut(&str) -> String, emitted: &mut HashMap<String, usize>, from: &str, to: &str, keep: &mut dyn FnMut(usize, usize) -> bool) -> usize {
    let out = ex(&format!("flush {}", from));
    let k = pkts_count(&out);
    let base = *emitted.get(from).unwrap_or(&0);
    emitted.insert(from.to_string(), base + k);
    for i in 0..k {
        if keep(i, base + i) {
            ex(&format!("dlv {} {} {}", to, from, base + i));
        }
    }
    k
}

/// C14 / C15: per-tick budgets around and below one slice, a sliced reliable message waiting, quiet ticks that leave
/// budget unused, then a burst of small messages on every channel kind (budget state must not carry over between ticks).
fn script_small_budget(rng: &mut Rng, _tier: Tier, ex: &mut dyn FnMut(&str) -> String) {
    let budget = rng.pick(&[500u64, 1000, 1199, 1200, 1201, 1700, 2399, 2400]);
    let ch = default_chans();
    ex(&cfg_line(budget, &ch, &ch));
    ex("cli 0");
    ex("add 100");
    ex("setc 0");
    let mut em: HashMap<String, usize> = HashMap::new();
    let rel = rng.pick(&[1u8, 2]);
    let who = rng.pick(&[("c0", "s100"), ("s100", "c0")]);
    let (a, b) = (who.0, who.1);
    ex(&format!("send {} {} {}", a, rel, hex(&pat(rng.pick(&[1201usize, 2500, 3600]), 3))));
    let quiet = rng.range(2, 5);
    let round = |ex: &mut dyn FnMut(&str) -> String, em: &mut HashMap<String, usize>| {
        ex("upd c0 301000");
        ex("upd srv 301000");
        ex(&format!("dump {}", a)); // dump + flush: what is unacknowledged, due and fits must go out (C14 / C15)
        flush_to(ex, em, a, b, &mut |_, _| true);
        for c in 0..3u8 {
            drain(ex, b, c, 100);
        }
        flush_to(ex, em, b, a, &mut |_, _| true);
    };
    for _ in 0..quiet {
        round(ex, &mut em);
    }
    // burst: more small traffic than one tick may carry, on the unreliable and on the other reliable channel
    let n = rng.range(8, 20);
    for k in 0..n {
        ex(&format!("send {} 0 {}", a, hex(&pat(100, k as u8))));
    }
    // … every third one as large as a small message / the budget allows: it has to wait for a tick with enough budget
    // left, the 100-byte ones behind it must not wait with it
    let big = (budget.min(1200) as usize) - rng.pick(&[0usize, 1, 50]);
    for k in 0..n {
        let len = if k % 3 == 1 { big } else { 100 };
        ex(&format!("send {} {} {}", a, 3 - rel, hex(&pat(len, 100 + k as u8))));
    }
    for _ in 0..(3 + 2 * n + 12) {
        round(ex, &mut em);
    }
    ex("stat c0");
    ex("stat s100");
    if budget >= 1200 {
        ex("note healed");
    }
}

/// C15 / C08: more small reliable messages in one tick than one packet holds (overflow flush inside one
/// get_packets_to_send), optionally followed by a sliced message in the same tick; everything arrives and is
/// acknowledged at once; then silence for several resend periods: nothing may be transmitted again.
fn script_overflow_ack(rng: &mut Rng, _tier: Tier, ex: &mut dyn FnMut(&str) -> String) {
    let resend = rng.pick(&[100_000u64, 300_000]);
    let kind = rng.pick(&["RO", "RU"]);
    let ch = vec![Chan { id: 1, kind, max_mem: 5 * 1024 * 1024, resend_us: resend }, Chan { id: 0, kind: "U", max_mem: 100_000, resend_us: 0 }];
    ex(&cfg_line(60_000, &ch, &ch));
    ex("cli 0");
    ex("add 100");
    ex("setc 0");
    let mut em: HashMap<String, usize> = HashMap::new();
    let who = rng.pick(&[("c0", "s100"), ("s100", "c0")]);
    let (a, b) = (who.0, who.1);
    let n = rng.range(3, 7);
    for k in 0..n {
        ex(&format!("send {} 1 {}", a, hex(&pat(rng.pick(&[400usize, 500, 650, 1100]), k as u8))));
    }
    if rng.chance(1, 2) {
        ex(&format!("send {} 1 {}", a, hex(&pat(2500, 77))));
    }
    ex("upd c0 20000");
    ex("upd srv 20000");
    ex(&format!("dump {}", a));
    flush_to(ex, &mut em, a, b, &mut |_, _| true);
    drain(ex, b, 1, 100);
    flush_to(ex, &mut em, b, a, &mut |_, _| true);
    for _ in 0..12 {
        let dt = rng.pick(&[resend / 5, resend, resend + 1000]);
        ex(&format!("upd c0 {}", dt));
        ex(&format!("upd srv {}", dt));
        ex(&format!("dump {}", a));
        flush_to(ex, &mut em, a, b, &mut |_, _| true);
        drain(ex, b, 1, 100);
        flush_to(ex, &mut em, b, a, &mut |_, _| true);
    }
    ex("stat c0");
    ex("stat s100");
    ex("note healed");
}

/// C15 / C08 / C16: ONE acknowledgement packet with many (33..64+) disjoint ranges. A sliced reliable message goes out in
/// one tick, every second datagram is lost, the receiver answers with a single Ack packet; after its processing nothing it
/// covers may be transmitted again, and everything lost must be.
fn script_many_ranges(rng: &mut Rng, _tier: Tier, ex: &mut dyn FnMut(&str) -> String) {
    let resend = rng.pick(&[100_000u64, 300_000]);
    let kind = rng.pick(&["RO", "RU"]);
    let ch = vec![Chan { id: 1, kind, max_mem: 5 * 1024 * 1024, resend_us: resend }, Chan { id: 0, kind: "U", max_mem: 100_000, resend_us: 0 }];
    ex(&cfg_line(400_000, &ch, &ch));
    ex("cli 0");
    ex("add 100");
    ex("setc 0");
    let mut em: HashMap<String, usize> = HashMap::new();
    let who = rng.pick(&[("c0", "s100"), ("s100", "c0")]);
    let (a, b) = (who.0, who.1);
    let slices = rng.pick(&[40usize, 66, 70, 100, 128, 140]);
    ex(&format!("send {} 1 {}", a, hex(&pat(slices * 1200 - rng.pick(&[0usize, 1, 700]), 5))));
    ex("upd c0 20000");
    ex("upd srv 20000");
    let phase = rng.below(2) as usize;
    flush_to(ex, &mut em, a, b, &mut |i, _| i % 2 == phase);
    ex(&format!("dump {}", b));
    flush_to(ex, &mut em, b, a, &mut |_, _| true);
    ex(&format!("dump {}", a));
    for _ in 0..8 {
        let dt = rng.pick(&[resend / 3, resend, resend + 1000]);
        ex(&format!("upd c0 {}", dt));
        ex(&format!("upd srv {}", dt));
        ex(&format!("dump {}", a));
        flush_to(ex, &mut em, a, b, &mut |_, _| true);
        drain(ex, b, 1, 100);
        flush_to(ex, &mut em, b, a, &mut |_, _| true);
    }
    ex("stat c0");
    ex("stat s100");
    ex("note healed");
}

/// C11 / C08 / C01: a lossy burst of unreliable traffic towards ONE client leaves that client with more than 64
/// disjoint acknowledgement ranges while a reliable broadcast's datagram to it sits, lost, in the gap between the two
/// oldest ranges; then a perfect network. The broadcast (and later ones) must reach every client.
fn script_ack_gap(rng: &mut Rng, _tier: Tier, ex: &mut dyn FnMut(&str) -> String) {
    let ch = default_chans();
    ex(&cfg_line(60_000, &ch, &ch));
    let n = rng.range(2, 3);
    for h in 0..n {
        ex(&format!("cli {}", h));
        ex(&format!("add {}", 100 + h));
        ex(&format!("setc {}", h));
    }
    let v = rng.below(n); // the client behind the lossy link
    let (sv, cv) = (format!("s{}", 100 + v), format!("c{}", v));
    let mut em: HashMap<String, usize> = HashMap::new();
    let rel = rng.pick(&[1u8, 2]);
    // one unreliable message arrives (sequence 0)
    ex(&format!("send {} 0 {}", sv, hex(&pat(10, 1))));
    ex("upd srv 1000");
    flush_to(ex, &mut em, &sv, &cv, &mut |_, _| true);
    // a reliable broadcast: the victim's datagram is lost, everybody else gets it
    ex("ids");
    ex(&format!("bcast {} {}", rel, hex(&pat(300, 2))));
    ex("upd srv 1000");
    for h in 0..n {
        let (s, c) = (format!("s{}", 100 + h), format!("c{}", h));
        flush_to(ex, &mut em, &s, &c, &mut |_, _| h != v);
    }
    // the burst: one 700-byte unreliable message per datagram, every second datagram lost, the victim's uplink silent
    let holes = rng.pick(&[63u64, 64, 65, 66, 70, 120]);
    let mut left = 2 * holes;
    while left > 0 {
        let k = left.min(60);
        for j in 0..k {
            ex(&format!("send {} 0 {}", sv, hex(&pat(700, j as u8))));
        }
        left -= k;
        ex("upd srv 16000");
        flush_to(ex, &mut em, &sv, &cv, &mut |i, _| i % 2 == 0);
        drain(ex, &cv, 0, 1000);
        ex(&format!("dump {}", cv));
    }
    // perfect network from here on
    let mut extra = 0;
    for round in 0..14 {
        ex("upd srv 301000");
        for h in 0..n {
            ex(&format!("upd c{} 301000", h));
        }
        if round == 2 || round == 4 {
            ex("ids");
            ex(&format!("bcast {} {}", rel, hex(&pat(200, 10 + extra))));
            extra += 1;
        }
        for h in 0..n {
            let (s, c) = (format!("s{}", 100 + h), format!("c{}", h));
            flush_to(ex, &mut em, &c, &s, &mut |_, _| true);
            if round < 2 {
                ex(&format!("dump {}", s));
            }
            flush_to(ex, &mut em, &s, &c, &mut |_, _| true);
            for chn in 0..3u8 {
                drain(ex, &c, chn, 1000);
                drain(ex, &s, chn, 1000);
            }
        }
    }
    for h in 0..n {
        ex(&format!("stat c{}", h));
        ex(&format!("stat s{}", 100 + h));
    }
    ex("note healed");
}

/// C03 "for every size from 0 bytes up to the channel budget … large": one message of 100 … 257 slices (the slice index
/// and count cross one byte, 120 … 308 kB) on an unreliable and on a reliable channel in the same tick, every datagram
/// delivered, in order / reversed / shuffled, a few of them twice.
fn script_bigmsg(rng: &mut Rng, tier: Tier, ex: &mut dyn FnMut(&str) -> String) {
    let u = Chan { id: 0, kind: "U", max_mem: 5 * 1024 * 1024, resend_us: 0 };
    let r = Chan { id: 1, kind: rng.pick(&["RO", "RU"]), max_mem: 5 * 1024 * 1024, resend_us: 300_000 };
    let order = if rng.chance(1, 2) { vec![u.clone(), r.clone()] } else { vec![r.clone(), u.clone()] };
    ex(&cfg_line(700_000, &order, &order));
    ex("cli 0");
    ex("add 100");
    ex("setc 0");
    let who = rng.pick(&[("c0", "s100"), ("s100", "c0")]);
    let (a, b) = (who.0, who.1);
    let mut ctr = 0u32;
    for ch in [0u8, 1] {
        // (the list-based model needs seconds per 300 kB message: the quick tier stays below 80 slices)
        let n = if tier == Tier::Quick { rng.pick(&[63usize, 64, 65, 70]) } else { rng.pick(&[255usize, 256, 257, 100, 128]) };
        let len = n * 1200 - rng.pick(&[0usize, 1, 600, 1199]);
        let m = stamped(rng, len, &mut ctr);
        ex(&format!("send {} {} {}", a, ch, hex(&m)));
    }
    ex("upd c0 1000");
    ex("upd srv 1000");
    let k = pkts_count(&ex(&format!("flush {}", a)));
    let mut idx: Vec<usize> = (0..k).collect();
    match rng.below(3) {
        0 => idx.reverse(),
        1 => {
            for i in (1..idx.len()).rev() {
                let j = rng.below(i as u64 + 1) as usize;
                idx.swap(i, j);
            }
        }
        _ => {}
    }
    for i in idx {
        ex(&format!("dlv {} {} {}", b, a, i));
        if rng.chance(1, 40) {
            ex(&format!("dlv {} {} {}", b, a, i));
        }
    }
    for ch in [0u8, 1] {
        drain(ex, b, ch, 4);
    }
    ex(&format!("stat {}", a));
    ex(&format!("stat {}", b));
}

/// payload whose first four bytes are a per-script counter (when it has four): two submissions of one script never carry
/// the same bytes, so a swapped, duplicated or substituted message is visible whatever its length
fn stamped(rng: &mut Rng, n: usize, ctr: &mut u32) -> Vec<u8> {
    let mut m = rng.payload(n);
    if n >= 4 {
        m[..4].copy_from_slice(&ctr.to_le_bytes());
        *ctr += 1;
    }
    m
}

// ---------------------------------------------------------------------------------------------
// Round-21 scenarios: bursts of tiny messages in one tick, aliasing channel ids, slice counts near usize::MAX / 1200
// ---------------------------------------------------------------------------------------------

/// C01 / C02 / C03 / C16 "all message counts and sizes": several hundred EMPTY or ONE-BYTE messages submitted in one
/// tick, so that one small-message packet carries hundreds of messages (the count field of the packet crosses one byte:
/// 255 / 256 / 257 … 1200 messages per packet), over a network that loses nothing; judged by the prefix / exactly-once
/// and heal-phase liveness oracles (seeded C01w: a one-byte count says "0 messages" for a packet of 256, the packet is
/// acknowledged and its messages are gone). Fixed op lists: every delivery round hands over the whole emission history so
/// far (indices beyond it answer `nohist` on both sides alike), i.e. nothing is ever lost, older datagrams arrive again.
const BURST_N: usize = 9;

fn burst_ops(case: usize) -> Vec<String> {
    let c = default_chans();
    let mut ops: Vec<String> = vec![cfg_line(60_000, &c, &c), "cli 0".into(), "add 100".into(), "setc 0".into()];
    // (sender, channel, messages, payload length, messages exchanged and acknowledged before the burst)
    let bursts: Vec<(&str, u8, usize, usize, usize)> = match case {
        0 => vec![("c0", 2, 400, 1, 0)],
        1 => vec![("c0", 2, 1000, 0, 0)],
        2 => vec![("c0", 1, 400, 1, 0)],
        3 => vec![("s100", 1, 700, 0, 0)],
        4 => vec![("s100", 2, 300, 1, 100)], // ids >= 64: 4 bytes per message, 256 of them still fit one packet
        5 => vec![("c0", 0, 600, 1, 0)],
        6 => vec![("s100", 0, 1300, 0, 0)], // 1200 empty unreliable messages fill one packet
        7 => vec![("c0", 2, 256, 1, 0), ("s100", 2, 257, 0, 0), ("s100", 1, 255, 1, 0)],
        _ => vec![("c0", 2, 300, 0, 0), ("c0", 1, 300, 1, 0), ("c0", 0, 300, 1, 0), ("s100", 2, 520, 1, 0), ("s100", 0, 300, 0, 0)],
    };
    let body = |tag: usize, i: usize, len: usize| -> Vec<u8> { (0..len).map(|k| ((i + 7 * tag + k) % 251) as u8).collect() };
    let round = |ops: &mut Vec<String>, dt: u64| {
        ops.push(format!("upd c0 {}", dt));
        ops.push(format!("upd srv {}", dt));
        ops.push("flush c0".into());
        ops.push("flush s100".into());
        for k in 0..14 {
            ops.push(format!("dlv s100 c0 {}", k));
        }
        for k in 0..14 {
            ops.push(format!("dlv c0 s100 {}", k));
        }
    };
    let drain_all = |ops: &mut Vec<String>, list: &[(&str, u8, usize)]| {
        for (from, ch, n) in list {
            let to = peer_of(from).unwrap();
            for _ in 0..n + 1 {
                ops.push(format!("recv {} {}", to, ch));
            }
        }
    };
    // warm-up traffic, obtained and acknowledged
    let warm: Vec<(&str, u8, usize)> = bursts.iter().filter(|b| b.4 > 0).map(|b| (b.0, b.1, b.4)).collect();
    if !warm.is_empty() {
        for (from, ch, n) in warm.iter() {
            for i in 0..*n {
                ops.push(format!("send {} {} {}", from, ch, hex(&body(100, i, 3))));
            }
        }
        round(&mut ops, 16_000);
        drain_all(&mut ops, &warm);
        round(&mut ops, 16_000);
        round(&mut ops, 16_000);
    }
    // the burst: everything in one tick
    for (tag, (from, ch, n, len, _)) in bursts.iter().enumerate() {
        for i in 0..*n {
            ops.push(format!("send {} {} {}", from, ch, hex(&body(tag, i, *len))));
        }
    }
    let all: Vec<(&str, u8, usize)> = bursts.iter().map(|b| (b.0, b.1, b.2)).collect();
    round(&mut ops, 16_000);
    drain_all(&mut ops, &all);
    ops.push("dump c0".into());
    ops.push("dump s100".into());
    // a working network, longer than the resend time per round
    for _ in 0..4 {
        round(&mut ops, 301_000);
    }
    drain_all(&mut ops, &all);
    ops.push("stat c0".into());
    ops.push("stat s100".into());
    ops.push("note healed".into());
    ops.push("dump c0".into());
    ops.push("dump s100".into());
    ops
}

/// C03 / C11 "obtained on channel c ⇒ submitted on channel c" with channel ids above 31: every delivery kind has two
/// channels whose ids are congruent modulo 32 / 64 / 128 (unreliable {1, 33}, ordered {2, 34}, unordered {3, 131}, …), in
/// one direction or both; small, packed and sliced messages with stamped position-dependent payloads; traffic on the high
/// ids only, on the low ids only, or on both at once; mild network faults, then a lossless phase (seeded C03w: type and
/// channel id share one header byte, ids ≥ 32 arrive as id mod 32).
fn script_alias(rng: &mut Rng, tier: Tier, ex: &mut dyn FnMut(&str) -> String) {
    let layout = |rng: &mut Rng| -> Vec<Chan> {
        let modulus = rng.pick(&[32u16, 32, 64, 128]);
        let mut lows: Vec<u8> = (0..8u8).collect();
        let mut v = vec![];
        for kind in ["U", "RO", "RU"] {
            let low = lows.remove(rng.below(lows.len() as u64) as usize);
            let steps = (255 - low as u16) / modulus;
            let high = (low as u16 + modulus * rng.range(1, steps as u64) as u16) as u8;
            let resend_us = if kind == "U" { 0 } else { rng.pick(&[50_000u64, 100_000, 300_000]) };
            v.push(Chan { id: low, kind, max_mem: 5 * 1024 * 1024, resend_us });
            v.push(Chan { id: high, kind, max_mem: 5 * 1024 * 1024, resend_us });
        }
        for i in (1..v.len()).rev() {
            let j = rng.below(i as u64 + 1) as usize;
            v.swap(i, j);
        }
        v
    };
    let sc = layout(rng);
    let cc = if rng.chance(1, 2) { sc.clone() } else { layout(rng) };
    ex(&cfg_line(60_000, &sc, &cc));
    ex("cli 0");
    ex("add 100");
    ex("setc 0");
    // which of the two ids of a kind carry traffic: 0 = the high ones only, 1 = both, 2 = the low ones only
    let mode = rng.pick(&[0u8, 0, 1, 1, 2]);
    let carries = |c: &Chan, all: &[Chan]| -> bool {
        let high = all.iter().any(|o| o.kind == c.kind && o.id < c.id);
        mode == 1 || (mode == 0) == high
    };
    let ticks = if tier == Tier::Quick { rng.range(2, 6) } else { rng.range(3, 12) };
    let dt = rng.pick(&[16_000u64, 100_000, 301_000]);
    let loss = rng.pick(&[0u64, 0, 15]);
    let dup = rng.pick(&[0u64, 0, 20]);
    let delay = rng.pick(&[0u64, 0, 30]);
    let shuffle = rng.chance(1, 2);
    let sizes: &[usize] = &[0, 1, 5, 5, 40, 300, 1199, 1200, 1201, 2400, 2401, 3000];
    let mut net = Net::new();
    let mut ctr = 0u32;
    let mut sent_bytes = 0u64;
    for tick in 0..ticks {
        for (from, chans) in [("c0", &cc), ("s100", &sc)] {
            for _ in 0..rng.below(5) {
                let c = rng.pick(chans);
                if !carries(&c, chans) {
                    continue;
                }
                let n = rng.pick(sizes);
                sent_bytes += n as u64;
                let m = stamped(rng, n, &mut ctr);
                ex(&format!("send {} {} {}", from, c.id, hex(&m)));
            }
        }
        ex(&format!("upd c0 {}", dt));
        ex(&format!("upd srv {}", dt));
        net.flush(rng, ex, "c0", "s100", tick, loss, dup, delay);
        net.flush(rng, ex, "s100", "c0", tick, loss, dup, delay);
        net.deliver_due(rng, ex, tick, shuffle);
        for c in cc.iter() {
            drain(ex, "s100", c.id, rng.range(1, 6) as usize);
        }
        for c in sc.iter() {
            drain(ex, "c0", c.id, rng.range(1, 6) as usize);
        }
        if rng.chance(1, 3) {
            ex("dump c0");
            ex("dump s100");
        }
    }
    // lossless phase
    let need = 2 * sent_bytes / 60_000 + 5;
    let mut t = ticks + 10;
    net.deliver_due(rng, ex, t, false);
    for _ in 0..need {
        t += 1;
        ex("upd c0 301000");
        ex("upd srv 301000");
        net.flush(rng, ex, "c0", "s100", t, 0, 0, 0);
        net.flush(rng, ex, "s100", "c0", t, 0, 0, 0);
        net.deliver_due(rng, ex, t, false);
        for c in cc.iter() {
            drain(ex, "s100", c.id, 10_000);
        }
        for c in sc.iter() {
            drain(ex, "c0", c.id, 10_000);
        }
    }
    ex("stat c0");
    ex("stat s100");
    ex("note healed");
    ex("dump c0");
    ex("dump s100");
}

/// C06 "every field-boundary value of … slice count … injected at any point of a live session (fresh, mid-reassembly, with
/// messages buffered, after drains)": bounded sweep of ONE hostile slice packet whose announced slice count lies around the
/// places where `count * 1200` (+ the bytes the channel already accounts) leaves a machine word — usize::MAX / 1200 ± a few
/// and ± what a 40 000-byte channel can account, half of it, 2^32-sized totals, 2^53, 2^60, 2^62 − 1 — next to the parser's
/// cap (10^6) and the budget boundary (33 / 34 slices, 13 / 14 next to a partial reassembly of 20); target = server connection or client; reliable ordered / unordered / unreliable
/// channel; receive channel fresh, holding an out-of-order or undrained small message, several undrained messages, a partial
/// reassembly, or drained. A well-behaved pair on the same server keeps working (seeded C06w: without the cap the budget test
/// `accounted + count * 1200` overflows as soon as ≥ 16 bytes are accounted).
const SLICECOUNT_W: u64 = u64::MAX / 1200; // 15 372 286 728 091 293: the largest count whose total size fits 64 bits
const SLICECOUNTS: [u64; 26] = [
    SLICECOUNT_W,
    SLICECOUNT_W - 1,
    SLICECOUNT_W - 2,
    SLICECOUNT_W - 19,
    SLICECOUNT_W - 20,
    SLICECOUNT_W - 33,
    SLICECOUNT_W - 34,
    SLICECOUNT_W - 5000,
    SLICECOUNT_W + 1,
    SLICECOUNT_W + 4000,
    SLICECOUNT_W / 2,
    SLICECOUNT_W / 2 + 1,
    SLICECOUNT_W / 2 - 1,
    u32::MAX as u64 / 1200,
    u32::MAX as u64 / 1200 + 1,
    1 << 32,
    1 << 53,
    (1 << 53) + 1,
    1 << 60,
    (1 << 62) - 1,
    1_000_000,
    1_000_001,
    33,
    34,
    13,
    14,
];
const SLICECOUNT_N: usize = 2 * 3 * 5 * 26 * 2;

fn slicecount_ops(mut case: usize) -> Vec<String> {
    let mut take = |n: usize| -> usize {
        let v = case % n;
        case /= n;
        v
    };
    let n = SLICECOUNTS[take(26)];
    let state = take(5);
    let (ty, ch) = [(2u8, 2u8), (2, 1), (3, 0)][take(3)];
    let last = take(2) == 1;
    let to = ["s100", "c0"][take(2)];
    // (small budgets: the list-based model materialises every reassembly buffer it accepts)
    let mut chans = default_chans();
    for c in chans.iter_mut() {
        c.max_mem = 40_000;
    }
    let mut ops: Vec<String> = vec![cfg_line(60_000, &chans, &chans)];
    for h in 0..2 {
        ops.push(format!("cli {}", h));
        ops.push(format!("add {}", 100 + h));
        ops.push(format!("setc {}", h));
    }
    // small-message packet (type 0 with ids from `first`, or type 1)
    let small = |seq: u64, first: u64, msgs: &[Vec<u8>]| -> String {
        let mut b = vec![if ty == 2 { 0u8 } else { 1 }];
        b.extend(varint(seq));
        b.push(ch);
        b.extend((msgs.len() as u16).to_be_bytes());
        for (k, m) in msgs.iter().enumerate() {
            if ty == 2 {
                b.extend(varint(first + k as u64));
            }
            b.extend(varint(m.len() as u64));
            b.extend(m);
        }
        hex(&b)
    };
    match state {
        1 => {
            // one small message waits: for its predecessor (ordered), for the application (unordered, unreliable)
            ops.push(format!("raw {} {}", to, small(1, 1, &[pat(32, 1)])));
            if ch == 2 {
                ops.push(format!("recv {} {}", to, ch));
            }
        }
        2 => ops.push(format!("raw {} {}", to, small(1, 0, &[pat(500, 1), pat(500, 2), pat(500, 3)]))),
        3 => ops.push(format!("raw {} {}", to, slice_pkt(ty, 1, ch, 0, 0, 20, &pat(1200, 4)))),
        4 => {
            ops.push(format!("raw {} {}", to, small(1, 0, &[pat(32, 5)])));
            ops.push(format!("recv {} {}", to, ch));
        }
        _ => {}
    }
    ops.push(format!("dump {}", to));
    let (idx, payload) = if last { (n - 1, pat(10, 6)) } else { (0, pat(1200, 7)) };
    ops.push(format!("raw {} {}", to, slice_pkt(ty, 9, ch, 5, idx, n, &payload)));
    ops.push(format!("stat {}", to));
    ops.push(format!("dump {}", to));
    ops.push(format!("recv {} {}", to, ch));
    ops.push(format!("upd {} 16000", if to == "c0" { "c0" } else { "srv" }));
    ops.push(format!("flush {}", to));
    ops.push(format!("stat {}", to));
    // the endpoint and the other connection keep working
    ops.push(format!("send c1 2 {}", hex(&pat(24, 8))));
    ops.push(format!("send s101 2 {}", hex(&pat(100, 9))));
    ops.push("upd c1 16000".into());
    ops.push("upd srv 16000".into());
    ops.push("flush c1".into());
    ops.push("flush s101".into());
    ops.push("dlv s101 c1 0".into());
    ops.push("dlv c1 s101 0".into());
    ops.push("recv s101 2".into());
    ops.push("recv c1 2".into());
    ops.push("stat c1".into());
    ops.push("stat s101".into());
    ops.push("note healed".into());
    ops.push("ids".into());
    ops.push(format!("avail {} {}", to, ch));
    ops
}

/// The recorded finding K2 (C16): `send_message` admits a message longer than 1 000 000 slices when the channel budget allows
/// it; every slice packet built for it serialises and is rejected by the library's own decoder. Implementation only
/// (`IMPL_ONLY_PROFILES` in common.rs: a 1.2 GB message does not travel through the line protocol; the statement is proved for
/// every such message on the Lean side). One case, quick tier included; the message is allocated once (`sendfill`) and freed
/// with the world.
fn known_ops(_case: usize) -> Vec<String> {
    let c = vec![Chan { id: 0, kind: "RO", max_mem: 3 << 30, resend_us: 300_000 }];
    vec![
        cfg_line(60_000, &c, &c),
        "cli 0".into(),
        "add 100".into(),
        "setc 0".into(),
        "sendfill c0 0 1200000001 7".into(),
        "upd c0 16000".into(),
        "flush c0".into(),
        "dlv s100 c0 0".into(),
        "stat s100".into(),
        "stat c0".into(),
    ]
}

/// C15 / C08 with a reliable message of MORE than 65 536 slices (seeded C15y: the sent-packet record keeps the slice index in
/// 16 bits, the acknowledgement of the packet carrying slice 65 536 is applied to slice 0 and slice 65 536 is retransmitted
/// for ever). Implementation only (78.6 MB do not travel through the line protocol or the list-based model): one ordered
/// channel with a 100 MB budget, 1 000 slices per tick, every datagram delivered and acknowledged in the same tick, then four
/// ticks of 200 ms (two resend periods and more) in which nothing but ack packets may be emitted. The delivery indices are
/// those of the unchanged tree (tick 0: 1 000 datagrams, then 1 000 slices + 1 ack packet per tick).
fn slice_wrap_ops(_case: usize) -> Vec<String> {
    let c = vec![Chan { id: 0, kind: "RO", max_mem: 100 * 1024 * 1024, resend_us: 300_000 }];
    let mut ops: Vec<String> = vec![cfg_line(1_200_000, &c, &c), "cli 0".into(), "add 100".into(), "setc 0".into()];
    ops.push(format!("sendfill c0 0 {} 7", 65_536 * 1200 + 1));
    let mut next = 0usize; // datagrams of c0 handed over so far
    let mut acks = 0usize; // datagrams of s100 handed over so far
    for t in 0..66 {
        ops.push("upd c0 1000".into());
        ops.push("upd srv 1000".into());
        ops.push("flush c0".into());
        let n = if t == 0 { 1000 } else if t < 65 { 1001 } else { 538 };
        for k in next..next + n {
            ops.push(format!("dlv s100 c0 {}", k));
        }
        next += n;
        ops.push("flush s100".into());
        ops.push(format!("dlv c0 s100 {}", acks));
        acks += 1;
    }
    ops.push("recvn s100 0 2".into());
    ops.push("stat c0".into());
    ops.push("stat s100".into());
    for _ in 0..4 {
        ops.push("upd c0 200000".into());
        ops.push("upd srv 200000".into());
        ops.push("flush c0".into());
        for k in next..next + 3 {
            ops.push(format!("dlv s100 c0 {}", k));
        }
        next += 1;
        ops.push("flush s100".into());
        ops.push(format!("dlv c0 s100 {}", acks));
        acks += 1;
    }
    ops.push("avail c0 0".into());
    ops.push("stat c0".into());
    ops.push("stat s100".into());
    ops
}

pub fn profiles() -> Vec<Profile> {
    vec![Profile {
        name: "rn-slice-wrap",
        props: &["C15", "C08"],
        cases: |_| 1,
        new_world,
        script: script_none,
        nontrivial: |_| true,
        // never shrunk: every re-execution moves 80 MB through the pair again
        keep: |ops| ops.len(),
        fixed: Some(slice_wrap_ops),
    },
    Profile {
        name: "rn-known",
        props: &["C16"],
        cases: |_| 1,
        new_world,
        script: script_none,
        nontrivial: |_| true,
        // never shrunk: every re-execution allocates the 1.2 GB message again
        keep: |ops| ops.len(),
        fixed: Some(known_ops),
    },
    Profile {
        name: "rn-regress",
        props: &["C06", "C09", "C12", "C13", "C02"],
        cases: |_| REGRESS_N,
        new_world,
        script: script_none,
        nontrivial: |_| true,
        keep: |_| 0,
        fixed: Some(regress_ops),
    },
    Profile {
        name: "rn-pair-smallbudget",
        props: &["C14", "C15"],
        cases: |t| if t == Tier::Quick { 24 } else { 300 },
        new_world,
        script: script_small_budget,
        nontrivial: |_| true,
        keep: keep_cfg,
        fixed: None,
    },
    Profile {
        name: "rn-timing-overflow",
        props: &["C15", "C08"],
        cases: |t| if t == Tier::Quick { 24 } else { 300 },
        new_world,
        script: script_overflow_ack,
        nontrivial: |_| true,
        keep: keep_cfg,
        fixed: None,
    },
    Profile {
        name: "rn-timing-manyranges",
        props: &["C15", "C08", "C01", "C02"],
        cases: |t| if t == Tier::Quick { 12 } else { 120 },
        new_world,
        script: script_many_ranges,
        nontrivial: |_| true,
        keep: keep_cfg,
        fixed: None,
    },
    Profile {
        name: "rn-multi-ackgap",
        props: &["C11", "C08", "C01", "C02"],
        cases: |t| if t == Tier::Quick { 12 } else { 100 },
        new_world,
        script: script_ack_gap,
        nontrivial: |_| true,
        keep: keep_cfg,
        fixed: None,
    },
    Profile {
        name: "rn-hostile",
        props: &["C06", "C09", "C11", "C12", "C13"],
        cases: |t| if t == Tier::Quick { 400 } else { 8000 },
        new_world,
        script: script_hostile,
        nontrivial: |t| t.ops.iter().any(|o| o.starts_with("raw ") || o.starts_with("dlvm ")),
        keep: keep_cfg,
        fixed: None,
    },
    Profile {
        name: "rn-api",
        props: &["C12", "C06", "C11"],
        cases: |t| if t == Tier::Quick { 500 } else { 10000 },
        new_world,
        script: script_api,
        nontrivial: |t| t.outs.iter().any(|o| o.starts_with("disconnected ")),
        keep: |_| 1,
        fixed: None,
    },
    Profile {
        name: "rn-multi",
        props: &["C11", "C01", "C02", "C03", "C13", "C14"],
        cases: |t| if t == Tier::Quick { 120 } else { 2000 },
        new_world,
        script: script_multi,
        nontrivial: |t| t.ops.iter().any(|o| o.starts_with("bcast")) && t.outs.iter().any(|o| o.starts_with("msg ")),
        keep: keep_cfg,
        fixed: None,
    },
    Profile {
        name: "rn-sweep-acks",
        props: &["C16", "C08"],
        cases: |_| SWEEP_ACKS_N,
        new_world,
        script: script_none,
        nontrivial: |t| t.ops.len() > 5,
        keep: |_| 2,
        fixed: Some(sweep_acks_ops),
    },
    Profile {
        name: "rn-huge-o",
        props: &["C01"],
        cases: |t| if t == Tier::Quick { 0 } else { 1 },
        new_world,
        script: script_huge_o,
        nontrivial: |t| t.outs.iter().any(|o| o.starts_with("msgs ") && !o.starts_with("msgs 0 ")),
        keep: keep_cfg,
        fixed: None,
    },
    Profile {
        name: "rn-huge",
        props: &["C02"],
        // one case costs minutes in the list-based model (70 000 queued messages): thorough tier only
        cases: |t| if t == Tier::Quick { 0 } else { 1 },
        new_world,
        script: script_huge_u,
        nontrivial: |t| t.outs.iter().any(|o| o.starts_with("msgs ") && !o.starts_with("msgs 0 ")),
        keep: keep_cfg,
        fixed: None,
    },
    Profile {
        name: "rn-unrel",
        props: &["C03", "C14", "C09", "C11", "C13", "C15"],
        cases: |t| if t == Tier::Quick { 200 } else { 3000 },
        new_world,
        script: script_unrel,
        nontrivial: |t| t.outs.iter().any(|o| o.starts_with("msg ")),
        keep: keep_cfg,
        fixed: None,
    },
    Profile {
        name: "rn-bigmsg",
        props: &["C03"],
        cases: |t| if t == Tier::Quick { 4 } else { 40 },
        new_world,
        script: script_bigmsg,
        nontrivial: |t| t.outs.iter().filter(|o| o.starts_with("msg ")).count() >= 2,
        keep: keep_cfg,
        fixed: None,
    },
    Profile {
        name: "rn-tight",
        props: &["C01", "C02", "C09", "C06", "C15"],
        cases: |t| if t == Tier::Quick { 300 } else { 5000 },
        new_world,
        script: script_tight,
        nontrivial: |t| t.outs.iter().any(|o| o.starts_with("msg ") || o.starts_with("disconnected")),
        keep: keep_cfg,
        fixed: None,
    },
    Profile {
        name: "rn-sweep-slices",
        props: &["C06", "C09"],
        cases: |_| SWEEP_SLICES_N,
        new_world,
        script: script_none,
        nontrivial: |_| true,
        keep: |_| 5,
        fixed: Some(sweep_slices_ops),
    },
    Profile {
        name: "rn-volume-acks",
        props: &["C15", "C08"],
        cases: |_| 2,
        new_world,
        script: script_none,
        nontrivial: |_| true,
        keep: |_| 4,
        fixed: Some(|c| volume_ops(c)),
    },
    Profile {
        name: "rn-volume-seq",
        props: &["C13", "C16"],
        cases: |_| 5,
        new_world,
        script: script_none,
        nontrivial: |_| true,
        keep: |_| 4,
        fixed: Some(|c| volume_ops(if c < 2 { 2 + c } else { 6 + c })),
    },
    Profile {
        name: "rn-volume-mixed",
        props: &["C01", "C02", "C08", "C13", "C11"],
        cases: |_| 4,
        new_world,
        script: script_none,
        nontrivial: |_| true,
        keep: |_| 4,
        fixed: Some(|c| volume_ops(4 + c)),
    },
    Profile {
        name: "rn-volume-burst",
        props: &["C01", "C02", "C03", "C08", "C16"],
        cases: |_| BURST_N,
        new_world,
        script: script_none,
        nontrivial: |_| true,
        // the liveness verdict rests on the delivery rounds of the op list: nothing of it may be shrunk away
        keep: |ops| ops.len(),
        fixed: Some(burst_ops),
    },
    Profile {
        name: "rn-pair-alias",
        props: &["C03", "C11"],
        cases: |t| if t == Tier::Quick { 60 } else { 1500 },
        new_world,
        script: script_alias,
        nontrivial: nontrivial_pair,
        keep: keep_cfg,
        fixed: None,
    },
    Profile {
        name: "rn-hostile-slicecount",
        props: &["C06", "C09"],
        cases: |_| SLICECOUNT_N,
        new_world,
        script: script_none,
        nontrivial: |_| true,
        keep: |_| 7,
        fixed: Some(slicecount_ops),
    },
    Profile {
        name: "rn-sweep-triples",
        props: &["C06", "C09"],
        cases: |_| SWEEP_TRIPLES_N,
        new_world,
        script: script_none,
        nontrivial: |_| true,
        keep: |_| 5,
        fixed: Some(sweep_triples_ops),
    },
    Profile {
        name: "rn-local-rejoin",
        props: &["C11", "C12"],
        cases: |_| LOCAL_REJOIN_N,
        new_world,
        script: script_none,
        nontrivial: |_| true,
        keep: |_| 4,
        fixed: Some(local_rejoin_ops),
    },
    Profile {
        name: "rn-events-burst",
        props: &["C12", "C11"],
        cases: |_| 3,
        new_world,
        script: script_none,
        nontrivial: |_| true,
        keep: |_| 1,
        fixed: Some(events_burst_ops),
    },
    Profile {
        name: "rn-sweep-acks-cap",
        props: &["C16", "C08", "C13"],
        cases: |_| SWEEP_CAP_N,
        new_world,
        script: script_none,
        nontrivial: |_| true,
        keep: |_| 2,
        fixed: Some(sweep_cap_ops),
    },
    Profile {
        name: "rn-acks",
        props: &["C08", "C01", "C02", "C06", "C13", "C16", "C09", "C15"],
        cases: |t| if t == Tier::Quick { 40 } else { 600 },
        new_world,
        script: script_acks,
        nontrivial: |t| t.outs.iter().any(|o| o.starts_with("seq=") && head_field(o, "acks").map(|a| a.split(';').count() >= 60).unwrap_or(false)),
        keep: keep_cfg,
        fixed: None,
    },
    Profile {
        name: "rn-timing",
        props: &["C15", "C08", "C01", "C02", "C09", "C13", "C14"],
        cases: |t| if t == Tier::Quick { 200 } else { 3000 },
        new_world,
        script: script_timing,
        nontrivial: |t| t.outs.iter().filter(|o| o.starts_with("pkts ") && !o.starts_with("pkts 0")).count() > 3,
        keep: keep_cfg,
        fixed: None,
    },
    Profile {
        name: "rn-long",
        props: &["C13", "C16", "C01", "C02", "C09", "C08"],
        cases: |t| if t == Tier::Quick { 2 } else { 12 },
        new_world,
        script: script_long,
        nontrivial: |t| t.ops.len() > 10_000,
        keep: keep_cfg,
        fixed: None,
    },
    Profile {
        name: "rn-wire",
        props: &["C16", "C13", "C08"],
        cases: |t| if t == Tier::Quick { 600 } else { 20000 },
        new_world,
        script: script_wire,
        nontrivial: |t| t.outs.iter().any(|o| o.starts_with("SR ") || o.starts_with("SU ") || o.starts_with("RS ") || o.starts_with("US ") || o.starts_with("AK ")),
        keep: |_| 0,
        fixed: None,
    },
    Profile {
        name: "rn-pair",
        props: &["C01", "C02", "C03", "C06", "C08", "C09", "C11", "C13", "C14", "C15"],
        cases: |t| if t == Tier::Quick { 300 } else { 4000 },
        new_world,
        script: script_pair,
        nontrivial: nontrivial_pair,
        keep: keep_cfg,
        fixed: None,
    }]
}

// ---------------------------------------------------------------------------------------------
// trace parsing
// ---------------------------------------------------------------------------------------------

#[derive(Default, Clone)]
pub struct Cfg {
    pub budget: u64,
    pub server: Vec<(u8, String, usize, u64)>,
    pub client: Vec<(u8, String, usize, u64)>,
}

pub fn parse_cfg(op: &str) -> Option<Cfg> {
    let t: Vec<&str> = op.split(' ').collect();
    if t.len() < 4 || t[0] != "cfg" {
        return None;
    }
    let mut c = Cfg { budget: t[1].parse().ok()?, ..Default::default() };
    let ns: usize = t[3].parse().ok()?;
    let mut i = 4;
    for _ in 0..ns {
        c.server.push((t[i].parse().ok()?, t[i + 1].to_string(), t[i + 2].parse().ok()?, t[i + 3].parse().ok()?));
        i += 4;
    }
    let nc: usize = t[i + 1].parse().ok()?;
    i += 2;
    for _ in 0..nc {
        c.client.push((t[i].parse().ok()?, t[i + 1].to_string(), t[i + 2].parse().ok()?, t[i + 3].parse().ok()?));
        i += 4;
    }
    Some(c)
}

/// peer of an endpoint name under the c<h> <-> s<100+h> convention
pub fn peer_of(who: &str) -> Option<String> {
    if let Some(h) = who.strip_prefix('c') {
        let h: u64 = h.parse().ok()?;
        return Some(format!("s{}", 100 + h));
    }
    if let Some(id) = who.strip_prefix('s') {
        let id: u64 = id.parse().ok()?;
        if id >= 100 {
            return Some(format!("c{}", id - 100));
        }
    }
    None
}

/// kind of channel `ch` for messages *sent by* `who`
pub fn send_kind(cfg: &Cfg, who: &str, ch: u8) -> Option<String> {
    let list = if who.starts_with('c') { &cfg.client } else { &cfg.server };
    list.iter().find(|c| c.0 == ch).map(|c| c.1.clone())
}

/// C16 / C08 on live connections: "an ack packet denotes exactly the set recorded as received". Wherever a `dump X` is
/// directly followed by `flush X` and the flush emitted at least one datagram, the recorded set is the dump's `acks=[…]`
/// (hook `verif_dump`, read-only) and the datagrams are read with the independent wire reader: a non-empty recorded set
/// must appear as exactly one Ack packet, the last datagram of the flush, with exactly those ranges — whatever the channels
/// used of the tick budget —; an empty one as no Ack packet at all. (A flush without datagrams is not judged: a
/// disconnected connection emits nothing.)
fn oracle_ack_is_recorded_set(ops: &[String], outs: &[String]) -> Option<OracleFail> {
    for i in 1..ops.len() {
        let who = match ops[i].strip_prefix("flush ") {
            Some(w) => w,
            None => continue,
        };
        if ops[i - 1] != format!("dump {}", who) || !outs[i - 1].starts_with("seq=") {
            continue;
        }
        let pk = flush_packets(&outs[i]);
        if pk.is_empty() {
            continue;
        }
        let recorded = head_field(&outs[i - 1], "acks").unwrap_or("");
        let mut acks: Vec<(usize, String)> = vec![];
        let mut undecodable = false;
        for (k, p) in pk.iter().enumerate() {
            match decode(p) {
                Some(WPacket::Ack { ack_ranges, .. }) => {
                    let r: Vec<String> = ack_ranges.iter().map(|r| format!("{}-{}", r.start, r.end)).collect();
                    acks.push((k, r.join(";")));
                }
                Some(_) => {}
                None => undecodable = true,
            }
        }
        if undecodable {
            continue; // judged by the wire oracles
        }
        if recorded.is_empty() {
            if !acks.is_empty() {
                return fail(i, "ack-without-recorded-set", format!("{} emitted an ack packet [{}] although nothing is recorded as received", who, acks[0].1));
            }
            continue;
        }
        if acks.len() != 1 || acks[0].0 != pk.len() - 1 {
            return fail(i, "ack-packet-missing", format!("{} has [{}] recorded as received but its flush of {} datagrams carries {} ack packets (expected exactly one, last)", who, &recorded[..recorded.len().min(120)], pk.len(), acks.len()));
        }
        if acks[0].1 != recorded {
            return fail(i, "ack-not-the-recorded-set", format!("{} has [{}] recorded as received but its ack packet says [{}]", who, &recorded[..recorded.len().min(160)], &acks[0].1[..acks[0].1.len().min(160)]));
        }
    }
    None
}

fn fail(at: usize, sig: &str, what: String) -> Option<OracleFail> {
    Some(OracleFail { at, what, signature: sig.to_string() })
}

/// C01: on every ordered channel the obtained sequence is a prefix of the submitted one;
/// after `note healed` with both ends connected, everything submitted was obtained.
fn oracle_c01(ops: &[String], outs: &[String]) -> Option<OracleFail> {
    reliable_oracle(ops, outs, "RO", None)
}

/// the same two oracles restricted to the bystander pair c1 / s101 of `rn-hostile` (C06 "the server's other connections
/// keep working", C11 "misbehaviour of one client never delays, drops or corrupts traffic of other clients")
fn oracle_c01_bystander(ops: &[String], outs: &[String]) -> Option<OracleFail> {
    reliable_oracle(ops, outs, "RO", Some(&["c1", "s101"]))
}

fn oracle_c02_bystander(ops: &[String], outs: &[String]) -> Option<OracleFail> {
    reliable_oracle(ops, outs, "RU", Some(&["c1", "s101"]))
}

/// C02: on every unordered channel each obtained message equals a submitted one not obtained
/// before (multiset inclusion, byte-identical); liveness as C01.
fn oracle_c02(ops: &[String], outs: &[String]) -> Option<OracleFail> {
    reliable_oracle(ops, outs, "RU", None)
}

fn reliable_oracle(ops: &[String], outs: &[String], kind: &str, only: Option<&[&str]>) -> Option<OracleFail> {
    let judged = |who: &str| only.map(|l| l.contains(&who)).unwrap_or(true);
    let mut cfg = Cfg::default();
    // (sender, ch) -> submitted messages (hex), and per entry whether it was obtained
    let mut submitted: HashMap<(String, u8), Vec<(String, bool)>> = HashMap::new();
    let mut obtained_n: HashMap<(String, u8), usize> = HashMap::new();
    let mut status: HashMap<String, String> = HashMap::new();
    let mut connected_ids: Vec<String> = vec![];
    // endpoints that were fed anything but their peer's genuine packets are outside the quantifier
    let mut tainted: std::collections::HashSet<String> = Default::default();
    for (i, (op, out)) in ops.iter().zip(outs.iter()).enumerate() {
        let t: Vec<&str> = op.split(' ').collect();
        match t[0] {
            "cfg" => {
                if let Some(c) = parse_cfg(op) {
                    cfg = c
                }
            }
            "raw" | "dlvm" if t.len() > 1 => {
                tainted.insert(t[1].to_string());
                if let Some(p) = peer_of(t[1]) {
                    tainted.insert(p);
                }
            }
            "dlv" if t.len() == 4 => {
                if peer_of(t[1]).as_deref() != Some(t[2]) {
                    tainted.insert(t[1].to_string());
                    if let Some(p) = peer_of(t[1]) {
                        tainted.insert(p);
                    }
                }
            }
            "send" if t.len() == 4 => {
                if let Ok(ch) = t[2].parse::<u8>() {
                    if send_kind(&cfg, t[1], ch).as_deref() == Some(kind) {
                        submitted.entry((t[1].to_string(), ch)).or_default().push((t[3].to_string(), false));
                    }
                }
            }
            "ids" => {
                // `ids [a,b] disc [c]`
                if let Some(l) = out.strip_prefix("ids [").and_then(|r| r.split(']').next()) {
                    connected_ids = l.split(',').filter(|x| !x.is_empty()).map(|x| x.to_string()).collect();
                }
            }
            "bcast" | "bcastx" => {
                let (ex_id, ch, m) = if t[0] == "bcast" && t.len() == 3 { ("", t[1], t[2]) } else if t.len() == 4 { (t[1], t[2], t[3]) } else { continue };
                if let Ok(ch) = ch.parse::<u8>() {
                    for id in connected_ids.iter() {
                        if id == ex_id {
                            continue;
                        }
                        let who = format!("s{}", id);
                        if send_kind(&cfg, &who, ch).as_deref() == Some(kind) {
                            submitted.entry((who, ch)).or_default().push((m.to_string(), false));
                        }
                    }
                }
            }
            "recv" if t.len() == 3 && out.starts_with("msg ") => {
                if tainted.contains(t[1]) || !judged(t[1]) {
                    continue;
                }
                let ch: u8 = t[2].parse().ok()?;
                let sender = match peer_of(t[1]) {
                    Some(p) => p,
                    None => continue,
                };
                if send_kind(&cfg, &sender, ch).as_deref() != Some(kind) {
                    continue;
                }
                let m = &out[4..];
                let key = (sender.clone(), ch);
                let sub = submitted.entry(key.clone()).or_default();
                if kind == "RO" {
                    let n = *obtained_n.get(&key).unwrap_or(&0);
                    if n >= sub.len() {
                        return fail(i, "ordered-extra", format!("{} obtained a message on ordered channel {} beyond the {} submitted", t[1], ch, sub.len()));
                    }
                    if sub[n].0 != m {
                        return fail(i, "ordered-not-prefix", format!("{} obtained message #{} on ordered channel {} that differs from submitted #{}", t[1], n, ch, n));
                    }
                    obtained_n.insert(key, n + 1);
                } else {
                    match sub.iter_mut().find(|e| !e.1 && e.0 == m) {
                        Some(e) => e.1 = true,
                        None => {
                            return fail(i, "unordered-dup-or-fabricated", format!("{} obtained a message on unordered channel {} that was not submitted or was already obtained", t[1], ch));
                        }
                    }
                    *obtained_n.entry(key).or_insert(0) += 1;
                }
            }
            "stat" if t.len() == 2 => {
                status.insert(t[1].to_string(), out.clone());
            }
            "note" if t.len() == 2 && t[1] == "healed" => {
                for ((sender, ch), sub) in submitted.iter() {
                    let recv = match peer_of(sender) {
                        Some(p) => p,
                        None => continue,
                    };
                    if tainted.contains(sender) || tainted.contains(&recv) || !judged(sender) {
                        continue;
                    }
                    let ok_status = |w: &str| status.get(w).map(|s| s == "connected").unwrap_or(false);
                    if !ok_status(sender) || !ok_status(&recv) {
                        continue;
                    }
                    let n = *obtained_n.get(&(sender.clone(), *ch)).unwrap_or(&0);
                    if n != sub.len() {
                        return fail(i, "not-delivered-after-heal", format!("channel {} {}→{}: {} of {} submitted messages obtained after the lossless phase", ch, sender, recv, n, sub.len()));
                    }
                }
            }
            _ => {}
        }
    }
    None
}

/// C02 (second sentence) / C11: "a message is handed over as soon as it is complete, without waiting for older ones".
/// From the trace alone: the flush history tells what every delivered datagram carried; a reliable message is complete at
/// the receiver once a SmallReliable packet carrying it, or every slice of it, was handed to the receiver (`dlv … ok`).
/// Each complete id is handed to the application exactly once, so when `recv X ch` answers `none` the number of messages X
/// obtained on ch so far must be the number of distinct complete ids (unordered), resp. at least the length of the complete
/// prefix 0..m (ordered; only registered under C11: nothing but the stream itself may hold an ordered message back).
/// A verdict waits for a later `stat X` = connected (disconnection is final, so X was connected at the `recv`; a receiver
/// that ran out of channel memory is not judged). Pairs fed anything but the peer's genuine packets are not judged.
fn hol_oracle(ops: &[String], outs: &[String], kinds: &[&str]) -> Option<OracleFail> {
    let mut cfg = Cfg::default();
    let mut hist: HashMap<String, Vec<String>> = HashMap::new();
    let mut tainted: std::collections::HashSet<String> = Default::default();
    let mut seen_endpoint: std::collections::HashSet<String> = Default::default();
    let mut complete: HashMap<(String, u8), std::collections::BTreeSet<u64>> = HashMap::new();
    let mut partial: HashMap<(String, u8, u64), (usize, std::collections::HashSet<usize>)> = HashMap::new();
    let mut obtained: HashMap<(String, u8), usize> = HashMap::new();
    let mut pending: Vec<(String, OracleFail)> = vec![];
    let taint = |set: &mut std::collections::HashSet<String>, who: &str| {
        set.insert(who.to_string());
        if let Some(p) = peer_of(who) {
            set.insert(p);
        }
    };
    for (i, (op, out)) in ops.iter().zip(outs.iter()).enumerate() {
        let t: Vec<&str> = op.split(' ').collect();
        match t[0] {
            "cfg" => {
                if let Some(c) = parse_cfg(op) {
                    cfg = c
                }
            }
            "lnew" | "lproc" | "ldisc" => return None,
            "cli" | "add" if t.len() == 2 => {
                // a second object under the same name starts with fresh message ids: not judged
                let who = if t[0] == "cli" { format!("c{}", t[1]) } else { format!("s{}", t[1]) };
                if !seen_endpoint.insert(who.clone()) {
                    taint(&mut tainted, &who);
                }
            }
            "raw" | "dlvm" if t.len() > 1 => taint(&mut tainted, t[1]),
            "flush" if t.len() == 2 => {
                for p in flush_packets(out) {
                    hist.entry(t[1].to_string()).or_default().push(p.to_string());
                }
            }
            "dlv" if t.len() == 4 => {
                if peer_of(t[1]).as_deref() != Some(t[2]) {
                    taint(&mut tainted, t[1]);
                    continue;
                }
                if out != "ok" || tainted.contains(t[1]) {
                    continue;
                }
                let k: usize = t[3].parse().unwrap_or(usize::MAX);
                match hist.get(t[2]).and_then(|h| h.get(k)).and_then(|p| decode(p)) {
                    Some(WPacket::SmallReliable { channel_id, messages, .. }) => {
                        if send_kind(&cfg, t[2], channel_id).map(|k| kinds.contains(&k.as_str())).unwrap_or(false) {
                            let set = complete.entry((t[1].to_string(), channel_id)).or_default();
                            for (id, _) in messages {
                                set.insert(id);
                            }
                        }
                    }
                    Some(WPacket::ReliableSlice { channel_id, slice, .. }) => {
                        if send_kind(&cfg, t[2], channel_id).map(|k| kinds.contains(&k.as_str())).unwrap_or(false) {
                            let e = partial.entry((t[1].to_string(), channel_id, slice.message_id)).or_insert((slice.num_slices, Default::default()));
                            if e.0 == slice.num_slices && slice.slice_index < e.0 {
                                e.1.insert(slice.slice_index);
                                if e.1.len() == e.0 {
                                    complete.entry((t[1].to_string(), channel_id)).or_default().insert(slice.message_id);
                                }
                            }
                        }
                    }
                    _ => {}
                }
            }
            "recv" if t.len() == 3 => {
                let ch: u8 = match t[2].parse() {
                    Ok(c) => c,
                    Err(_) => continue,
                };
                let key = (t[1].to_string(), ch);
                if out.starts_with("msg ") {
                    *obtained.entry(key).or_insert(0) += 1;
                } else if out == "none" && !tainted.contains(t[1]) {
                    let sender = match peer_of(t[1]) {
                        Some(p) => p,
                        None => continue,
                    };
                    let kind = match send_kind(&cfg, &sender, ch) {
                        Some(k) => k,
                        None => continue,
                    };
                    let got = *obtained.get(&key).unwrap_or(&0);
                    let empty = Default::default();
                    let set = complete.get(&key).unwrap_or(&empty);
                    let (ready, sig) = if kind == "RU" {
                        (set.len(), "complete-message-held-back")
                    } else {
                        let mut m = 0u64;
                        while set.contains(&m) {
                            m += 1;
                        }
                        (m as usize, "complete-ordered-prefix-held-back")
                    };
                    if got < ready && !pending.iter().any(|p| p.0 == t[1]) {
                        pending.push((
                            t[1].to_string(),
                            OracleFail {
                                at: i,
                                signature: sig.into(),
                                what: format!("`{}` (op {}) answered none although {} {} message(s) were completely delivered to {} on channel {} and only {} obtained", op, i, ready, kind, t[1], ch, got),
                            },
                        ));
                    }
                }
            }
            "stat" if t.len() == 2 && out == "connected" => {
                if let Some(pos) = pending.iter().position(|p| p.0 == t[1]) {
                    if !tainted.contains(t[1]) {
                        let mut f = pending.remove(pos).1;
                        f.at = i;
                        return Some(f);
                    }
                }
            }
            _ => {}
        }
    }
    None
}

fn oracle_hol_unordered(ops: &[String], outs: &[String]) -> Option<OracleFail> {
    hol_oracle(ops, outs, &["RU"])
}

fn oracle_hol_any(ops: &[String], outs: &[String]) -> Option<OracleFail> {
    hol_oracle(ops, outs, &["RU", "RO"])
}

/// C03: whatever is obtained on channel c was submitted on channel c of the same connection
/// (any channel kind); unreliable: multiplicity bounded by deliveries is checked by count ≤ number
/// of submissions × max deliveries (conservative: a message obtained more often than the number of
/// times an identical message was submitted requires a duplicated delivery).
fn oracle_c03(ops: &[String], outs: &[String]) -> Option<OracleFail> {
    let mut submitted: HashMap<(String, u8), HashMap<String, usize>> = HashMap::new();
    let mut obtained: HashMap<(String, u8), HashMap<String, usize>> = HashMap::new();
    let mut dup_delivery = false;
    let mut seen_dlv: std::collections::HashSet<String> = std::collections::HashSet::new();
    for (i, (op, out)) in ops.iter().zip(outs.iter()).enumerate() {
        let t: Vec<&str> = op.split(' ').collect();
        match t[0] {
            "send" if t.len() == 4 => {
                if let Ok(ch) = t[2].parse::<u8>() {
                    *submitted.entry((t[1].to_string(), ch)).or_default().entry(t[3].to_string()).or_insert(0) += 1;
                }
            }
            "bcast" | "bcastx" | "lproc" | "raw" | "dlvm" => return None, // other engines' traces: judged by their own oracles
            "dlv" if t.len() == 4 => {
                if !seen_dlv.insert(format!("{} {} {}", t[1], t[2], t[3])) {
                    dup_delivery = true;
                }
            }
            "recv" if t.len() == 3 && out.starts_with("msg ") => {
                let ch: u8 = t[2].parse().ok()?;
                let sender = match peer_of(t[1]) {
                    Some(p) => p,
                    None => continue,
                };
                let m = out[4..].to_string();
                let n_sub = submitted.get(&(sender.clone(), ch)).and_then(|h| h.get(&m)).copied().unwrap_or(0);
                if n_sub == 0 {
                    return fail(i, "not-submitted", format!("{} obtained on channel {} a {}-hex-char message never submitted by {} on that channel", t[1], ch, m.len(), sender));
                }
                let e = obtained.entry((sender.clone(), ch)).or_default().entry(m).or_insert(0);
                *e += 1;
                if *e > n_sub && !dup_delivery {
                    return fail(i, "more-than-delivered", format!("{} obtained a message on channel {} more often ({}) than it was submitted ({}) although no packet was delivered twice", t[1], ch, *e, n_sub));
                }
            }
            _ => {}
        }
    }
    None
}


/// C03 / C11 for every channel kind, broadcasts included, pairs under hostile input excluded:
///  * whatever X obtains on channel c was submitted to X's own connection on channel c — by `send` of its peer, or by a
///    `bcast` / `bcastx` that did not exclude it ("a message sent to one client is obtained only by that client … a message
///    a client sent is obtained only under that client's id");
///  * on an Unreliable channel a message is obtained "at most as many times as the network delivered each of the packets
///    carrying it": the flush history tells which datagrams carry which message (a sliced message: all its slices), `dlv`
///    ops tell how often each datagram was handed over; copies obtained ≤ Σ over the carrying instances of (small: hand-overs
///    of the packet; sliced: the minimum over its slices' hand-overs).
fn oracle_integrity(ops: &[String], outs: &[String]) -> Option<OracleFail> {
    let mut cfg = Cfg::default();
    let mut tainted: std::collections::HashSet<String> = Default::default();
    let mut seen_endpoint: std::collections::HashSet<String> = Default::default();
    let mut added: Vec<String> = vec![];
    let mut submitted: HashMap<(String, u8), HashMap<String, usize>> = HashMap::new();
    let mut obtained: HashMap<(String, u8), HashMap<String, usize>> = HashMap::new();
    let mut hist: HashMap<String, Vec<String>> = HashMap::new();
    // receiver, channel -> content -> hand-overs of small unreliable instances
    let mut small_allow: HashMap<(String, u8), HashMap<String, usize>> = HashMap::new();
    // sender, channel, sliced message id -> (number of slices, payload per slice index)
    let mut sliced: HashMap<(String, u8, u64), (usize, HashMap<usize, Vec<u8>>)> = HashMap::new();
    // sender, channel -> content -> sliced message ids with that content (filled lazily)
    let mut slice_deliv: HashMap<(String, u8, u64), HashMap<usize, usize>> = HashMap::new(); // receiver, ch, id -> idx -> hand-overs
    let taint = |set: &mut std::collections::HashSet<String>, who: &str| {
        set.insert(who.to_string());
        if let Some(p) = peer_of(who) {
            set.insert(p);
        }
    };
    for (i, (op, out)) in ops.iter().zip(outs.iter()).enumerate() {
        let t: Vec<&str> = op.split(' ').collect();
        match t[0] {
            "cfg" => {
                if let Some(c) = parse_cfg(op) {
                    cfg = c
                }
            }
            "lnew" | "lproc" | "ldisc" => return None,
            "cli" | "add" if t.len() == 2 => {
                let who = if t[0] == "cli" { format!("c{}", t[1]) } else { format!("s{}", t[1]) };
                if !seen_endpoint.insert(who.clone()) {
                    taint(&mut tainted, &who);
                }
                if t[0] == "add" && !added.iter().any(|a| a == t[1]) {
                    added.push(t[1].to_string());
                }
            }
            "raw" | "dlvm" if t.len() > 1 => taint(&mut tainted, t[1]),
            "send" if t.len() == 4 => {
                if let Ok(ch) = t[2].parse::<u8>() {
                    *submitted.entry((t[1].to_string(), ch)).or_default().entry(t[3].to_string()).or_insert(0) += 1;
                }
            }
            "bcast" | "bcastx" => {
                let (ex_id, ch, m) = if t[0] == "bcast" && t.len() == 3 { ("", t[1], t[2]) } else if t[0] == "bcastx" && t.len() == 4 { (t[1], t[2], t[3]) } else { continue };
                if let Ok(ch) = ch.parse::<u8>() {
                    for id in added.iter() {
                        if id != ex_id {
                            *submitted.entry((format!("s{}", id), ch)).or_default().entry(m.to_string()).or_insert(0) += 1;
                        }
                    }
                }
            }
            "flush" if t.len() == 2 => {
                for p in flush_packets(out) {
                    hist.entry(t[1].to_string()).or_default().push(p.to_string());
                    if !p.starts_with("03") {
                        continue; // only unreliable slices matter here
                    }
                    if let Some(WPacket::UnreliableSlice { channel_id, slice, .. }) = decode(p) {
                        let e = sliced.entry((t[1].to_string(), channel_id, slice.message_id)).or_insert((slice.num_slices, HashMap::new()));
                        e.1.insert(slice.slice_index, slice.payload.to_vec());
                    }
                }
            }
            "dlv" if t.len() == 4 => {
                if peer_of(t[1]).as_deref() != Some(t[2]) {
                    taint(&mut tainted, t[1]);
                    continue;
                }
                if out != "ok" {
                    continue;
                }
                let k: usize = t[3].parse().unwrap_or(usize::MAX);
                match hist.get(t[2]).and_then(|h| h.get(k)).filter(|p| p.starts_with("01") || p.starts_with("03")).and_then(|p| decode(p)) {
                    Some(WPacket::SmallUnreliable { channel_id, messages, .. }) => {
                        let e = small_allow.entry((t[1].to_string(), channel_id)).or_default();
                        for m in messages {
                            *e.entry(hex(&m)).or_insert(0) += 1;
                        }
                    }
                    Some(WPacket::UnreliableSlice { channel_id, slice, .. }) => {
                        *slice_deliv.entry((t[1].to_string(), channel_id, slice.message_id)).or_default().entry(slice.slice_index).or_insert(0) += 1;
                    }
                    _ => {}
                }
            }
            "recv" if t.len() == 3 && out.starts_with("msg ") => {
                if tainted.contains(t[1]) {
                    continue;
                }
                let ch: u8 = t[2].parse().ok()?;
                let sender = match peer_of(t[1]) {
                    Some(p) => p,
                    None => continue,
                };
                let m = out[4..].to_string();
                let n_sub = submitted.get(&(sender.clone(), ch)).and_then(|h| h.get(&m)).copied().unwrap_or(0);
                if n_sub == 0 {
                    return fail(i, "not-submitted", format!("{} obtained on channel {} a {}-byte message that was never submitted to its connection ({} channel {})", t[1], ch, if m == "-" { 0 } else { m.len() / 2 }, sender, ch));
                }
                if send_kind(&cfg, &sender, ch).as_deref() != Some("U") {
                    continue;
                }
                let got = {
                    let e = obtained.entry((t[1].to_string(), ch)).or_default().entry(m.clone()).or_insert(0);
                    *e += 1;
                    *e
                };
                let mut allowed = small_allow.get(&(t[1].to_string(), ch)).and_then(|h| h.get(&m)).copied().unwrap_or(0);
                if allowed < got && m.len() / 2 > 1200 {
                    let want = unhex(&m).unwrap_or_default();
                    for ((snd, c, id), (n, parts)) in sliced.iter() {
                        if snd != &sender || *c != ch || parts.len() != *n {
                            continue;
                        }
                        let total: usize = parts.values().map(|p| p.len()).sum();
                        if total != want.len() {
                            continue;
                        }
                        let mut content: Vec<u8> = Vec::with_capacity(total);
                        for k in 0..*n {
                            content.extend(parts.get(&k).map(|p| p.as_slice()).unwrap_or(&[]));
                        }
                        if content != want {
                            continue;
                        }
                        let d = slice_deliv.get(&(t[1].to_string(), ch, *id));
                        let min = (0..*n).map(|k| d.and_then(|d| d.get(&k)).copied().unwrap_or(0)).min().unwrap_or(0);
                        allowed += min;
                    }
                }
                if got > allowed {
                    return fail(i, "more-than-delivered", format!("{} obtained a {}-byte message on unreliable channel {} {} time(s) although the datagrams carrying it were handed over often enough for {} only", t[1], if m == "-" { 0 } else { m.len() / 2 }, ch, got, allowed));
                }
            }
            _ => {}
        }
    }
    None
}

/// C11 / C06: an endpoint that saw only its peer's genuine packets is disconnected only for a cause the trace shows — the
/// application's own call (`sdisc` / `sdiscall` → DisconnectedByServer on that server connection, `disc` →
/// DisconnectedByClient, `disct` → Transport on that client), or channel memory really exceeded (`budget_sums`). Anything
/// else means somebody else's input, disconnection or traffic tore this connection down.
fn oracle_disconnect_justified(ops: &[String], outs: &[String]) -> Option<OracleFail> {
    let mut tainted: std::collections::HashSet<String> = Default::default();
    let mut seen_endpoint: std::collections::HashSet<String> = Default::default();
    let mut cause: HashMap<String, std::collections::HashSet<&'static str>> = HashMap::new();
    let mut added: Vec<String> = vec![];
    let taint = |set: &mut std::collections::HashSet<String>, who: &str| {
        set.insert(who.to_string());
        if let Some(p) = peer_of(who) {
            set.insert(p);
        }
    };
    for (i, (op, out)) in ops.iter().zip(outs.iter()).enumerate() {
        let t: Vec<&str> = op.split(' ').collect();
        match t[0] {
            "lnew" | "lproc" | "ldisc" => return None,
            "cli" | "add" if t.len() == 2 => {
                let who = if t[0] == "cli" { format!("c{}", t[1]) } else { format!("s{}", t[1]) };
                if !seen_endpoint.insert(who.clone()) {
                    taint(&mut tainted, &who);
                }
                if t[0] == "add" {
                    added.push(t[1].to_string());
                }
            }
            "raw" | "dlvm" if t.len() > 1 => taint(&mut tainted, t[1]),
            "dlv" if t.len() == 4 => {
                if peer_of(t[1]).as_deref() != Some(t[2]) {
                    taint(&mut tainted, t[1]);
                }
            }
            "sdisc" if t.len() == 2 => {
                cause.entry(format!("s{}", t[1])).or_default().insert("DisconnectedByServer");
            }
            "sdiscall" => {
                for id in added.iter() {
                    cause.entry(format!("s{}", id)).or_default().insert("DisconnectedByServer");
                }
            }
            "disc" if t.len() == 2 => {
                cause.entry(format!("c{}", t[1])).or_default().insert("DisconnectedByClient");
            }
            "disct" if t.len() == 2 => {
                cause.entry(format!("c{}", t[1])).or_default().insert("Transport");
            }
            "stat" if t.len() == 2 && !tainted.contains(t[1]) => {
                let reason = match out.strip_prefix("disconnected:") {
                    Some(r) => r,
                    None => continue,
                };
                if cause.get(t[1]).map(|c| c.contains(reason)).unwrap_or(false) {
                    continue;
                }
                if reason.contains("ReliableChannelMaxMemoryReached") {
                    let send_side = reason.starts_with("SendChannelError(");
                    let ch: Option<u8> = reason.split('(').nth(1).and_then(|r| r.split(',').next()).and_then(|x| x.parse().ok());
                    let sender = if send_side { Some(t[1].to_string()) } else { peer_of(t[1]) };
                    if let (Some(ch), Some(sender)) = (ch, sender) {
                        let (sum, max) = budget_sums(ops, i).get(&(sender, ch)).copied().unwrap_or((0, u64::MAX));
                        if sum > max {
                            continue; // the channel's budget really can have been exceeded
                        }
                    }
                }
                return fail(i, "disconnect-without-cause", format!("{} is `{}`, but it was handed only its peer's genuine packets, no call in the trace disconnects it that way and its channels stayed within their budgets", t[1], out));
            }
            _ => {}
        }
    }
    None
}

// ---------------------------------------------------------------------------------------------
// oracles for C06 C08 C09 C12 C13 C14 C15
// ---------------------------------------------------------------------------------------------
/// the LIBRARY's decoder (the code under test) — only for oracles that judge the decoder itself
fn lib_decode(hexs: &str) -> Option<WPacket> {
    let b = unhex(hexs)?;
    let mut oct = octets::Octets::with_slice(&b);
    WPacket::from_bytes(&mut oct).ok()
}

/// An INDEPENDENT reader of renet's wire format (the format of the pinned tree: type byte, QUIC-style varints, u8 channel,
/// u16 message count, newest-first ack ranges as (end, size, n, (gap, size)*)). The oracles read emitted datagrams with this
/// parser, not with the library's `from_bytes`, so that a change of the library's decoder cannot blind the judge of the
/// other properties (a seeded change that clamps the ack ranges read from a packet showed the dependency).
/// Trailing bytes are ignored, as the library does.
fn decode(hexs: &str) -> Option<WPacket> {
    let b = unhex(hexs)?;
    let mut pos = 0usize;
    fn u8_at(b: &[u8], pos: &mut usize) -> Option<u8> {
        let v = *b.get(*pos)?;
        *pos += 1;
        Some(v)
    }
    fn varint(b: &[u8], pos: &mut usize) -> Option<u64> {
        let first = *b.get(*pos)?;
        let len = 1usize << (first >> 6);
        if *pos + len > b.len() {
            return None;
        }
        let mut v = (first & 0x3f) as u64;
        for k in 1..len {
            v = (v << 8) | b[*pos + k] as u64;
        }
        *pos += len;
        Some(v)
    }
    fn take<'a>(b: &'a [u8], pos: &mut usize, n: usize) -> Option<&'a [u8]> {
        if *pos + n > b.len() {
            return None;
        }
        let r = &b[*pos..*pos + n];
        *pos += n;
        Some(r)
    }
    let ty = u8_at(&b, &mut pos)?;
    let sequence = varint(&b, &mut pos)?;
    match ty {
        0 | 1 => {
            let channel_id = u8_at(&b, &mut pos)?;
            let n = ((u8_at(&b, &mut pos)? as usize) << 8) | u8_at(&b, &mut pos)? as usize;
            if ty == 0 {
                let mut messages = Vec::new();
                for _ in 0..n {
                    let id = varint(&b, &mut pos)?;
                    let len = varint(&b, &mut pos)? as usize;
                    messages.push((id, bytes::Bytes::copy_from_slice(take(&b, &mut pos, len)?)));
                }
                Some(WPacket::SmallReliable { sequence, channel_id, messages })
            } else {
                let mut messages = Vec::new();
                for _ in 0..n {
                    let len = varint(&b, &mut pos)? as usize;
                    messages.push(bytes::Bytes::copy_from_slice(take(&b, &mut pos, len)?));
                }
                Some(WPacket::SmallUnreliable { sequence, channel_id, messages })
            }
        }
        2 | 3 => {
            let channel_id = u8_at(&b, &mut pos)?;
            let message_id = varint(&b, &mut pos)?;
            let slice_index = varint(&b, &mut pos)? as usize;
            let num_slices = varint(&b, &mut pos)? as usize;
            let len = varint(&b, &mut pos)? as usize;
            let payload = bytes::Bytes::copy_from_slice(take(&b, &mut pos, len)?);
            let slice = WSlice { message_id, slice_index, num_slices, payload };
            if ty == 2 {
                Some(WPacket::ReliableSlice { sequence, channel_id, slice })
            } else {
                Some(WPacket::UnreliableSlice { sequence, channel_id, slice })
            }
        }
        4 => {
            let end = varint(&b, &mut pos)?;
            let size = varint(&b, &mut pos)?;
            let n = varint(&b, &mut pos)?;
            let mut start = end.checked_sub(size)?;
            let mut ranges = vec![start..end.checked_add(1)?];
            for _ in 0..n {
                let gap = varint(&b, &mut pos)?;
                let size = varint(&b, &mut pos)?;
                let e = start.checked_sub(gap)?.checked_sub(2)?;
                let st = e.checked_sub(size)?;
                ranges.push(st..e + 1);
                start = st;
            }
            ranges.reverse();
            Some(WPacket::Ack { sequence, ack_ranges: ranges })
        }
        _ => None,
    }
}

fn flush_packets(out: &str) -> Vec<&str> {
    let mut it = out.split(' ');
    if it.next() != Some("pkts") {
        return vec![];
    }
    it.next();
    it.collect()
}

/// all `key=value` occurrences of `mem`/`max` pairs in a dump, per channel block
fn dump_blocks(dump: &str) -> Vec<(String, String)> {
    // blocks look like ` sr2{mem=…,max=…,…}`
    let mut res = vec![];
    let mut rest = dump;
    while let Some(i) = rest.find('{') {
        let name_start = rest[..i].rfind(' ').map(|x| x + 1).unwrap_or(0);
        let name = rest[name_start..i].to_string();
        let close = match matching_brace(&rest[i..]) {
            Some(c) => i + c,
            None => break,
        };
        res.push((name, rest[i + 1..close].to_string()));
        rest = &rest[close + 1..];
    }
    res
}

fn matching_brace(s: &str) -> Option<usize> {
    let mut depth = 0;
    for (i, c) in s.char_indices() {
        match c {
            '{' => depth += 1,
            '}' => {
                depth -= 1;
                if depth == 0 {
                    return Some(i);
                }
            }
            _ => {}
        }
    }
    None
}

fn field<'a>(block: &'a str, key: &str) -> Option<&'a str> {
    // fields are `key=value` separated by ',' at top level; list values are in [...]
    let pat = format!("{}=", key);
    let mut idx = 0;
    loop {
        let i = block[idx..].find(&pat)? + idx;
        if i == 0 || block.as_bytes()[i - 1] == b',' {
            let v = &block[i + pat.len()..];
            if v.starts_with('[') {
                let e = v.find(']')?;
                return Some(&v[1..e]);
            }
            let e = v.find(',').unwrap_or(v.len());
            return Some(&v[..e]);
        }
        idx = i + 1;
    }
}

fn head_field<'a>(dump: &'a str, key: &str) -> Option<&'a str> {
    let pat = format!("{}=", key);
    let i = dump.find(&pat)?;
    let v = &dump[i + pat.len()..];
    if v.starts_with('[') {
        let e = v.find(']')?;
        Some(&v[1..e])
    } else {
        let e = v.find(' ').unwrap_or(v.len());
        Some(&v[..e])
    }
}

/// C06: no unwind on any call; accounted memory within [0, max]; statuses only move to
/// disconnected-with-a-reason and stay; the bystander connection is not torn down by input aimed
/// at the victim.
fn oracle_c06(ops: &[String], outs: &[String]) -> Option<OracleFail> {
    let mut status: HashMap<String, String> = HashMap::new();
    for (i, (op, out)) in ops.iter().zip(outs.iter()).enumerate() {
        if out == "panic" {
            let kind = op.split(' ').next().unwrap_or("");
            return fail(i, &format!("panic:{}", kind), format!("the implementation panicked on `{}`", &op[..op.len().min(160)]));
        }
        let t: Vec<&str> = op.split(' ').collect();
        match t[0] {
            "dump" if out != "notfound" && out != "bad-op" => {
                for (name, b) in dump_blocks(out) {
                    let mem: Option<u64> = field(&b, "mem").and_then(|x| x.parse().ok());
                    let max: Option<u64> = field(&b, "max").and_then(|x| x.parse().ok());
                    match (mem, max) {
                        (Some(m), Some(x)) => {
                            if m > x {
                                return fail(i, "memory-out-of-budget", format!("{} {}: accounted memory {} exceeds the channel budget {} (wrapped or leaked)", t[1], name, m, x));
                            }
                        }
                        _ => return fail(i, "dump-unparsable", format!("cannot read mem/max of block {} in dump", name)),
                    }
                }
            }
            "cli" | "lnew" if t.len() >= 2 => {
                let h = if t[0] == "cli" { t[1] } else { t[2] };
                status.remove(&format!("c{}", h));
                if t[0] == "lnew" {
                    // add_connection is a no-op when the id exists: status of s<id> may persist
                }
            }
            "rem" if t.len() == 2 => {
                status.remove(&format!("s{}", t[1]));
            }
            "ldisc" if t.len() == 3 => {
                status.remove(&format!("s{}", t[1]));
            }
            "stat" if t.len() == 2 => {
                if out == "notfound" {
                    status.remove(t[1]);
                    continue;
                }
                if let Some(prev) = status.get(t[1]) {
                    if prev.starts_with("disconnected:") && prev != out {
                        return fail(i, "disconnect-not-final", format!("{} was {} and is now {}", t[1], prev, out));
                    }
                }
                status.insert(t[1].to_string(), out.clone());
            }
            _ => {}
        }
    }
    // bystander pair of the hostile profile
    let bystander_clean = !ops.iter().any(|o| {
        let t: Vec<&str> = o.split(' ').collect();
        match t[0] {
            "raw" | "dlvm" => t.len() > 1 && (t[1] == "s101" || t[1] == "c1"),
            "dlv" => t.len() > 2 && ((t[1] == "s101" && t[2] != "c1") || (t[1] == "c1" && t[2] != "s101")),
            "rem" | "sdisc" | "sdiscall" | "disc" | "disct" | "lnew" | "ldisc" => true,
            _ => false,
        }
    });
    if bystander_clean && ops.iter().any(|o| o.starts_with("raw s100") || o.starts_with("raw c0") || o.starts_with("dlvm ")) && ops.iter().any(|o| o == "cli 1") {
        for who in ["c1", "s101"] {
            if let Some(st) = status.get(who) {
                if st.contains("PacketDeserialization") || st.contains("ReceivedInvalidChannelId") || st.contains("InvalidSliceMessage") {
                    return fail(ops.len() - 1, "bystander-disconnected", format!("{} (never fed hostile input) ended as {}", who, st));
                }
            }
        }
    }
    None
}

/// C09 on the unreliable receive side (lossless, in-order profile `rn-unrel`): a message whose cost
/// (length for small, slices x 1200 while reassembling, then its length) fits the receive budget next
/// to what is still buffered must be obtained; the receiver may drop only what does not fit.
fn oracle_unrel_budget(ops: &[String], outs: &[String]) -> Option<OracleFail> {
    let mut cfg = Cfg::default();
    let mut hist: Vec<String> = vec![];
    let mut buffered: std::collections::VecDeque<Vec<u8>> = Default::default(); // expected queue at the receiver (channel 0)
    let mut partial: HashMap<u64, (usize, Vec<Option<Vec<u8>>>)> = HashMap::new();
    let mut mem: usize = 0;
    let mut sender_alive = true;
    for (i, (op, out)) in ops.iter().zip(outs.iter()).enumerate() {
        let t: Vec<&str> = op.split(' ').collect();
        match t[0] {
            "cfg" => {
                if let Some(c) = parse_cfg(op) {
                    cfg = c
                }
            }
            "flush" if t.len() == 2 && t[1] == "c0" => {
                for p in flush_packets(out) {
                    hist.push(p.to_string());
                }
            }
            "stat" if t.len() == 2 && out.starts_with("disconnected") => sender_alive = false,
            "dlv" if t.len() == 4 && t[1] == "s100" && t[2] == "c0" && out == "ok" => {
                let max = cfg.client.iter().find(|c| c.0 == 0).map(|c| c.2).unwrap_or(0);
                let k: usize = t[3].parse().unwrap_or(usize::MAX);
                match hist.get(k).and_then(|p| decode(p)) {
                    Some(WPacket::SmallUnreliable { channel_id: 0, messages, .. }) => {
                        for m in messages {
                            if mem + m.len() <= max {
                                mem += m.len();
                                buffered.push_back(m.to_vec());
                            }
                        }
                    }
                    Some(WPacket::UnreliableSlice { channel_id: 0, slice, .. }) => {
                        let n = slice.num_slices;
                        if !partial.contains_key(&slice.message_id) {
                            if mem + n * 1200 > max {
                                continue;
                            }
                            mem += n * 1200;
                            partial.insert(slice.message_id, (n, vec![None; n]));
                        }
                        let done = {
                            let e = partial.get_mut(&slice.message_id).unwrap();
                            if slice.slice_index < e.0 {
                                e.1[slice.slice_index] = Some(slice.payload.to_vec());
                            }
                            e.1.iter().all(|x| x.is_some())
                        };
                        if done {
                            let (n, parts) = partial.remove(&slice.message_id).unwrap();
                            let m: Vec<u8> = parts.into_iter().flat_map(|x| x.unwrap()).collect();
                            mem = mem - n * 1200 + m.len();
                            buffered.push_back(m);
                        }
                    }
                    _ => {}
                }
            }
            "recv" if t.len() == 3 && t[1] == "s100" && t[2] == "0" && sender_alive => {
                let want = buffered.pop_front();
                match (&want, out.strip_prefix("msg ")) {
                    (Some(w), Some(h)) => {
                        mem -= w.len();
                        if hex(w) != h {
                            return fail(i, "unreliable-wrong-message", "the unreliable channel yielded a different message than the next one that fitted its budget".to_string());
                        }
                    }
                    (Some(w), None) => {
                        return fail(i, "in-budget-message-dropped", format!("an unreliable message of {} bytes that fitted the receive budget was not obtained", w.len()));
                    }
                    (None, Some(_)) => return fail(i, "unreliable-unexpected-message", "the unreliable channel yielded a message the budget rule says was dropped".to_string()),
                    (None, None) => {}
                }
            }
            "raw" | "dlvm" | "upd" if t[0] != "upd" => return None,
            _ => {}
        }
    }
    None
}

/// C09 (query API): `can_send_message(n)` is true exactly when n fits the available memory just reported.
fn oracle_cansend(ops: &[String], outs: &[String]) -> Option<OracleFail> {
    let mut last: Option<(String, String, u64, usize)> = None;
    for (i, (op, out)) in ops.iter().zip(outs.iter()).enumerate() {
        let t: Vec<&str> = op.split(' ').collect();
        match t[0] {
            "avail" if t.len() == 3 => {
                last = out.parse::<u64>().ok().map(|a| (t[1].to_string(), t[2].to_string(), a, i));
            }
            "cansend" if t.len() == 4 => {
                if let Some((w, c, a, _)) = &last {
                    if w == t[1] && c == t[2] {
                        let n: u64 = t[3].parse().unwrap_or(0);
                        let want = n <= *a;
                        if out != &want.to_string() {
                            return fail(i, "cansend-disagrees", format!("{} channel {}: available {} but can_send_message({}) = {}", t[1], t[2], a, n, out));
                        }
                    }
                }
            }
            "send" | "flush" | "dlv" | "recv" | "upd" | "raw" | "dlvm" => last = None,
            _ => {}
        }
    }
    None
}

/// C09: accounting is exact at every dump (empty channel ⇒ zero bytes accounted), incomplete
/// unreliable fragments older than 3 s are gone, and at a quiescent point nothing is left over.
fn oracle_c09(ops: &[String], outs: &[String]) -> Option<OracleFail> {
    let mut healed_ok = false;
    let mut status: HashMap<String, String> = HashMap::new();
    let mut since_heal: Vec<usize> = vec![];
    for (i, (op, out)) in ops.iter().zip(outs.iter()).enumerate() {
        let t: Vec<&str> = op.split(' ').collect();
        match t[0] {
            "stat" if t.len() == 2 => {
                status.insert(t[1].to_string(), out.clone());
            }
            "dump" if out != "notfound" && out != "bad-op" && out != "panic" && out != "dead" => {
                let now: u64 = head_field(out, "now").and_then(|x| x.parse().ok()).unwrap_or(0);
                for (name, b) in dump_blocks(out) {
                    let mem: u64 = field(&b, "mem").and_then(|x| x.parse().ok()).unwrap_or(0);
                    let max: u64 = field(&b, "max").and_then(|x| x.parse().ok()).unwrap_or(0);
                    if mem > max {
                        return fail(i, "memory-out-of-budget", format!("{} {}: accounted {} > budget {}", t[1], name, mem, max));
                    }
                    let empty = |k: &str| field(&b, k).map(|v| v.is_empty()).unwrap_or(true);
                    let idle = if name.starts_with("sr") {
                        empty("un")
                    } else if name.starts_with("su") {
                        empty("q")
                    } else {
                        empty("msgs") && empty("sl")
                    };
                    if idle && mem != 0 {
                        return fail(i, "bytes-accounted-to-nothing", format!("{} {}: {} bytes accounted although the channel holds nothing", t[1], name, mem));
                    }
                    if name.starts_with("ru") {
                        if let Some(last) = field(&b, "last") {
                            for e in last.split(';').filter(|x| !x.is_empty()) {
                                if let Some((id, tt)) = e.split_once('@') {
                                    let tt: u64 = tt.parse().unwrap_or(0);
                                    if now.saturating_sub(tt) >= 3_000_000_000 {
                                        return fail(i, "stale-fragment-kept", format!("{} {}: fragment {} idle for {} ns is still accounted", t[1], name, id, now - tt));
                                    }
                                }
                            }
                        }
                    }
                }
                if healed_ok {
                    since_heal.push(i);
                }
            }
            "note" if t.len() == 2 && t[1] == "healed" => {
                healed_ok = !status.is_empty() && status.values().all(|s| s == "connected");
                since_heal.clear();
            }
            "note" if t.len() == 2 && t[1] == "quiescent" && healed_ok => {
                for &j in since_heal.iter() {
                    let who = ops[j].split(' ').nth(1).unwrap_or("");
                    for (name, b) in dump_blocks(&outs[j]) {
                        let mem: u64 = field(&b, "mem").and_then(|x| x.parse().ok()).unwrap_or(0);
                        if name.starts_with("rr") || name.starts_with("ru") || name.starts_with("su") {
                            if mem != 0 {
                                return fail(j, "leak-at-quiescence", format!("{} {}: {} bytes still accounted after everything was delivered, drained and 3 s passed", who, name, mem));
                            }
                        }
                        if name.starts_with("sr") {
                            let un_empty = field(&b, "un").map(|v| v.is_empty()).unwrap_or(true);
                            if un_empty && mem != 0 {
                                return fail(j, "leak-at-quiescence", format!("{} {}: {} bytes accounted with nothing unacknowledged", who, name, mem));
                            }
                        }
                    }
                }
            }
            _ => {}
        }
    }
    None
}

/// C09 "the memory accounted to it": at every dump the accounted bytes of a channel equal what the same dump shows the
/// channel to hold — send reliable: Σ lengths of the unacknowledged messages; send unreliable: Σ queued lengths; receive
/// (both kinds): Σ lengths of the buffered messages + 1200 x the announced slice count of every message being
/// reassembled — and `channel_available_memory` asked right after a dump is max − mem. (An error path leaves a connection
/// disconnected with its channel half-updated; such a connection accepts and emits nothing any more, so a dump is judged
/// only when a later `stat` still shows the endpoint connected.)
fn oracle_c09_exact(ops: &[String], outs: &[String]) -> Option<OracleFail> {
    let mut pending: Vec<(String, OracleFail)> = vec![];
    for (i, (op, out)) in ops.iter().zip(outs.iter()).enumerate() {
        let t: Vec<&str> = op.split(' ').collect();
        match t[0] {
            "stat" if t.len() == 2 && out == "connected" => {
                if let Some(pos) = pending.iter().position(|p| p.0 == t[1]) {
                    let mut f = pending.remove(pos).1;
                    f.at = i;
                    return Some(f);
                }
            }
            // a new object under the name: what was pending belongs to the old one
            "cli" | "lnew" | "add" | "rem" | "ldisc" if t.len() >= 2 => {
                let names: Vec<String> = match t[0] {
                    "cli" => vec![format!("c{}", t[1])],
                    "lnew" | "ldisc" if t.len() == 3 => vec![format!("s{}", t[1]), format!("c{}", t[2])],
                    _ => vec![format!("s{}", t[1])],
                };
                pending.retain(|p| !names.contains(&p.0));
            }
            "dump" if t.len() == 2 && out.starts_with("seq=") => {
                if pending.iter().any(|p| p.0 == t[1]) {
                    continue;
                }
                let sum = |list: &str, f: &dyn Fn(&str) -> Option<u64>| -> Option<u64> {
                    let mut s = 0u64;
                    for e in list.split(';').filter(|x| !x.is_empty()) {
                        s += f(e)?;
                    }
                    Some(s)
                };
                for (name, b) in dump_blocks(out) {
                    let mem: u64 = match field(&b, "mem").and_then(|x| x.parse().ok()) {
                        Some(m) => m,
                        None => continue,
                    };
                    let max: u64 = field(&b, "max").and_then(|x| x.parse().ok()).unwrap_or(0);
                    let slices = |e: &str| -> Option<u64> {
                        // id=<received>/<num_slices>:<bits>:<len>
                        let n: u64 = e.split_once('=')?.1.split(':').next()?.split_once('/')?.1.parse().ok()?;
                        Some(n * 1200)
                    };
                    let holds: Option<u64> = if name.starts_with("sr") {
                        // id:S<len>@…   |   id:L<len>,…
                        sum(field(&b, "un").unwrap_or(""), &|e| {
                            let r = e.split_once(':')?.1;
                            r[1..].split(|c| c == '@' || c == ',').next()?.parse().ok()
                        })
                    } else if name.starts_with("su") {
                        sum(field(&b, "q").unwrap_or(""), &|e| e.parse().ok())
                    } else if name.starts_with("rr") {
                        match (sum(field(&b, "msgs").unwrap_or(""), &|e| e.split_once(':')?.1.parse().ok()), sum(field(&b, "sl").unwrap_or(""), &slices)) {
                            (Some(a), Some(c)) => Some(a + c),
                            _ => None,
                        }
                    } else if name.starts_with("ru") {
                        match (sum(field(&b, "msgs").unwrap_or(""), &|e| e.parse().ok()), sum(field(&b, "sl").unwrap_or(""), &slices)) {
                            (Some(a), Some(c)) => Some(a + c),
                            _ => None,
                        }
                    } else {
                        None
                    };
                    let holds = match holds {
                        Some(h) => h,
                        None => continue,
                    };
                    if holds != mem {
                        pending.push((
                            t[1].to_string(),
                            OracleFail { at: i, signature: "accounted-differs-from-held".into(), what: format!("{} {} (dump at op {}): {} bytes accounted, but the channel holds {} (budget {})", t[1], name, i, mem, holds, max) },
                        ));
                        break;
                    }
                    // channel_available_memory right after the dump
                    if name.starts_with("sr") || name.starts_with("su") {
                        if let Some(next) = ops.get(i + 1) {
                            if next == &format!("avail {} {}", t[1], &name[2..]) {
                                if let Ok(a) = outs[i + 1].parse::<u64>() {
                                    if a != max.saturating_sub(mem) || mem > max {
                                        pending.push((
                                            t[1].to_string(),
                                            OracleFail { at: i + 1, signature: "available-is-not-max-minus-accounted".into(), what: format!("{} channel {}: {} bytes available reported, accounted {} of {}", t[1], &name[2..], a, mem, max) },
                                        ));
                                        break;
                                    }
                                }
                            }
                        }
                    }
                }
            }
            _ => {}
        }
    }
    None
}

/// C12: event stream = what the API calls imply (alternation per id, first stored reason),
/// disconnected endpoints emit nothing, yield nothing, and keep their reason.
fn oracle_c12(ops: &[String], outs: &[String]) -> Option<OracleFail> {
    let mut present: std::collections::BTreeSet<String> = Default::default();
    let mut expected: std::collections::VecDeque<String> = Default::default();
    let mut last_stat: HashMap<String, String> = HashMap::new();
    let mut disconnected: HashMap<String, String> = HashMap::new(); // endpoint object -> reason
    let mut per_id_last: HashMap<String, bool> = HashMap::new(); // id -> last event was "connected"
    for (i, (op, out)) in ops.iter().zip(outs.iter()).enumerate() {
        if out == "panic" || out == "dead" {
            return None; // judged by C06
        }
        let t: Vec<&str> = op.split(' ').collect();
        match t[0] {
            "add" | "lnew" if t.len() >= 2 => {
                if present.insert(t[1].to_string()) {
                    expected.push_back(format!("connected {}", t[1]));
                    disconnected.remove(&format!("s{}", t[1]));
                    last_stat.remove(&format!("s{}", t[1]));
                }
                if t[0] == "lnew" {
                    disconnected.remove(&format!("c{}", t[2]));
                    last_stat.remove(&format!("c{}", t[2]));
                }
            }
            "cli" if t.len() == 2 => {
                disconnected.remove(&format!("c{}", t[1]));
                last_stat.remove(&format!("c{}", t[1]));
            }
            "rem" if t.len() == 2 => {
                if present.remove(t[1]) {
                    let st = last_stat.get(&format!("s{}", t[1])).cloned().unwrap_or_default();
                    let reason = st.strip_prefix("disconnected:").unwrap_or("Transport").to_string();
                    expected.push_back(format!("disconnected {} {}", t[1], reason));
                    disconnected.remove(&format!("s{}", t[1]));
                    last_stat.remove(&format!("s{}", t[1]));
                }
            }
            "ldisc" if t.len() == 3 => {
                let cst = last_stat.get(&format!("c{}", t[2])).cloned().unwrap_or_default();
                if !cst.starts_with("disconnected:") {
                    if present.remove(t[1]) {
                        let st = last_stat.get(&format!("s{}", t[1])).cloned().unwrap_or_default();
                        let reason = st.strip_prefix("disconnected:").unwrap_or("DisconnectedByClient").to_string();
                        expected.push_back(format!("disconnected {} {}", t[1], reason));
                        disconnected.remove(&format!("s{}", t[1]));
                        last_stat.remove(&format!("s{}", t[1]));
                    }
                    last_stat.insert(format!("c{}", t[2]), "disconnected:DisconnectedByClient".into());
                }
            }
            "ev" => {
                if out == "none" {
                    if let Some(e) = expected.front() {
                        return fail(i, "event-missing", format!("expected event `{}` but the queue is empty", e));
                    }
                } else {
                    match expected.pop_front() {
                        None => return fail(i, "event-unexpected", format!("event `{}` without a cause", out)),
                        Some(e) => {
                            if &e != out {
                                let sig = if e.split(' ').take(2).collect::<Vec<_>>() == out.split(' ').take(2).collect::<Vec<_>>() { "event-wrong-reason" } else { "event-wrong" };
                                return fail(i, sig, format!("expected event `{}`, got `{}`", e, out));
                            }
                        }
                    }
                    let p: Vec<&str> = out.split(' ').collect();
                    let is_conn = p[0] == "connected";
                    let prev = per_id_last.insert(p[1].to_string(), is_conn);
                    match (prev, is_conn) {
                        (None, false) | (Some(false), false) => return fail(i, "event-alternation", format!("`{}` without a preceding connect", out)),
                        (Some(true), true) => return fail(i, "event-alternation", format!("`{}` twice without a disconnect between", out)),
                        _ => {}
                    }
                }
            }
            // the application's own disconnect calls: from here on the endpoint is disconnected, whatever `stat` is (not)
            // asked in between ("?" = the reason is whatever it was first disconnected with)
            "sdisc" if t.len() == 2 && out == "ok" => {
                if present.contains(t[1]) {
                    disconnected.entry(format!("s{}", t[1])).or_insert_with(|| "?".to_string());
                }
            }
            "sdiscall" if out == "ok" => {
                for id in present.iter() {
                    disconnected.entry(format!("s{}", id)).or_insert_with(|| "?".to_string());
                }
            }
            "disc" | "disct" if t.len() == 2 && out == "ok" => {
                disconnected.entry(format!("c{}", t[1])).or_insert_with(|| "?".to_string());
            }
            "stat" if t.len() == 2 => {
                if out == "notfound" || out == "bad-op" {
                    continue;
                }
                if let Some(r) = disconnected.get(t[1]) {
                    if r == "?" {
                        if !out.starts_with("disconnected:") {
                            return fail(i, "disconnect-not-final", format!("{} was disconnected by a call of the application and is now {}", t[1], out));
                        }
                    } else if out != r {
                        return fail(i, "disconnect-not-final", format!("{} was {} and is now {}", t[1], r, out));
                    }
                }
                if out.starts_with("disconnected:") {
                    disconnected.insert(t[1].to_string(), out.clone());
                }
                last_stat.insert(t[1].to_string(), out.clone());
            }
            "flush" if t.len() == 2 => {
                if disconnected.contains_key(t[1]) && out != "pkts 0" && out != "notfound" {
                    return fail(i, "disconnected-emits", format!("{} is disconnected but emitted packets", t[1]));
                }
            }
            "recv" if t.len() == 3 => {
                if disconnected.contains_key(t[1]) && out.starts_with("msg ") {
                    return fail(i, "disconnected-yields", format!("{} is disconnected but yielded a message", t[1]));
                }
            }
            _ => {}
        }
    }
    None
}

/// C13: every emitted packet ≤ 1300 bytes, serialisation never fails.
fn oracle_c13(ops: &[String], outs: &[String]) -> Option<OracleFail> {
    for (i, (op, out)) in ops.iter().zip(outs.iter()).enumerate() {
        if op.starts_with("flush ") {
            for p in flush_packets(out) {
                if p.len() > 2600 {
                    return fail(i, "packet-too-long", format!("{} emitted a {}-byte packet (> 1300)", &op[6..], p.len() / 2));
                }
            }
        }
        if op.starts_with("stat ") && out.contains("PacketSerialization") {
            return fail(i, "serialization-failed", format!("{} disconnected itself: {}", &op[5..], out));
        }
    }
    None
}

fn payload_bytes(p: &WPacket) -> u64 {
    match p {
        WPacket::SmallReliable { messages, .. } => messages.iter().map(|(_, m)| m.len() as u64).sum(),
        WPacket::SmallUnreliable { messages, .. } => messages.iter().map(|m| m.len() as u64).sum(),
        WPacket::ReliableSlice { slice, .. } | WPacket::UnreliableSlice { slice, .. } => slice.payload.len() as u64,
        WPacket::Ack { .. } => 0,
    }
}

/// C14: payload bytes of one flush ≤ available_bytes_per_tick.
fn oracle_c14(ops: &[String], outs: &[String]) -> Option<OracleFail> {
    let mut budget = u64::MAX;
    let mut cfg_full = Cfg::default();
    for (i, (op, out)) in ops.iter().zip(outs.iter()).enumerate() {
        if let Some(c) = parse_cfg(op) {
            budget = c.budget;
            cfg_full = c;
        }
        if op.starts_with("flush ") {
            let mut sum = 0u64;
            for p in flush_packets(out) {
                match decode(p) {
                    Some(pk) => sum += payload_bytes(&pk),
                    None => return fail(i, "emitted-undecodable", format!("{} emitted a packet its own decoder rejects", &op[6..])),
                }
            }
            if sum > budget {
                return fail(i, "over-budget", format!("{} carried {} payload bytes in one flush, budget {}", &op[6..], sum, budget));
            }
            // channels are served in configuration order: packets are appended channel by channel
            let who = &op[6..];
            let list = if who.starts_with('c') { &cfg_full.client } else { &cfg_full.server };
            let mut last_pos: Option<usize> = None;
            let mut slices: HashMap<(u8, u64), (usize, std::collections::HashSet<usize>)> = HashMap::new();
            for p in flush_packets(out) {
                let pk = match decode(p) {
                    Some(p) => p,
                    None => continue,
                };
                let ch = match &pk {
                    WPacket::SmallReliable { channel_id, .. } | WPacket::SmallUnreliable { channel_id, .. } => Some(*channel_id),
                    WPacket::ReliableSlice { channel_id, .. } => Some(*channel_id),
                    WPacket::UnreliableSlice { channel_id, slice, .. } => {
                        let e = slices.entry((*channel_id, slice.message_id)).or_insert((slice.num_slices, Default::default()));
                        e.1.insert(slice.slice_index);
                        Some(*channel_id)
                    }
                    WPacket::Ack { .. } => None,
                };
                if let Some(ch) = ch {
                    if let Some(pos) = list.iter().position(|c| c.0 == ch) {
                        if let Some(lp) = last_pos {
                            if pos < lp {
                                return fail(i, "channel-order", format!("{} served channel {} (configuration position {}) after a channel configured later (position {})", who, ch, pos, lp));
                            }
                        }
                        last_pos = Some(pos);
                    }
                }
            }
            // an unreliable sliced message goes out whole (all its slices in this flush) or not at all
            for ((ch, id), (n, got)) in slices.iter() {
                if got.len() != *n {
                    return fail(i, "unreliable-partially-sent", format!("{} emitted {} of {} slices of unreliable message {} on channel {}", who, got.len(), n, id, ch));
                }
            }
        }
    }
    None
}

/// C14 / C11 (work conservation on unreliable channels): "each later channel gets what earlier ones
/// left" and "what does not fit is dropped" — so an unreliable message that FITS what the flush left
/// unused must go out. Sound lower bound of what was available at the message's turn: the budget minus
/// everything the whole flush carried (reliable slices counted as a full SLICE_SIZE each, as the sender
/// charges them). Judged only for endpoints a later `stat` shows connected (disconnection is final).
fn oracle_unrel_work_conserving(ops: &[String], outs: &[String]) -> Option<OracleFail> {
    let mut cfg = Cfg::default();
    // endpoint -> per unreliable channel: (queued messages (hex), memory in use)
    let mut queued: HashMap<String, HashMap<u8, (Vec<String>, usize)>> = HashMap::new();
    let mut pending: Vec<(usize, String, OracleFail)> = vec![]; // verdicts waiting for a `stat <who>` = connected
    let mut ever_sent: HashMap<String, std::collections::HashSet<String>> = HashMap::new();
    for (i, (op, out)) in ops.iter().zip(outs.iter()).enumerate() {
        let t: Vec<&str> = op.split(' ').collect();
        match t[0] {
            "cfg" => {
                if let Some(c) = parse_cfg(op) {
                    cfg = c
                }
            }
            "bcast" | "bcastx" | "lnew" | "lproc" | "rem" | "sdisc" | "sdiscall" | "disc" | "disct" => return None,
            "send" if t.len() == 4 && out == "ok" => {
                let ch: u8 = t[2].parse().ok()?;
                let list = if t[1].starts_with('c') { &cfg.client } else { &cfg.server };
                if let Some(c) = list.iter().find(|c| c.0 == ch) {
                    if c.1 == "U" {
                        let len = if t[3] == "-" { 0 } else { t[3].len() / 2 };
                        let e = queued.entry(t[1].to_string()).or_default().entry(ch).or_insert((vec![], 0));
                        if e.1 + len <= c.2 {
                            e.1 += len;
                            e.0.push(t[3].to_string());
                            ever_sent.entry(t[1].to_string()).or_default().insert(t[3].to_string());
                        }
                    }
                }
            }
            "flush" if t.len() == 2 => {
                let who = t[1].to_string();
                let q = match queued.remove(&who) {
                    Some(q) => q,
                    None => continue,
                };
                let mut carried: HashMap<u8, Vec<String>> = HashMap::new();
                let mut parts: HashMap<(u8, u64), Vec<(usize, Vec<u8>)>> = HashMap::new();
                let mut used = 0u64;
                for p in flush_packets(out) {
                    match decode(p) {
                        Some(WPacket::SmallUnreliable { channel_id, messages, .. }) => {
                            for m in messages {
                                used += m.len() as u64;
                                carried.entry(channel_id).or_default().push(if m.is_empty() { "-".to_string() } else { hex(&m) });
                            }
                        }
                        Some(WPacket::UnreliableSlice { channel_id, slice, .. }) => {
                            used += slice.payload.len() as u64;
                            parts.entry((channel_id, slice.message_id)).or_default().push((slice.slice_index, slice.payload.to_vec()));
                        }
                        Some(WPacket::SmallReliable { messages, .. }) => used += messages.iter().map(|(_, m)| m.len() as u64).sum::<u64>(),
                        Some(WPacket::ReliableSlice { .. }) => used += 1200,
                        Some(WPacket::Ack { .. }) => {}
                        None => return None,
                    }
                }
                for ((ch, _), mut v) in parts {
                    v.sort();
                    let m: Vec<u8> = v.into_iter().flat_map(|x| x.1).collect();
                    carried.entry(ch).or_default().push(hex(&m));
                }
                // "what does not fit is dropped whole": whatever an unreliable channel emits was queued since the
                // previous flush (the flush pops the whole queue); an older message turning up now was kept, not dropped
                for (ch, got) in carried.iter() {
                    let mut avail: Vec<String> = q.get(ch).map(|e| e.0.clone()).unwrap_or_default();
                    for g in got {
                        match avail.iter().position(|m| m == g) {
                            Some(pos) => {
                                avail.remove(pos);
                            }
                            None => {
                                if ever_sent.get(&who).map(|v| v.contains(g)).unwrap_or(false) {
                                    return fail(i, "unreliable-sent-late", format!("{} emits a {}-byte unreliable message on channel {} that was queued before an earlier flush (it should have gone out or been dropped then)", who, if g == "-" { 0 } else { g.len() / 2 }, ch));
                                }
                            }
                        }
                    }
                }
                for (ch, (msgs, _)) in q.iter() {
                    let mut got = carried.remove(ch).unwrap_or_default();
                    for m in msgs {
                        if let Some(pos) = got.iter().position(|g| g == m) {
                            got.remove(pos);
                            continue;
                        }
                        let len = if m == "-" { 0 } else { (m.len() / 2) as u64 };
                        if cfg.budget >= used && cfg.budget - used >= len {
                            pending.push((
                                i,
                                who.clone(),
                                OracleFail {
                                    at: i,
                                    signature: "unreliable-fits-but-dropped".into(),
                                    what: format!("{} dropped a {}-byte unreliable message on channel {} although the flush carried only {} of its {} budget bytes", who, len, ch, used, cfg.budget),
                                },
                            ));
                        }
                    }
                }
            }
            "stat" if t.len() == 2 && out == "connected" => {
                if let Some(pos) = pending.iter().position(|p| p.1 == t[1]) {
                    let mut f = pending.remove(pos).2;
                    f.at = i;
                    return Some(f);
                }
            }
            _ => {}
        }
    }
    None
}

/// C09 / C01 / C02 (duplication is harmless): between a `stat X` = connected and the next `stat X`, if the only
/// datagrams handed to X were re-deliveries of genuine peer packets X had already been given before (network
/// duplication: no new content) and nothing else was done to X, then X is still connected — in particular it is
/// "never disconnected for exhausted channel memory" by data it already holds.
fn oracle_duplicates_harmless(ops: &[String], outs: &[String]) -> Option<OracleFail> {
    let mut seen: HashMap<String, std::collections::HashSet<String>> = HashMap::new(); // endpoint -> delivered (from, k)
    let mut window: HashMap<String, (usize, bool, usize)> = HashMap::new(); // endpoint -> (op of connected stat, only dups so far, dup count)
    for (i, (op, out)) in ops.iter().zip(outs.iter()).enumerate() {
        let t: Vec<&str> = op.split(' ').collect();
        match t[0] {
            "raw" | "dlvm" | "rem" | "lnew" | "lproc" | "sdisc" | "sdiscall" | "disc" | "disct" | "ldisc" => return None,
            "stat" if t.len() == 2 => {
                if out == "connected" {
                    window.insert(t[1].to_string(), (i, true, 0));
                } else if out.starts_with("disconnected") {
                    if let Some((at, only_dups, n)) = window.remove(t[1]) {
                        if only_dups && n > 0 {
                            return fail(i, "duplicate-delivery-disconnects", format!("{} was connected at op {}, was then handed only {} duplicate(s) of datagrams it had already received, and is now `{}`", t[1], at, n, out));
                        }
                    }
                }
            }
            "dlv" if t.len() == 4 => {
                let key = format!("{}:{}", t[2], t[3]);
                let genuine = peer_of(t[1]).as_deref() == Some(t[2]);
                let dup = genuine && seen.get(t[1]).map(|s| s.contains(&key)).unwrap_or(false);
                if let Some(w) = window.get_mut(t[1]) {
                    if dup && out == "ok" {
                        w.2 += 1;
                    } else {
                        w.1 = false;
                    }
                }
                if genuine && out == "ok" {
                    seen.entry(t[1].to_string()).or_default().insert(key);
                }
            }
            // anything else done to an endpoint ends its window (send can fail a send channel, recv/upd/flush are
            // harmless but keep the rule simple and obviously sound)
            "send" | "recv" | "upd" | "flush" | "setc" | "setg" | "bcast" | "bcastx" if t.len() >= 2 => {
                let who = if t[0] == "upd" && t[1] == "srv" { None } else { Some(t[1].to_string()) };
                match who {
                    Some(w) => {
                        window.remove(&w);
                    }
                    None => window.retain(|k, _| !k.starts_with('s')),
                }
                if t[0] == "bcast" || t[0] == "bcastx" {
                    window.retain(|k, _| !k.starts_with('s'));
                }
            }
            _ => {}
        }
    }
    None
}

/// per (sender, channel): (worst-case bytes every message submitted so far can occupy on either side, channel budget).
/// A message of n bytes occupies n bytes at the sender and, at the receiver, n bytes once assembled or ceil(n/1200) x 1200
/// while its slices are collected; every message id is accounted at most once at any time on each side.
fn budget_sums(ops: &[String], upto: usize) -> HashMap<(String, u8), (u64, u64)> {
    let mut cfg = Cfg::default();
    let mut res: HashMap<(String, u8), (u64, u64)> = HashMap::new();
    let mut added: Vec<String> = vec![];
    let cost = |len: u64| if len > 1200 { (len + 1199) / 1200 * 1200 } else { len };
    for op in ops[..upto.min(ops.len())].iter() {
        let t: Vec<&str> = op.split(' ').collect();
        let mut add = |cfg: &Cfg, who: &str, ch: &str, bytes: u64| {
            if let Ok(ch) = ch.parse::<u8>() {
                let list = if who.starts_with('c') { &cfg.client } else { &cfg.server };
                if let Some(c) = list.iter().find(|c| c.0 == ch) {
                    let e = res.entry((who.to_string(), ch)).or_insert((0, c.2 as u64));
                    e.0 += bytes;
                }
            }
        };
        let hexlen = |h: &str| if h == "-" { 0 } else { (h.len() / 2) as u64 };
        match t[0] {
            "cfg" => {
                if let Some(c) = parse_cfg(op) {
                    cfg = c
                }
            }
            "add" if t.len() == 2 => added.push(t[1].to_string()),
            "send" if t.len() == 4 => add(&cfg, t[1], t[2], cost(hexlen(t[3]))),
            "sendn" if t.len() == 5 => add(&cfg, t[1], t[2], 5 * t[3].parse::<u64>().unwrap_or(0)),
            "bcast" if t.len() == 3 => {
                for id in added.iter() {
                    add(&cfg, &format!("s{}", id), t[1], cost(hexlen(t[2])));
                }
            }
            "bcastx" if t.len() == 4 => {
                for id in added.iter() {
                    if id != t[1] {
                        add(&cfg, &format!("s{}", id), t[2], cost(hexlen(t[3])));
                    }
                }
            }
            _ => {}
        }
    }
    res
}

/// C09 (last clause) / C01 / C02 (their "neither side has been disconnected" hypothesis must not be an escape hatch): "a
/// connection whose traffic stays within its budgets is never disconnected for exhausted channel memory". From the trace:
/// if everything ever submitted on a channel fits that channel's budget even when every message is counted at its worst
/// (see `budget_sums`) and the pair was fed nothing but each other's genuine packets, no status of either end may be a
/// Send/ReceiveChannelError of that channel.
fn oracle_in_budget(ops: &[String], outs: &[String]) -> Option<OracleFail> {
    let mut tainted: std::collections::HashSet<String> = Default::default();
    let mut seen_endpoint: std::collections::HashSet<String> = Default::default();
    let taint = |set: &mut std::collections::HashSet<String>, who: &str| {
        set.insert(who.to_string());
        if let Some(p) = peer_of(who) {
            set.insert(p);
        }
    };
    for (i, (op, out)) in ops.iter().zip(outs.iter()).enumerate() {
        let t: Vec<&str> = op.split(' ').collect();
        match t[0] {
            "lnew" | "lproc" | "ldisc" => return None,
            "cli" | "add" if t.len() == 2 => {
                let who = if t[0] == "cli" { format!("c{}", t[1]) } else { format!("s{}", t[1]) };
                if !seen_endpoint.insert(who.clone()) {
                    taint(&mut tainted, &who);
                }
            }
            "raw" | "dlvm" if t.len() > 1 => taint(&mut tainted, t[1]),
            "dlv" if t.len() == 4 => {
                if peer_of(t[1]).as_deref() != Some(t[2]) {
                    taint(&mut tainted, t[1]);
                }
            }
            "stat" if t.len() == 2 && out.starts_with("disconnected:") && !tainted.contains(t[1]) => {
                let (send_side, rest) = if let Some(r) = out.strip_prefix("disconnected:SendChannelError(") {
                    (true, r)
                } else if let Some(r) = out.strip_prefix("disconnected:ReceiveChannelError(") {
                    (false, r)
                } else {
                    continue;
                };
                let ch: u8 = match rest.split(',').next().and_then(|x| x.parse().ok()) {
                    Some(c) => c,
                    None => continue,
                };
                let sender = if send_side { t[1].to_string() } else { peer_of(t[1])? };
                let sums = budget_sums(ops, i);
                let (sum, max) = sums.get(&(sender.clone(), ch)).copied().unwrap_or((0, u64::MAX));
                if sum <= max {
                    return fail(i, "in-budget-memory-disconnect", format!("{} is `{}` although everything {} ever submitted on channel {} occupies at most {} bytes of the {}-byte budget and the pair saw only genuine packets", t[1], out, sender, ch, sum, max));
                }
            }
            _ => {}
        }
    }
    None
}

/// C15 (last clause, from the trace alone): once an Ack packet naming sequence q has been processed by
/// the endpoint that sent q less than 3 s (here: 2.9 s) earlier on its own clock, nothing q carried is
/// transmitted again. Independent of the implementation's own bookkeeping (the dump-based oracle trusts
/// the `acked` flags), so an acknowledgement the sender wrongly ignores is seen.
fn oracle_c15_acked(ops: &[String], outs: &[String]) -> Option<OracleFail> {
    let mut hist: HashMap<String, Vec<String>> = HashMap::new(); // endpoint -> emitted packets (hex), in order
    let mut sent: HashMap<String, HashMap<u64, Vec<(u64, Vec<(u8, u64, i64)>)>>> = HashMap::new(); // who -> seq -> every packet emitted under that sequence: (clock, entries)
    let mut acked: HashMap<String, HashMap<(u8, u64, i64), usize>> = HashMap::new();
    let mut clock: HashMap<String, u64> = HashMap::new();
    let clock_key = |w: &str| if w.starts_with('s') { "srv".to_string() } else { w.to_string() };
    for (i, (op, out)) in ops.iter().zip(outs.iter()).enumerate() {
        let t: Vec<&str> = op.split(' ').collect();
        match t[0] {
            "raw" | "dlvm" | "rem" | "lnew" | "lproc" | "enc" | "dec" => return None,
            "upd" if t.len() == 3 => {
                *clock.entry(t[1].to_string()).or_insert(0) += t[2].parse::<u64>().unwrap_or(0);
            }
            "flush" if t.len() == 2 => {
                let who = t[1].to_string();
                let now = *clock.get(&clock_key(&who)).unwrap_or(&0);
                for p in flush_packets(out) {
                    hist.entry(who.clone()).or_default().push(p.to_string());
                    let (seq, entries): (u64, Vec<(u8, u64, i64)>) = match decode(p) {
                        Some(WPacket::SmallReliable { sequence, channel_id, messages }) => (sequence, messages.iter().map(|(id, _)| (channel_id, *id, -1i64)).collect()),
                        Some(WPacket::ReliableSlice { sequence, channel_id, slice }) => (sequence, vec![(channel_id, slice.message_id, slice.slice_index as i64)]),
                        Some(_) => continue,
                        None => return None,
                    };
                    for e in entries.iter() {
                        if let Some(at) = acked.get(&who).and_then(|a| a.get(e)) {
                            return fail(i, "sent-after-ack-processed", format!("{} transmits channel {} message {} slice {} again although an acknowledgement for a packet carrying it was processed at op {}", who, e.0, e.1, e.2, at));
                        }
                    }
                    sent.entry(who.clone()).or_default().entry(seq).or_default().push((now, entries));
                }
            }
            "dlv" if t.len() == 4 && out == "ok" => {
                let (to, from) = (t[1].to_string(), t[2].to_string());
                if peer_of(&to).as_deref() != Some(from.as_str()) {
                    return None;
                }
                let k: usize = t[3].parse().ok()?;
                let now = *clock.get(&clock_key(&to)).unwrap_or(&0);
                if let Some(WPacket::Ack { ack_ranges, .. }) = hist.get(&from).and_then(|h| h.get(k)).and_then(|p| decode(p)) {
                    if let Some(mine) = sent.get(&to) {
                        for (seq, pkts) in mine.iter() {
                            for (at, entries) in pkts.iter() {
                                if now.saturating_sub(*at) < 2_900_000 && ack_ranges.iter().any(|r| r.start <= *seq && *seq < r.end) {
                                    for e in entries {
                                        acked.entry(to.clone()).or_default().entry(*e).or_insert(i);
                                    }
                                }
                            }
                        }
                    }
                }
            }
            _ => {}
        }
    }
    None
}

/// C15 (second clause) / C14 ("what does not fit waits for a later tick" — and only what does not fit), judged on the
/// TRACE's own clock and transmission history instead of the implementation's `last_sent` bookkeeping: at a `dump X`
/// immediately followed by `flush X`, every entry the dump lists as unacknowledged whose previous transmission (as seen in
/// X's earlier flushes; none = never transmitted) lies at least resend_time back on X's clock must be carried by this
/// flush, unless the budget does not allow it. "Budget allows" is decided soundly from the flush itself: the sender skips
/// a small message only when fewer budget bytes are left than its length and a slice only when fewer than 1200 are left;
/// what is left at that moment is at least the budget minus everything this flush carried. The verdict waits for a later
/// `stat X` = connected (a disconnected endpoint emits nothing).
fn oracle_c15_prompt_trace(ops: &[String], outs: &[String]) -> Option<OracleFail> {
    prompt_trace(ops, outs, false)
}

/// the C14 reading of the same rule: only FIRST transmissions are judged (when a retransmission is due is C15's business)
fn oracle_c14_fits_goes(ops: &[String], outs: &[String]) -> Option<OracleFail> {
    prompt_trace(ops, outs, true)
}

fn prompt_trace(ops: &[String], outs: &[String], first_only: bool) -> Option<OracleFail> {
    let mut cfg = Cfg::default();
    let mut clock: HashMap<String, u64> = HashMap::new();
    let mut last_tx: HashMap<(String, u8, u64, i64), u64> = HashMap::new();
    let mut srv_clock = 0u64;
    let mut born: HashMap<String, u64> = HashMap::new();
    let mut pending: Vec<(String, OracleFail)> = vec![];
    for (i, (op, out)) in ops.iter().zip(outs.iter()).enumerate() {
        let t: Vec<&str> = op.split(' ').collect();
        match t[0] {
            "cfg" => {
                if let Some(c) = parse_cfg(op) {
                    cfg = c
                }
            }
            "add" if t.len() == 2 => {
                born.entry(format!("s{}", t[1])).or_insert(srv_clock);
            }
            "rem" | "raw" | "dlvm" | "lnew" | "lproc" => return None,
            "upd" if t.len() == 3 => {
                let us: u64 = t[2].parse().unwrap_or(0);
                if t[1] == "srv" {
                    srv_clock += us;
                } else {
                    *clock.entry(t[1].to_string()).or_insert(0) += us;
                }
            }
            "stat" if t.len() == 2 && out == "connected" => {
                if let Some(pos) = pending.iter().position(|p| p.0 == t[1]) {
                    let mut f = pending.remove(pos).1;
                    f.at = i;
                    return Some(f);
                }
            }
            "flush" if t.len() == 2 => {
                let who = t[1];
                let now = if who.starts_with('s') { srv_clock - born.get(who).copied().unwrap_or(0) } else { *clock.get(who).unwrap_or(&0) };
                let mut carried: std::collections::HashSet<(u8, u64, i64)> = Default::default();
                let mut used = 0u64;
                let mut undecodable = false;
                for p in flush_packets(out) {
                    match decode(p) {
                        Some(pk) => {
                            used += payload_bytes(&pk);
                            match pk {
                                WPacket::SmallReliable { channel_id, messages, .. } => {
                                    for (id, _) in messages {
                                        carried.insert((channel_id, id, -1));
                                    }
                                }
                                WPacket::ReliableSlice { channel_id, slice, .. } => {
                                    carried.insert((channel_id, slice.message_id, slice.slice_index as i64));
                                }
                                _ => {}
                            }
                        }
                        None => undecodable = true,
                    }
                }
                let judged = i > 0 && ops[i - 1] == format!("dump {}", who) && outs[i - 1].starts_with("seq=") && !undecodable && !pending.iter().any(|p| p.0 == who);
                if judged {
                    let left = cfg.budget.saturating_sub(used);
                    let list = if who.starts_with('c') { &cfg.client } else { &cfg.server };
                    'blocks: for (name, b) in dump_blocks(&outs[i - 1]) {
                        if !name.starts_with("sr") {
                            continue;
                        }
                        let ch: u8 = name[2..].parse().unwrap_or(0);
                        let resend = list.iter().find(|c| c.0 == ch).map(|c| c.3).unwrap_or(0);
                        for e in field(&b, "un").unwrap_or("").split(';').filter(|x| !x.is_empty()) {
                            let (id, rest) = match e.split_once(':') {
                                Some(x) => x,
                                None => continue,
                            };
                            let id: u64 = id.parse().unwrap_or(0);
                            let head = rest.split('@').next().unwrap_or("");
                            // (slice index or -1, budget bytes the sender wants to see before sending it)
                            let mut items: Vec<(i64, u64)> = vec![];
                            if let Some(len) = head.strip_prefix('S') {
                                items.push((-1, len.parse().unwrap_or(u64::MAX)));
                            } else if head.starts_with('L') {
                                let f: Vec<&str> = head[1..].split(',').collect();
                                for (k, bit) in f.get(4).copied().unwrap_or("").chars().enumerate() {
                                    if bit == '0' {
                                        items.push((k as i64, 1200));
                                    }
                                }
                            }
                            for (sl, need) in items {
                                let key = (who.to_string(), ch, id, sl);
                                let due = match last_tx.get(&key) {
                                    None => true,
                                    Some(prev) => !first_only && now - prev >= resend,
                                };
                                if due && !carried.contains(&(ch, id, sl)) && left >= need {
                                    let sig = if cfg.budget >= 1_000_000 { "due-not-sent" } else { "due-fits-not-sent" };
                                    pending.push((
                                        who.to_string(),
                                        OracleFail {
                                            at: i,
                                            signature: sig.into(),
                                            what: format!(
                                                "{} channel {} message {} slice {} is unacknowledged at op {} and due on the trace's clock (previous transmission {:?} µs, now {} µs, resend_time {} µs), the flush carried {} of {} budget bytes, yet it is not in the flush",
                                                who, ch, id, sl, i, last_tx.get(&key), now, resend, used, cfg.budget
                                            ),
                                        },
                                    ));
                                    break 'blocks;
                                }
                            }
                        }
                    }
                }
                for (ch, id, sl) in carried {
                    last_tx.insert((who.to_string(), ch, id, sl), now);
                }
            }
            _ => {}
        }
    }
    None
}

/// C15 (not-early part + never-after-release): consecutive transmissions of the same reliable
/// message / slice are at least resend_time apart on the sender's clock.
fn oracle_c15(ops: &[String], outs: &[String]) -> Option<OracleFail> {
    let mut cfg = Cfg::default();
    let mut clock: HashMap<String, u64> = HashMap::new(); // endpoint -> µs
    let mut last_tx: HashMap<(String, u8, u64, i64), u64> = HashMap::new();
    let mut srv_clock = 0u64;
    let mut born: HashMap<String, u64> = HashMap::new(); // s<id> creation offset on the server clock
    for (i, (op, out)) in ops.iter().zip(outs.iter()).enumerate() {
        let t: Vec<&str> = op.split(' ').collect();
        match t[0] {
            "cfg" => {
                if let Some(c) = parse_cfg(op) {
                    cfg = c
                }
            }
            "add" if t.len() == 2 => {
                born.entry(format!("s{}", t[1])).or_insert(srv_clock);
            }
            "rem" | "raw" | "dlvm" | "lnew" | "lproc" => return None, // other engines
            "upd" if t.len() == 3 => {
                let us: u64 = t[2].parse().unwrap_or(0);
                if t[1] == "srv" {
                    srv_clock += us;
                } else {
                    *clock.entry(t[1].to_string()).or_insert(0) += us;
                }
            }
            "flush" if t.len() == 2 => {
                let who = t[1];
                let now = if who.starts_with('s') { srv_clock - born.get(who).copied().unwrap_or(0) } else { *clock.get(who).unwrap_or(&0) };
                for p in flush_packets(out) {
                    let pk = match decode(p) {
                        Some(p) => p,
                        None => continue,
                    };
                    let mut items: Vec<(u8, u64, i64)> = vec![];
                    match &pk {
                        WPacket::SmallReliable { channel_id, messages, .. } => {
                            for (id, _) in messages {
                                items.push((*channel_id, *id, -1));
                            }
                        }
                        WPacket::ReliableSlice { channel_id, slice, .. } => items.push((*channel_id, slice.message_id, slice.slice_index as i64)),
                        _ => {}
                    }
                    for (ch, id, sl) in items {
                        let list = if who.starts_with('c') { &cfg.client } else { &cfg.server };
                        let resend = list.iter().find(|c| c.0 == ch).map(|c| c.3).unwrap_or(0);
                        let key = (who.to_string(), ch, id, sl);
                        if let Some(prev) = last_tx.get(&key) {
                            if now - prev < resend {
                                return fail(i, "retransmitted-early", format!("{} channel {} message {} slice {}: retransmitted after {} µs, resend_time {} µs", who, ch, id, sl, now - prev, resend));
                            }
                        }
                        last_tx.insert(key, now);
                    }
                }
            }
            _ => {}
        }
    }
    None
}

/// C08: (a) every sequence number in an endpoint's pending acks was really delivered to it;
/// (b) a reliable message leaves the sender's unacked set only after packets carrying it (every
/// slice of it) were delivered to the peer endpoint.
fn oracle_c08(ops: &[String], outs: &[String]) -> Option<OracleFail> {
    let mut hist: HashMap<String, Vec<String>> = HashMap::new();
    let mut got_seq: HashMap<String, std::collections::HashSet<u64>> = HashMap::new();
    // delivered content per receiving endpoint: (ch, id, slice or -1)
    let mut got_item: HashMap<String, std::collections::HashSet<(u8, u64, i64)>> = HashMap::new();
    // what each sender ever emitted per (ch,id): number of slices (0 = small)
    let mut shape: HashMap<(String, u8, u64), u64> = HashMap::new();
    // every range an endpoint claims (pending list or emitted Ack packet) must consist of sequence numbers that were
    // handed to it: a range wider than the number of hand-overs cannot (no need to walk it: that is what a wrapped or
    // underflowed bound looks like), a narrower one is walked
    let check_range = |got: Option<&std::collections::HashSet<u64>>, a: u64, b: u64| -> Option<u64> {
        let n = got.map(|g| g.len() as u64).unwrap_or(0);
        if b < a {
            return Some(a);
        }
        if b - a > n {
            return Some((a..b).find(|s| !got.map(|g| g.contains(s)).unwrap_or(false)).unwrap_or(a));
        }
        (a..b).find(|s| !got.map(|g| g.contains(s)).unwrap_or(false))
    };
    for (i, (op, out)) in ops.iter().zip(outs.iter()).enumerate() {
        let t: Vec<&str> = op.split(' ').collect();
        match t[0] {
            "raw" | "dlvm" | "rem" | "lnew" | "lproc" => return None, // judged on honest-pair traces only
            "flush" if t.len() == 2 => {
                for p in flush_packets(out) {
                    hist.entry(t[1].to_string()).or_default().push(p.to_string());
                    match decode(p) {
                        Some(WPacket::Ack { ack_ranges, .. }) => {
                            for r in ack_ranges {
                                if let Some(bad) = check_range(got_seq.get(t[1]), r.start, r.end) {
                                    return fail(i, "ack-packet-unreceived-sequence", format!("{} emits an Ack packet with the range {}..{}, but no packet with sequence {} was delivered to it ({} distinct sequences were)", t[1], r.start, r.end, bad, got_seq.get(t[1]).map(|g| g.len()).unwrap_or(0)));
                                }
                            }
                        }
                        Some(WPacket::SmallReliable { channel_id, messages, .. }) => {
                            for (id, _) in messages {
                                shape.insert((t[1].to_string(), channel_id, id), 0);
                            }
                        }
                        Some(WPacket::ReliableSlice { channel_id, slice, .. }) => {
                            shape.insert((t[1].to_string(), channel_id, slice.message_id), slice.num_slices as u64);
                        }
                        _ => {}
                    }
                }
            }
            "dlv" if t.len() == 4 && out == "ok" => {
                let k: usize = t[3].parse().unwrap_or(usize::MAX);
                if let Some(p) = hist.get(t[2]).and_then(|h| h.get(k)) {
                    if let Some(pk) = decode(p) {
                        got_seq.entry(t[1].to_string()).or_default().insert(pk.sequence());
                        let set = got_item.entry(t[1].to_string()).or_default();
                        match pk {
                            WPacket::SmallReliable { channel_id, messages, .. } => {
                                for (id, _) in messages {
                                    set.insert((channel_id, id, -1));
                                }
                            }
                            WPacket::ReliableSlice { channel_id, slice, .. } => {
                                set.insert((channel_id, slice.message_id, slice.slice_index as i64));
                            }
                            _ => {}
                        }
                    }
                }
            }
            "dump" if out.starts_with("seq=") => {
                let who = t[1];
                // (a)
                if let Some(acks) = head_field(out, "acks") {
                    let got = got_seq.get(who);
                    for r in acks.split(';').filter(|x| !x.is_empty()) {
                        if let Some((a, b)) = r.split_once('-') {
                            let (a, b): (u64, u64) = (a.parse().unwrap_or(0), b.parse().unwrap_or(0));
                            if let Some(s) = check_range(got, a, b) {
                                return fail(i, "acks-unreceived-sequence", format!("{} holds the range {}-{} in its pending acks but no packet with sequence {} was delivered to it", who, a, b, s));
                            }
                        }
                    }
                }
                // (b)
                let peer = match peer_of(who) {
                    Some(p) => p,
                    None => continue,
                };
                for (name, b) in dump_blocks(out) {
                    if !name.starts_with("sr") {
                        continue;
                    }
                    let ch: u8 = name[2..].parse().unwrap_or(0);
                    let next: u64 = field(&b, "next").and_then(|x| x.parse().ok()).unwrap_or(0);
                    let un: std::collections::HashSet<u64> = field(&b, "un").unwrap_or("").split(';').filter(|x| !x.is_empty()).filter_map(|e| e.split(':').next()?.parse().ok()).collect();
                    let empty = std::collections::HashSet::new();
                    let got = got_item.get(&peer).unwrap_or(&empty);
                    for id in 0..next {
                        if un.contains(&id) {
                            continue;
                        }
                        match shape.get(&(who.to_string(), ch, id)) {
                            None => return fail(i, "released-never-sent", format!("{} released message {} of channel {} that it never transmitted", who, id, ch)),
                            Some(0) => {
                                if !got.contains(&(ch, id, -1)) {
                                    return fail(i, "released-before-delivery", format!("{} released message {} of channel {} although no packet carrying it was handed to {}", who, id, ch, peer));
                                }
                            }
                            Some(n) => {
                                for sl in 0..*n {
                                    if !got.contains(&(ch, id, sl as i64)) {
                                        return fail(i, "released-before-delivery", format!("{} released sliced message {} of channel {} although slice {} was never handed to {}", who, id, ch, sl, peer));
                                    }
                                }
                            }
                        }
                    }
                }
            }
            _ => {}
        }
    }
    None
}

pub fn oracles() -> Vec<Oracle> {
    vec![
        Oracle { prop: "C01", name: "ordered-prefix", engines: &["rn-pair", "rn-multi", "rn-timing", "rn-long", "rn-acks", "rn-tight", "rn-volume"], check: oracle_c01 },
        Oracle { prop: "C02", name: "unordered-once", engines: &["rn-pair", "rn-multi", "rn-timing", "rn-long", "rn-acks", "rn-tight", "rn-regress", "rn-volume"], check: oracle_c02 },
        Oracle { prop: "C02", name: "unordered-no-head-of-line", engines: &["rn-pair", "rn-multi", "rn-timing", "rn-long", "rn-acks", "rn-tight", "rn-regress", "rn-volume"], check: oracle_hol_unordered },
        Oracle { prop: "C11", name: "no-head-of-line", engines: &["rn-pair", "rn-multi", "rn-volume-mixed"], check: oracle_hol_any },
        Oracle { prop: "C03", name: "integrity", engines: &["rn-pair", "rn-unrel", "rn-volume-burst"], check: oracle_c03 },
        Oracle { prop: "C03", name: "integrity-delivery-bounded", engines: &["rn-pair", "rn-unrel", "rn-multi", "rn-bigmsg", "rn-volume-burst"], check: oracle_integrity },
        Oracle { prop: "C11", name: "only-what-was-sent-to-it", engines: &["rn-multi", "rn-hostile", "rn-pair", "rn-unrel", "rn-volume-mixed"], check: oracle_integrity },
        Oracle { prop: "C11", name: "disconnects-have-a-cause", engines: &["rn-multi", "rn-hostile", "rn-pair", "rn-unrel", "rn-volume-mixed"], check: oracle_disconnect_justified },
        Oracle { prop: "C06", name: "disconnects-have-a-cause", engines: &["rn-hostile", "rn-pair", "rn-tight", "rn-acks"], check: oracle_disconnect_justified },
        Oracle { prop: "C11", name: "bystander-ordered", engines: &["rn-hostile"], check: oracle_c01_bystander },
        Oracle { prop: "C11", name: "bystander-unordered", engines: &["rn-hostile"], check: oracle_c02_bystander },
        Oracle { prop: "C06", name: "bystander-ordered", engines: &["rn-hostile"], check: oracle_c01_bystander },
        Oracle { prop: "C06", name: "bystander-unordered", engines: &["rn-hostile"], check: oracle_c02_bystander },
        Oracle { prop: "C02", name: "bulk", engines: &["rn-huge"], check: oracle_bulk },
        Oracle { prop: "C01", name: "bulk", engines: &["rn-huge"], check: oracle_bulk },
        Oracle { prop: "C16", name: "roundtrip", engines: &["rn-wire"], check: oracle_c16 },
        Oracle { prop: "C08", name: "ack-encoding-roundtrip", engines: &["rn-wire"], check: oracle_c16_acks },
        Oracle { prop: "C16", name: "emitted-roundtrip", engines: &["rn-known", "rn-volume-seq", "rn-volume-burst", "rn-acks", "rn-long"], check: oracle_c16_emitted },
        Oracle { prop: "C16", name: "acks-are-the-set", engines: &["rn-sweep-acks"], check: oracle_sweep_acks },
        Oracle { prop: "C16", name: "ack-is-the-recorded-set", engines: &["rn-long", "rn-acks", "rn-volume-seq"], check: oracle_ack_is_recorded_set },
        Oracle { prop: "C08", name: "ack-is-the-recorded-set", engines: &["rn-pair", "rn-long", "rn-acks", "rn-timing", "rn-multi-ackgap", "rn-volume-mixed", "rn-volume-acks", "rn-timing-overflow"], check: oracle_ack_is_recorded_set },
        Oracle { prop: "C01", name: "ack-is-the-recorded-set", engines: &["rn-pair", "rn-long", "rn-tight", "rn-timing"], check: oracle_ack_is_recorded_set },
        Oracle { prop: "C08", name: "acks-are-the-set", engines: &["rn-sweep-acks"], check: oracle_sweep_acks },
        Oracle { prop: "C06", name: "no-panic-bounded", engines: &["rn-"], check: oracle_c06 },
        Oracle { prop: "C09", name: "query-api", engines: &["rn-pair"], check: oracle_cansend },
        Oracle { prop: "C09", name: "duplicates-harmless", engines: &["rn-tight", "rn-pair", "rn-timing"], check: oracle_duplicates_harmless },
        Oracle { prop: "C01", name: "duplicates-harmless", engines: &["rn-tight", "rn-pair", "rn-timing"], check: oracle_duplicates_harmless },
        Oracle { prop: "C02", name: "duplicates-harmless", engines: &["rn-tight", "rn-pair", "rn-timing"], check: oracle_duplicates_harmless },
        Oracle { prop: "C09", name: "in-budget-never-memory-disconnect", engines: &["rn-pair", "rn-long", "rn-acks", "rn-timing", "rn-tight", "rn-hostile", "rn-unrel", "rn-regress"], check: oracle_in_budget },
        Oracle { prop: "C01", name: "in-budget-never-memory-disconnect", engines: &["rn-pair", "rn-multi", "rn-long", "rn-acks", "rn-timing", "rn-tight", "rn-volume"], check: oracle_in_budget },
        Oracle { prop: "C02", name: "in-budget-never-memory-disconnect", engines: &["rn-pair", "rn-multi", "rn-long", "rn-acks", "rn-timing", "rn-tight", "rn-volume", "rn-regress"], check: oracle_in_budget },
        Oracle { prop: "C11", name: "local-exactly-once", engines: &["rn-local-rejoin"], check: oracle_local_exact },
        Oracle { prop: "C12", name: "server-queries", engines: &["rn-api"], check: oracle_server_queries },
        Oracle { prop: "C11", name: "server-queries", engines: &["rn-api"], check: oracle_server_queries },
        // rn-long is not an engine here / below: one quick case costs 6 s in the model, C14/C15/C11 do not list it
        Oracle { prop: "C15", name: "never-after-ack-processed", engines: &["rn-pair", "rn-timing", "rn-acks", "rn-tight", "rn-unrel", "rn-volume", "rn-slice-wrap"], check: oracle_c15_acked },
        Oracle { prop: "C14", name: "unreliable-work-conserving", engines: &["rn-unrel", "rn-pair"], check: oracle_unrel_work_conserving },
        Oracle { prop: "C11", name: "unreliable-work-conserving", engines: &["rn-unrel", "rn-pair"], check: oracle_unrel_work_conserving },
        Oracle { prop: "C09", name: "unreliable-in-budget", engines: &["rn-unrel"], check: oracle_unrel_budget },
        Oracle { prop: "C03", name: "unreliable-in-budget", engines: &["rn-unrel"], check: oracle_unrel_budget },
        Oracle { prop: "C09", name: "accounting", engines: &["rn-pair", "rn-hostile", "rn-regress", "rn-long", "rn-timing", "rn-acks", "rn-tight", "rn-sweep-slices", "rn-sweep-triples"], check: oracle_c09 },
        Oracle { prop: "C09", name: "accounting-exact", engines: &["rn-pair", "rn-hostile", "rn-regress", "rn-long", "rn-timing", "rn-acks", "rn-tight", "rn-sweep-slices", "rn-sweep-triples", "rn-unrel"], check: oracle_c09_exact },
        Oracle { prop: "C12", name: "finality-events", engines: &["rn-api", "rn-regress", "rn-hostile", "rn-events-burst", "rn-local-rejoin"], check: oracle_c12 },
        Oracle { prop: "C13", name: "packet-size", engines: &["rn-pair", "rn-regress", "rn-multi", "rn-hostile", "rn-long", "rn-timing", "rn-acks", "rn-volume", "rn-unrel", "rn-sweep-acks-cap"], check: oracle_c13 },
        Oracle { prop: "C13", name: "buildable-packets-serialize", engines: &["rn-wire"], check: oracle_c13_wire },
        Oracle { prop: "C14", name: "budget", engines: &["rn-pair", "rn-multi", "rn-unrel", "rn-timing"], check: oracle_c14 },
        Oracle { prop: "C15", name: "resend-timing", engines: &["rn-pair", "rn-timing"], check: oracle_c15 },
        Oracle { prop: "C15", name: "prompt-and-final", engines: &["rn-timing"], check: oracle_c15_prompt },
        Oracle { prop: "C15", name: "prompt-on-trace-clock", engines: &["rn-timing", "rn-pair"], check: oracle_c15_prompt_trace },
        Oracle { prop: "C14", name: "waits-only-if-it-does-not-fit", engines: &["rn-pair", "rn-timing"], check: oracle_c14_fits_goes },
        Oracle { prop: "C14", name: "reliable-waits-ordered", engines: &["rn-pair-smallbudget"], check: oracle_c01 },
        Oracle { prop: "C14", name: "reliable-waits-unordered", engines: &["rn-pair-smallbudget"], check: oracle_c02 },
        Oracle { prop: "C15", name: "retransmitted-until-obtained-ordered", engines: &["rn-timing-overflow", "rn-pair-smallbudget"], check: oracle_c01 },
        Oracle { prop: "C15", name: "retransmitted-until-obtained-unordered", engines: &["rn-timing-overflow", "rn-pair-smallbudget"], check: oracle_c02 },
        Oracle { prop: "C08", name: "release-after-delivery", engines: &["rn-pair", "rn-timing", "rn-long", "rn-acks", "rn-volume", "rn-multi-ackgap", "rn-slice-wrap"], check: oracle_c08 },
        Oracle { prop: "C11", name: "isolation-ordered", engines: &["rn-multi", "rn-volume-mixed"], check: oracle_c01 },
        Oracle { prop: "C11", name: "isolation-unordered", engines: &["rn-multi", "rn-volume-mixed"], check: oracle_c02 },
    ]
}
