// ---------------------------------------------------------------------------------------------
// Profiles (scripts) and trace oracles of the renet engine. Included into rn.rs.
//
// Conventions used by scripts and oracles:
//   * client handle h is the peer of server connection id 100+h  (c0 <-> s100, c1 <-> s101, …)
//   * `note <word>` is a no-op on both sides; scripts use it to tell the oracles about phases:
//       note healed     – a lossless phase long enough for the whole backlog has just ended
//       note quiescent  – additionally ≥ 3 s passed and everything was drained
// ---------------------------------------------------------------------------------------------

#[derive(Clone, Debug)]
pub struct Chan {
    pub id: u8,
    pub kind: &'static str, // U | RO | RU
    pub max_mem: usize,
    pub resend_us: u64,
}

fn chans_str(v: &[Chan]) -> String {
    let mut s = format!("{}", v.len());
    for c in v {
        s.push_str(&format!(" {} {} {} {}", c.id, c.kind, c.max_mem, c.resend_us));
    }
    s
}

pub fn cfg_line(budget: u64, server: &[Chan], client: &[Chan]) -> String {
    format!("cfg {} S {} C {}", budget, chans_str(server), chans_str(client))
}

fn gen_chans(rng: &mut Rng, small_mem: bool) -> Vec<Chan> {
    let n = rng.range(1, 4) as usize;
    let mut ids: Vec<u8> = vec![0, 1, 2, 3, 7, 200];
    let mut v = vec![];
    for _ in 0..n {
        let i = rng.below(ids.len() as u64) as usize;
        let id = ids.remove(i);
        let kind = rng.pick(&["U", "RO", "RU", "RO", "RU"]);
        let max_mem = if small_mem {
            rng.pick(&[1200usize, 2400, 3600, 5000, 12_000, 40_000])
        } else {
            rng.pick(&[40_000usize, 5 * 1024 * 1024, 200_000])
        };
        let resend_us = rng.pick(&[50_000u64, 100_000, 300_000, 0]);
        v.push(Chan { id, kind, max_mem, resend_us });
    }
    v
}

fn default_chans() -> Vec<Chan> {
    vec![
        Chan { id: 0, kind: "U", max_mem: 5 * 1024 * 1024, resend_us: 0 },
        Chan { id: 1, kind: "RU", max_mem: 5 * 1024 * 1024, resend_us: 300_000 },
        Chan { id: 2, kind: "RO", max_mem: 5 * 1024 * 1024, resend_us: 300_000 },
    ]
}

const SIZES: &[usize] = &[0, 1, 2, 17, 63, 64, 500, 1185, 1189, 1190, 1191, 1195, 1199, 1200, 1201, 1202, 2399, 2400, 2401, 3600, 3601, 4799, 6000];

fn gen_size(rng: &mut Rng) -> usize {
    match rng.below(10) {
        0..=3 => rng.below(200) as usize,
        4..=8 => rng.pick(SIZES),
        _ => rng.range(1000, 7000) as usize,
    }
}

fn pkts_count(out: &str) -> usize {
    let mut it = out.split(' ');
    if it.next() == Some("pkts") {
        it.next().and_then(|s| s.parse().ok()).unwrap_or(0)
    } else {
        0
    }
}

struct Net {
    // (due_tick, to, from, index, mutation)
    inflight: Vec<(u64, String, String, usize, Option<String>)>,
    emitted: HashMap<String, usize>,
}

impl Net {
    fn new() -> Self {
        Net { inflight: vec![], emitted: HashMap::new() }
    }
    /// flush `from`, schedule its new packets towards `to` under the fault profile
    fn flush(&mut self, rng: &mut Rng, ex: &mut dyn FnMut(&str) -> String, from: &str, to: &str, tick: u64, loss: u64, dup: u64, delay: u64) {
        let out = ex(&format!("flush {}", from));
        let k = pkts_count(&out);
        let base = *self.emitted.get(from).unwrap_or(&0);
        self.emitted.insert(from.to_string(), base + k);
        for i in base..base + k {
            if rng.chance(loss, 100) {
                continue;
            }
            let copies = if rng.chance(dup, 100) { 1 + rng.range(1, 3) } else { 1 };
            for _ in 0..copies {
                let d = if rng.chance(delay, 100) { rng.range(1, 6) } else { 0 };
                self.inflight.push((tick + d, to.to_string(), from.to_string(), i, None));
            }
        }
    }
    fn deliver_due(&mut self, rng: &mut Rng, ex: &mut dyn FnMut(&str) -> String, tick: u64, shuffle: bool) {
        let mut due: Vec<_> = vec![];
        let mut rest = vec![];
        for x in self.inflight.drain(..) {
            if x.0 <= tick {
                due.push(x)
            } else {
                rest.push(x)
            }
        }
        self.inflight = rest;
        if shuffle {
            for i in (1..due.len()).rev() {
                let j = rng.below(i as u64 + 1) as usize;
                due.swap(i, j);
            }
        }
        for (_, to, from, k, m) in due {
            match m {
                None => ex(&format!("dlv {} {} {}", to, from, k)),
                Some(m) => ex(&format!("dlvm {} {} {} {}", to, from, k, m)),
            };
        }
    }
}

fn drain(ex: &mut dyn FnMut(&str) -> String, who: &str, ch: u8, max: usize) {
    for _ in 0..max {
        if ex(&format!("recv {} {}", who, ch)) == "none" {
            break;
        }
    }
}

/// E2: one client (c0) and its server connection (s100) joined by a faulty network.
fn script_pair(rng: &mut Rng, tier: Tier, ex: &mut dyn FnMut(&str) -> String) {
    let custom = rng.chance(1, 2);
    let (sm1, sm2) = (rng.chance(1, 3), rng.chance(1, 3));
    let (sc, cc) = if custom { (gen_chans(rng, sm1), gen_chans(rng, sm2)) } else { (default_chans(), default_chans()) };
    let budget = rng.pick(&[60_000u64, 60_000, 12_000, 4800, 2400, 1200, 1300]);
    ex(&cfg_line(budget, &sc, &cc));
    ex("cli 0");
    ex("add 100");
    ex("setc 0");
    let ticks = if tier == Tier::Quick { rng.range(3, 14) } else { rng.range(5, 40) };
    let dt = rng.pick(&[16_000u64, 50_000, 100_000, 300_000, 301_000, 1_000_000]);
    let loss = rng.pick(&[0u64, 0, 10, 30, 60]);
    let dup = rng.pick(&[0u64, 10, 40]);
    let delay = rng.pick(&[0u64, 20, 50]);
    let shuffle = rng.chance(1, 2);
    let mut net = Net::new();
    let mut sent_bytes: u64 = 0;
    for tick in 0..ticks {
        // application sends
        let ns = rng.below(4);
        for _ in 0..ns {
            let from_client = rng.chance(1, 2);
            let chs = if from_client { &cc } else { &sc };
            let c = rng.pick(chs);
            let n = gen_size(rng);
            sent_bytes += n as u64;
            let m = rng.payload(n);
            ex(&format!("send {} {} {}", if from_client { "c0" } else { "s100" }, c.id, hex(&m)));
        }
        let jitter = if rng.chance(1, 4) { rng.below(dt + 1) } else { dt };
        ex(&format!("upd c0 {}", jitter));
        ex(&format!("upd srv {}", jitter));
        net.flush(rng, ex, "c0", "s100", tick, loss, dup, delay);
        net.flush(rng, ex, "s100", "c0", tick, loss, dup, delay);
        net.deliver_due(rng, ex, tick, shuffle);
        // application receives (sometimes between arrivals only partially)
        for c in cc.iter() {
            if rng.chance(2, 3) {
                drain(ex, "s100", c.id, rng.range(1, 6) as usize);
            }
        }
        for c in sc.iter() {
            if rng.chance(2, 3) {
                drain(ex, "c0", c.id, rng.range(1, 6) as usize);
            }
        }
        if rng.chance(1, 5) {
            ex("dump c0");
            ex("dump s100");
        }
    }
    // heal: lossless, in-order, long enough for the whole backlog
    if budget >= 1300 {
        let max_resend = sc.iter().chain(cc.iter()).map(|c| c.resend_us).max().unwrap_or(0);
        let hdt = max_resend + 1000;
        let need = (2 * sent_bytes / budget.max(1) + 6).min(200);
        let mut t = ticks + 10;
        net.deliver_due(rng, ex, t, false);
        for _ in 0..need {
            t += 1;
            ex(&format!("upd c0 {}", hdt));
            ex(&format!("upd srv {}", hdt));
            net.flush(rng, ex, "c0", "s100", t, 0, 0, 0);
            net.flush(rng, ex, "s100", "c0", t, 0, 0, 0);
            net.deliver_due(rng, ex, t, false);
            for c in cc.iter() {
                drain(ex, "s100", c.id, 10_000);
            }
            for c in sc.iter() {
                drain(ex, "c0", c.id, 10_000);
            }
        }
        ex("stat c0");
        ex("stat s100");
        ex("note healed");
        // quiescence: let stale unreliable fragments expire, everything acked
        ex("upd c0 3100000");
        ex("upd srv 3100000");
        for c in sc.iter() {
            ex(&format!("avail s100 {}", c.id));
        }
        for c in cc.iter() {
            ex(&format!("avail c0 {}", c.id));
        }
        ex("dump c0");
        ex("dump s100");
        ex("note quiescent");
    }
}

fn nontrivial_pair(t: &Trace) -> bool {
    t.outs.iter().any(|o| o.starts_with("msg "))
}

fn keep_cfg(ops: &[String]) -> usize {
    // cfg + endpoint creation lines
    let mut k = 0;
    for o in ops {
        if o.starts_with("cfg ") || o.starts_with("cli ") || o.starts_with("add ") || o.starts_with("setc ") {
            k += 1;
        } else {
            break;
        }
    }
    k
}

// ---------------------------------------------------------------------------------------------
// E1: renet wire format
// ---------------------------------------------------------------------------------------------
const MAGS: &[u64] = &[0, 1, 62, 63, 64, 65, 255, 256, 16382, 16383, 16384, 16385, 65535, 65536, (1 << 30) - 1, 1 << 30, (1 << 30) + 1, u32::MAX as u64, (1u64 << 62) - 2, (1u64 << 62) - 1];

fn gen_mag(rng: &mut Rng) -> u64 {
    match rng.below(4) {
        0 => rng.below(100),
        1 | 2 => rng.pick(MAGS),
        _ => rng.next_u64() >> rng.range(2, 63),
    }
}

fn gen_ranges(rng: &mut Rng, n: usize) -> Vec<(u64, u64)> {
    // ascending, non-adjacent, starting at a random magnitude
    let mut start = if rng.chance(1, 2) { rng.below(1000) } else { gen_mag(rng) >> 1 };
    let mut v = vec![];
    for _ in 0..n {
        let len = rng.pick(&[1u64, 1, 2, 3, 10, 100, 70000]);
        let end = start.saturating_add(len);
        if end > (1u64 << 62) {
            break;
        }
        v.push((start, end));
        let gap = rng.pick(&[1u64, 1, 2, 5, 63, 64, 16384, 1 << 31]);
        start = end.saturating_add(gap);
        if start >= (1u64 << 62) - 1 {
            break;
        }
    }
    v
}

fn gen_term(rng: &mut Rng) -> String {
    let seq = gen_mag(rng);
    let ch = rng.pick(&[0u64, 1, 2, 7, 200, 255]);
    match rng.below(5) {
        0 => {
            let n = rng.pick(&[0usize, 1, 2, 3, 10, 40]);
            let mut s = format!("SR {} {} {}", seq, ch, n);
            let mut budget = 1300i64;
            for _ in 0..n {
                let l = (rng.pick(&[0usize, 1, 5, 63, 64, 100, 600, 1185, 1190, 1200]) as i64).min(budget.max(0)) as usize;
                budget -= l as i64 + 10;
                s.push_str(&format!(" {} {}", gen_mag(rng), hex(&rng.payload(l))));
            }
            s
        }
        1 => {
            let n = rng.pick(&[0usize, 1, 2, 3, 10, 100, 600]);
            let mut s = format!("SU {} {} {}", seq, ch, n);
            let mut budget = 1300i64;
            for _ in 0..n {
                let l = (rng.pick(&[0usize, 0, 1, 5, 63, 64, 100, 600, 1199, 1200]) as i64).min(budget.max(0)) as usize;
                budget -= l as i64 + 2;
                s.push_str(&format!(" {}", hex(&rng.payload(l))));
            }
            s
        }
        2 | 3 => {
            let kind = if rng.chance(1, 2) { "RS" } else { "US" };
            let n = rng.pick(&[1u64, 2, 3, 100, 1_000_000, 1_000_001, 0]);
            let idx = if rng.chance(3, 4) { rng.below(n.max(1)) } else { gen_mag(rng) };
            let l = rng.pick(&[0usize, 1, 2, 600, 1199, 1200, 1201, 1300]);
            format!("{} {} {} {} {} {} {}", kind, seq, ch, gen_mag(rng), idx, n, hex(&rng.payload(l)))
        }
        _ => {
            let n = rng.pick(&[1usize, 1, 2, 3, 8, 32, 63, 64, 65, 90]);
            let r = gen_ranges(rng, n);
            let mut s = format!("AK {} {}", seq, r.len());
            for (a, b) in r {
                s.push_str(&format!(" {} {}", a, b));
            }
            s
        }
    }
}

fn script_wire(rng: &mut Rng, _tier: Tier, ex: &mut dyn FnMut(&str) -> String) {
    for _ in 0..12 {
        match rng.below(10) {
            0..=5 => {
                // structured value: encode, decode the encoding, re-encode the decoded term
                let term = gen_term(rng);
                let h = ex(&format!("enc {}", term));
                if h == "panic" {
                    return;
                }
                if !h.starts_with("err:") && h != "bad-op" {
                    let t2 = ex(&format!("dec {}", h));
                    if !t2.starts_with("err:") {
                        ex(&format!("enc {}", t2));
                    }
                    // malformed stream derived from a valid encoding
                    let b = unhex(&h).unwrap_or_default();
                    if !b.is_empty() {
                        match rng.below(4) {
                            0 => {
                                let cut = rng.below(b.len() as u64) as usize;
                                ex(&format!("dec {}", hex(&b[..cut])));
                            }
                            1 => {
                                let mut c = b.clone();
                                let i = rng.below(c.len().min(24) as u64) as usize;
                                c[i] ^= 1 << rng.below(8);
                                let o = ex(&format!("dec {}", hex(&c)));
                                if !o.starts_with("err:") {
                                    let h2 = ex(&format!("enc {}", o));
                                    if !h2.starts_with("err:") && h2 != "panic" {
                                        ex(&format!("dec {}", h2));
                                    }
                                }
                            }
                            2 => {
                                let mut c = b.clone();
                                let k = rng.below(8) as usize;
                                c.extend(rng.bytes(k));
                                ex(&format!("dec {}", hex(&c)));
                            }
                            _ => {}
                        }
                    }
                }
            }
            6 | 7 => {
                // raw bytes with a plausible type byte
                let n = rng.pick(&[0usize, 1, 2, 3, 5, 8, 12, 20, 40, 100, 1300, 1400]);
                let mut b = rng.bytes(n);
                if !b.is_empty() {
                    b[0] = rng.pick(&[0u8, 1, 2, 3, 4, 5, 255]);
                }
                let o = ex(&format!("dec {}", hex(&b)));
                if !o.starts_with("err:") {
                    let h2 = ex(&format!("enc {}", o));
                    if !h2.starts_with("err:") && h2 != "panic" {
                        ex(&format!("dec {}", h2));
                    }
                }
            }
            _ => {
                // non-canonical varints: a small value in a wide encoding
                let v = rng.below(64);
                let wide = match rng.below(3) {
                    0 => vec![0x40, v as u8],
                    1 => vec![0x80, 0, 0, v as u8],
                    _ => vec![0xc0, 0, 0, 0, 0, 0, 0, v as u8],
                };
                let mut b = vec![4u8];
                b.extend(&wide); // sequence
                b.extend(&[5, 2, 0]); // end 5 size 2 remaining 0
                let o = ex(&format!("dec {}", hex(&b)));
                if !o.starts_with("err:") {
                    let h2 = ex(&format!("enc {}", o));
                    if !h2.starts_with("err:") && h2 != "panic" {
                        ex(&format!("dec {}", h2));
                    }
                }
            }
        }
    }
}

/// is the term a value the library itself can build (the domain C16 quantifies over)?
fn term_wf(t: &str) -> bool {
    let v: Vec<&str> = t.split(' ').collect();
    let max = (1u64 << 62) - 1;
    let num = |s: &str| s.parse::<u64>().ok();
    match v[0] {
        "RS" | "US" if v.len() == 7 => {
            let n = num(v[5]).unwrap_or(0);
            let len = if v[6] == "-" { 0 } else { v[6].len() / 2 };
            n >= 1 && n <= 1_000_000 && (v[0] == "US" || (len >= 1 && len <= 1200)) && [v[1], v[3], v[4]].iter().all(|x| num(x).map(|x| x <= max).unwrap_or(false))
        }
        "AK" => {
            let mut prev_end: Option<u64> = None;
            let n = num(v[2]).unwrap_or(0) as usize;
            if n == 0 {
                return false;
            }
            for i in 0..n {
                let (s, e) = (num(v[3 + 2 * i]).unwrap_or(0), num(v[4 + 2 * i]).unwrap_or(0));
                if s >= e || e > max + 1 {
                    return false;
                }
                if let Some(pe) = prev_end {
                    if s <= pe {
                        return false;
                    }
                }
                prev_end = Some(e);
            }
            num(v[1]).map(|x| x <= max).unwrap_or(false)
        }
        _ => true,
    }
}

/// C16 on the implementation: `dec` of what `enc T` produced gives T; a decoded term re-encodes and
/// decodes to itself.
fn oracle_c16(ops: &[String], outs: &[String]) -> Option<OracleFail> {
    for i in 1..ops.len() {
        if let (Some(t), Some(h)) = (ops[i - 1].strip_prefix("enc "), ops[i].strip_prefix("dec ")) {
            if outs[i - 1] == h && outs[i] != t && term_wf(t) {
                return fail(i, "encode-decode-differs", format!("decode(encode(T)) != T for T = {}", &t[..t.len().min(100)]));
            }
        }
        if let (Some(_), Some(t)) = (ops[i - 1].strip_prefix("dec "), ops[i].strip_prefix("enc ")) {
            if outs[i - 1] == t && (outs[i] == "panic") {
                return fail(i, "reencode-panics", format!("re-encoding a decoded packet panics: {}", &t[..t.len().min(100)]));
            }
        }
    }
    None
}

pub fn profiles() -> Vec<Profile> {
    vec![Profile {
        name: "rn-wire",
        props: &["C16", "C13"],
        cases: |t| if t == Tier::Quick { 600 } else { 20000 },
        new_world,
        script: script_wire,
        nontrivial: |t| t.outs.iter().any(|o| o.starts_with("SR ") || o.starts_with("SU ") || o.starts_with("RS ") || o.starts_with("US ") || o.starts_with("AK ")),
        keep: |_| 0,
    },
    Profile {
        name: "rn-pair",
        props: &["C01", "C02", "C03", "C08", "C09", "C13", "C14", "C15"],
        cases: |t| if t == Tier::Quick { 300 } else { 4000 },
        new_world,
        script: script_pair,
        nontrivial: nontrivial_pair,
        keep: keep_cfg,
    }]
}

// ---------------------------------------------------------------------------------------------
// trace parsing
// ---------------------------------------------------------------------------------------------

#[derive(Default, Clone)]
pub struct Cfg {
    pub budget: u64,
    pub server: Vec<(u8, String, usize, u64)>,
    pub client: Vec<(u8, String, usize, u64)>,
}

pub fn parse_cfg(op: &str) -> Option<Cfg> {
    let t: Vec<&str> = op.split(' ').collect();
    if t.len() < 4 || t[0] != "cfg" {
        return None;
    }
    let mut c = Cfg { budget: t[1].parse().ok()?, ..Default::default() };
    let ns: usize = t[3].parse().ok()?;
    let mut i = 4;
    for _ in 0..ns {
        c.server.push((t[i].parse().ok()?, t[i + 1].to_string(), t[i + 2].parse().ok()?, t[i + 3].parse().ok()?));
        i += 4;
    }
    let nc: usize = t[i + 1].parse().ok()?;
    i += 2;
    for _ in 0..nc {
        c.client.push((t[i].parse().ok()?, t[i + 1].to_string(), t[i + 2].parse().ok()?, t[i + 3].parse().ok()?));
        i += 4;
    }
    Some(c)
}

/// peer of an endpoint name under the c<h> <-> s<100+h> convention
pub fn peer_of(who: &str) -> Option<String> {
    if let Some(h) = who.strip_prefix('c') {
        let h: u64 = h.parse().ok()?;
        return Some(format!("s{}", 100 + h));
    }
    if let Some(id) = who.strip_prefix('s') {
        let id: u64 = id.parse().ok()?;
        if id >= 100 {
            return Some(format!("c{}", id - 100));
        }
    }
    None
}

/// kind of channel `ch` for messages *sent by* `who`
pub fn send_kind(cfg: &Cfg, who: &str, ch: u8) -> Option<String> {
    let list = if who.starts_with('c') { &cfg.client } else { &cfg.server };
    list.iter().find(|c| c.0 == ch).map(|c| c.1.clone())
}

fn fail(at: usize, sig: &str, what: String) -> Option<OracleFail> {
    Some(OracleFail { at, what, signature: sig.to_string() })
}

/// C01: on every ordered channel the obtained sequence is a prefix of the submitted one;
/// after `note healed` with both ends connected, everything submitted was obtained.
fn oracle_c01(ops: &[String], outs: &[String]) -> Option<OracleFail> {
    reliable_oracle(ops, outs, "RO")
}

/// C02: on every unordered channel each obtained message equals a submitted one not obtained
/// before (multiset inclusion, byte-identical); liveness as C01.
fn oracle_c02(ops: &[String], outs: &[String]) -> Option<OracleFail> {
    reliable_oracle(ops, outs, "RU")
}

fn reliable_oracle(ops: &[String], outs: &[String], kind: &str) -> Option<OracleFail> {
    let mut cfg = Cfg::default();
    // (sender, ch) -> submitted messages (hex), and per entry whether it was obtained
    let mut submitted: HashMap<(String, u8), Vec<(String, bool)>> = HashMap::new();
    let mut obtained_n: HashMap<(String, u8), usize> = HashMap::new();
    let mut status: HashMap<String, String> = HashMap::new();
    for (i, (op, out)) in ops.iter().zip(outs.iter()).enumerate() {
        let t: Vec<&str> = op.split(' ').collect();
        match t[0] {
            "cfg" => {
                if let Some(c) = parse_cfg(op) {
                    cfg = c
                }
            }
            "send" if t.len() == 4 => {
                if let Ok(ch) = t[2].parse::<u8>() {
                    if send_kind(&cfg, t[1], ch).as_deref() == Some(kind) {
                        submitted.entry((t[1].to_string(), ch)).or_default().push((t[3].to_string(), false));
                    }
                }
            }
            "recv" if t.len() == 3 && out.starts_with("msg ") => {
                let ch: u8 = t[2].parse().ok()?;
                let sender = match peer_of(t[1]) {
                    Some(p) => p,
                    None => continue,
                };
                if send_kind(&cfg, &sender, ch).as_deref() != Some(kind) {
                    continue;
                }
                let m = &out[4..];
                let key = (sender.clone(), ch);
                let sub = submitted.entry(key.clone()).or_default();
                if kind == "RO" {
                    let n = *obtained_n.get(&key).unwrap_or(&0);
                    if n >= sub.len() {
                        return fail(i, "ordered-extra", format!("{} obtained a message on ordered channel {} beyond the {} submitted", t[1], ch, sub.len()));
                    }
                    if sub[n].0 != m {
                        return fail(i, "ordered-not-prefix", format!("{} obtained message #{} on ordered channel {} that differs from submitted #{}", t[1], n, ch, n));
                    }
                    obtained_n.insert(key, n + 1);
                } else {
                    match sub.iter_mut().find(|e| !e.1 && e.0 == m) {
                        Some(e) => e.1 = true,
                        None => {
                            return fail(i, "unordered-dup-or-fabricated", format!("{} obtained a message on unordered channel {} that was not submitted or was already obtained", t[1], ch));
                        }
                    }
                    *obtained_n.entry(key).or_insert(0) += 1;
                }
            }
            "stat" if t.len() == 2 => {
                status.insert(t[1].to_string(), out.clone());
            }
            "note" if t.len() == 2 && t[1] == "healed" => {
                for ((sender, ch), sub) in submitted.iter() {
                    let recv = match peer_of(sender) {
                        Some(p) => p,
                        None => continue,
                    };
                    let ok_status = |w: &str| status.get(w).map(|s| s == "connected").unwrap_or(false);
                    if !ok_status(sender) || !ok_status(&recv) {
                        continue;
                    }
                    let n = *obtained_n.get(&(sender.clone(), *ch)).unwrap_or(&0);
                    if n != sub.len() {
                        return fail(i, "not-delivered-after-heal", format!("channel {} {}→{}: {} of {} submitted messages obtained after the lossless phase", ch, sender, recv, n, sub.len()));
                    }
                }
            }
            _ => {}
        }
    }
    None
}

/// C03: whatever is obtained on channel c was submitted on channel c of the same connection
/// (any channel kind); unreliable: multiplicity bounded by deliveries is checked by count ≤ number
/// of submissions × max deliveries (conservative: a message obtained more often than the number of
/// times an identical message was submitted requires a duplicated delivery).
fn oracle_c03(ops: &[String], outs: &[String]) -> Option<OracleFail> {
    let mut submitted: HashMap<(String, u8), HashMap<String, usize>> = HashMap::new();
    let mut obtained: HashMap<(String, u8), HashMap<String, usize>> = HashMap::new();
    let mut dup_delivery = false;
    let mut seen_dlv: std::collections::HashSet<String> = std::collections::HashSet::new();
    for (i, (op, out)) in ops.iter().zip(outs.iter()).enumerate() {
        let t: Vec<&str> = op.split(' ').collect();
        match t[0] {
            "send" if t.len() == 4 => {
                if let Ok(ch) = t[2].parse::<u8>() {
                    *submitted.entry((t[1].to_string(), ch)).or_default().entry(t[3].to_string()).or_insert(0) += 1;
                }
            }
            "bcast" | "bcastx" | "lproc" | "raw" | "dlvm" => return None, // other engines' traces: judged by their own oracles
            "dlv" if t.len() == 4 => {
                if !seen_dlv.insert(format!("{} {} {}", t[1], t[2], t[3])) {
                    dup_delivery = true;
                }
            }
            "recv" if t.len() == 3 && out.starts_with("msg ") => {
                let ch: u8 = t[2].parse().ok()?;
                let sender = match peer_of(t[1]) {
                    Some(p) => p,
                    None => continue,
                };
                let m = out[4..].to_string();
                let n_sub = submitted.get(&(sender.clone(), ch)).and_then(|h| h.get(&m)).copied().unwrap_or(0);
                if n_sub == 0 {
                    return fail(i, "not-submitted", format!("{} obtained on channel {} a {}-hex-char message never submitted by {} on that channel", t[1], ch, m.len(), sender));
                }
                let e = obtained.entry((sender.clone(), ch)).or_default().entry(m).or_insert(0);
                *e += 1;
                if *e > n_sub && !dup_delivery {
                    return fail(i, "more-than-delivered", format!("{} obtained a message on channel {} more often ({}) than it was submitted ({}) although no packet was delivered twice", t[1], ch, *e, n_sub));
                }
            }
            _ => {}
        }
    }
    None
}

pub fn oracles() -> Vec<Oracle> {
    vec![
        Oracle { prop: "C01", name: "ordered-prefix", engines: &["rn-pair"], check: oracle_c01 },
        Oracle { prop: "C02", name: "unordered-once", engines: &["rn-pair"], check: oracle_c02 },
        Oracle { prop: "C03", name: "integrity", engines: &["rn-pair"], check: oracle_c03 },
        Oracle { prop: "C16", name: "roundtrip", engines: &["rn-wire"], check: oracle_c16 },
    ]
}
