//! Engine E5 — full stack over UDP (property C20).
//!
//! Real `NetcodeServerTransport` / `NetcodeClientTransport` on loopback sockets behind an
//! in-process relay (one front/back socket pair per client slot), single-threaded, virtual time.
//!
//! # What the transport glue does (reference for the Lean model `Transport/Glue`)
//!
//! Abbreviations: NS = `renetcode::NetcodeServer`, RS = `renet::RenetServer`,
//! NC = `renetcode::NetcodeClient`, RC = `renet::RenetClient`.  The application is expected to call
//! `RS.update(d)` / `RC.update(d)` itself *before* the transport's `update` (README order); the
//! ops `t-supd` / `t-cupd` below do exactly that.
//!
//! `handle(r)` for a `ServerResult r` (renet_netcode/src/server.rs `handle_server_result`):
//!   * `None`                                  -> nothing
//!   * `PacketToSend{addr,payload}`            -> `socket.send_to(payload, addr)` (error only logged)
//!   * `Payload{client_id,payload}`            -> `RS.process_packet_from(payload, client_id)` (ClientNotFound only logged)
//!   * `ClientConnected{client_id,addr,payload,..}` -> `RS.add_connection(client_id)` (no-op if the key
//!        exists; else inserts a connection already `set_connected()` and pushes event `ClientConnected`)
//!        THEN `send_to(payload, addr)` (the first keep-alive)
//!   * `ClientDisconnected{client_id,addr,payload}` -> `RS.remove_connection(client_id)` (if the key exists:
//!        removes it and pushes `ClientDisconnected{reason = stored reason or Transport}`) THEN, if
//!        `payload` is `Some`, `send_to(payload, addr)` (the Disconnect datagram, sent ONCE)
//!
//! `NetcodeServerTransport::update(d, RS)`:
//!   1. `NS.update(d)`              — clock += d; pending entries whose token expired are dropped
//!   2. loop `socket.recv_from` until `WouldBlock`/`Interrupted` (ConnectionReset skipped, any other
//!      io error returns `Err`): `handle(NS.process_packet(addr, buf))`
//!   3. for `id` in `NS.clients_id()` (snapshot, slot order): `handle(NS.update_client(id))`
//!        — timed-out slot is freed -> `ClientDisconnected{payload: Some(Disconnect)}`;
//!          else keep-alive `PacketToSend` when 250 ms passed since the last send to that client
//!   4. for `id` in `RS.disconnections_id()` (connections present but disconnected, HashMap order):
//!        `handle(NS.disconnect(id))` — frees the slot -> `ClientDisconnected` -> `RS.remove_connection`
//!        (event carries the stored reason, e.g. `DisconnectedByServer`); if NS does not know the id the
//!        result is `None` and the dead renet connection stays (cannot happen while lock-step holds)
//!   Lock-step invariant after step 4: keys(RS.connections) = RS.clients_id() = NS.clients_id().
//!
//! `NetcodeServerTransport::send_packets(RS)`: for `id` in `RS.clients_id()` (connected only):
//!   `pkts = RS.get_packets_to_send(id).unwrap()`; for each: `NS.generate_payload_packet(id, pkt)` ->
//!   `send_to`; on either error the remaining packets of THAT client are abandoned (they were already
//!   taken out of renet; reliable ones come back through the resend timer).
//!
//! `NetcodeServerTransport::disconnect_all(RS)`: for `id` in `NS.clients_id()`: `handle(NS.disconnect(id))`
//!   (immediate; events carry `Transport` for healthy connections).
//!
//! `NetcodeClientTransport::update(d, RC)`:
//!   1. if `NC.disconnect_reason() = Some(r)`: `RC.disconnect_due_to_transport()` (first reason wins);
//!      return `Err(Netcode(Disconnected(r)))`
//!   2. if `RC.disconnect_reason() = Some(e)`: `(addr,pkt) = NC.disconnect()?` (NC becomes
//!      `Disconnected(DisconnectedByClient)`, in whatever state it was, even mid-handshake);
//!      `send_to(pkt, addr)?`; return `Err(Renet(e))`
//!   3. if `NC.is_connected()` `RC.set_connected()` else if `NC.is_connecting()` `RC.set_connecting()`
//!   4. loop `recv_from` until `WouldBlock`/`Interrupted`: datagrams whose source is not `NC.server_addr()`
//!      are skipped; `if let Some(p) = NC.process_packet(buf) { RC.process_packet(p) }`
//!   5. `if let Some((pkt, addr)) = NC.update(d) { send_to(pkt, addr)? }` (request / response / keep-alive,
//!      rate limited to one per 250 ms; NC may time out here)
//!   Consequences: RC's status lags NC's by one `update` (step 3 precedes 4/5); an NC-level end learnt in
//!   step 4/5 (Disconnect datagram, time-out, denial) reaches RC only in step 1 of the NEXT update.
//!
//! `NetcodeClientTransport::send_packets(RC)`: `Err` if NC disconnected; `pkts = RC.get_packets_to_send()`;
//!   for each `NC.generate_payload_packet(pkt)?` (`ClientNotConnected` while the handshake runs: the
//!   packets taken are lost) then `send_to?`.
//!
//! `NetcodeClientTransport::disconnect()`: no-op if NC disconnected; else `NC.disconnect()` and send the
//!   Disconnect datagram immediately; RC learns at the next `update` (step 1, reason `Transport`).
//!
//! # Ops (one line in, one line out; `bad-op` for anything malformed)
//!
//!  t-new <nclients> <max_clients> <timeout_s> <expire_s> [<nslots> [<chanmem>]]   -> ok
//!        (<chanmem>: `max_memory_usage_bytes` of every channel on both sides instead of the default 5 MiB — a reliable
//!         message longer than that makes renet disconnect the connection: a disconnect decided by the message layer)
//!        server + relay with nslots (default nclients) front/back pairs + clients 0..nclients-1, ids 100+k
//!  t-cnew <k> <id>            -> ok | err:..   (re)place the client of slot k: fresh token at the server's
//!                                              virtual time, new socket, given id (relay queues are kept)
//!  t-cupd <k> <micros>        -> ok | err:<kind>   RC.update(d); transport.update(d, RC)
//!  t-csend <k>                -> ok | err:<kind>   transport.send_packets(RC)
//!  t-supd <micros>            -> ok | err:<kind>   RS.update(d); transport.update(d, RS)
//!  t-ssend                    -> ok
//!  t-q                        -> up 0:n 1:n .. down 0:n 1:n ..
//!  t-fwd <up|down> <k> <i>    -> ok | err:noitem | err:noclient     (item stays queued)
//!  t-fwdm <up|down> <k> <i> <flip:bit|trunc:len>  -> same (corrupted copy)
//!  t-fwdn <up|down> <k>       -> ok <n>    forward every never-forwarded item of slot k, in order
//!  t-fwdall <up|down>         -> ok <n>    the same for all slots, slot by slot
//!  t-mark                     -> ok        mark everything queued right now as forwarded (for t-fwdn/-all)
//!  t-send c<k>|s<id> <ch> <hex> -> ok | disc (RC already disconnected) | noconn (id not connected in RS)
//!  t-bcast <ch> <hex>         -> ok <ids,|->  (the connected ids it went to)
//!  t-recv c<k>|s<id> <ch>     -> msg <hex> | none
//!  t-recvall c<k>|s<id> <ch>  -> msgs <n> <hex>..
//!  t-ev                       -> none | connected <id> | disconnected <id> <reason>   (canonical order, see `collect_events`)
//!  t-state                    -> st rc=[..] rd=[..] nn=<n> nc=[..] bad=[..] c<k>=<id>:<renet status>/<netcode reason|->..
//!        rc/rd = RS.clients_id()/disconnections_id() sorted, nn = transport.connected_clients(),
//!        nc = known ids with transport.client_addr(id) = Some, bad = those whose address is no relay
//!        back socket or whose user data is not the token's; per slot with a client: its id, the
//!        RenetClient status (connected | connecting | disc:<renet reason>) and
//!        transport.disconnect_reason() (netcode reason or -)
//!  t-cdisc <k> | t-ctdisc <k> | t-sdisc <id> | t-sdiscall | t-rdiscall   -> ok
//!        (RenetClient::disconnect | client transport disconnect | RenetServer::disconnect | server transport
//!         disconnect_all | RenetServer::disconnect_all)
//!  t-stray <k> <i>            -> ok | err:noitem | err:noclient   item i of slot k's down queue is sent to the client's socket
//!                                              from the relay's BACK socket (not the client's server address): discarded
//!  t-junk <k|x> <len>         -> ok        <len> zero bytes (0 = an EMPTY datagram) reach the server socket from slot k's relay back
//!                                              socket (what the server knows as that client's address) or from a stranger
//!  t-setmax <n>               -> ok        NetcodeServerTransport::set_max_clients
//!  t-acc                      -> acc max=<n> pub=<count>:<addresses() = front sockets 0|1> s<id>=<idle ns|->.. c<k>=<client_id>:<addr() ok>:<idle ns>..
//!        (server transport: max_clients, addresses, time_since_last_received_packet per known id; client transports:
//!         client_id, addr, time_since_last_received_packet)
//!  note <word..>              -> ok   (markers for the oracles: lossless|benign|lossy|churn, heal-start,
//!                                      healed, silent <k>, blackhole <k>, settled, ghost)
//!
//! Timing: all durations are op arguments (virtual time); the only real-time waits are bounded polls for
//! loopback delivery (a sentinel datagram after every emitting call, `SO_MEMINFO` growth after every
//! forward), so a trace's outputs are a function of its op list (checked: identical outcome histograms
//! across repeated and heavily oversubscribed runs). Keys, nonces and ports differ from run to run but
//! never appear in an output.
//!
//! Model side: lean/RenetVerif/Transport/{Glue,Driver,ToyAead}.lean implement every op above with the same
//! outputs (virtual addresses, deterministic keys, toy AEAD); nothing in an op or output line names a
//! datagram byte, key or OS address, relay items are referred to by queue index only.
//!
//! # Profiles
//!  tp-lossless  1-3 clients, every datagram forwarded once, in order, in its tick; traffic on the three
//!               default channels both ways; heal; then per session one of: RenetClient::disconnect,
//!               transport.disconnect, RenetServer::disconnect, disconnect_all, client silent, relay
//!               black hole; `note settled`
//!  tp-faulty    `note benign` (duplicates, replays of old datagrams, corrupted copies, reordering; every
//!               genuine datagram still forwarded in its tick) or `note lossy` (additionally loss, delay
//!               by 1-3 ticks, corruption instead of delivery); ticks of 16-300 ms; optional disconnect in
//!               mid-fault; heal (5 x 301 ms lossless); `note healed`; disconnects; lossless or lossy
//!               end; `note settled`; in 1 of 8 cases the ghost probe (replay of an ended session's
//!               client->server history)
//!  tp-churn     max_clients 1-2, five relay slots, clients come, are denied, leave in all four ways,
//!               new clients (fresh token, new id) on free or re-used relay slots; lossless
//!  tp-bounce    0-2 bystander sessions; 1-2 clients whose session begins AND ends inside ONE server update: the relay
//!               keeps the connection response (for 0-2 server updates), the client disconnects (RenetClient::disconnect
//!               + update, or transport.disconnect) and response + Disconnect datagram are handed over together; the
//!               application reads its events right away or one server update later; optionally a fresh client on the
//!               bouncer's relay slot afterwards (ordinary session); `note settled`.
//!               (The other window — a connect event still unread when a LATER update removes the client — does not exist
//!               in this engine: `t-supd` / `t-sdiscall` move the events out of RenetServer right after the call, here and
//!               in the model, so `t-ev` only paces the reading of an already collected list.)
//!
//!  tp-rejoin    2-4 sessions; one or two leave (mostly NOT the one in the highest table slot), each in its own way; when they
//!               are gone new clients (fresh token, new id) join on a spare relay slot or on a leaver's; the sessions nobody
//!               ended keep exchanging messages all the time; traffic of everybody present, heal, `note healed` (C11: a
//!               well-behaved client's traffic keeps flowing whatever other clients do), ends, `note settled`
//!  tp-unconfirmed  tokens expiring (3-5 s) before the time-out (10-15 s); one client is never updated again from the moment
//!               the server accepted its response (unconfirmed session), 0-2 ordinary sessions; lossless rounds past expiry and
//!               time-out; `note settled`
//!  tp-reconnect  id 100 connected on relay slot 0, reliable messages M1 submitted to it, that client object never updated
//!               again; a second client object with the same id (fresh token, relay slot 1) knocks inside the time-out; M2
//!               submitted; the second object reads everything (C03 / C11 `tp-channels`: only what was submitted since it exists)
//!
//! # Oracles (prop C20; all pure functions of (ops, outs))
//!  tp-lockstep        (a) every t-state right after a t-supd: rc = nc, nn = |nc|, rd = [], bad = []
//!  tp-events          (b) per id connected/disconnected alternate starting with connected, ids exist;
//!                         right after a t-supd with the events drained: {last event connected} = rc
//!  tp-connect-once    (b') at most one `connected` event per id (one id = one client object = one
//!                         handshake in this harness)
//!  tp-propagation     (c) after an explicit disconnect, with verified lossless in-order forwarding: the
//!                         server has dropped the session after 2 (client update, server update) pairs
//!                         and the RenetClient reports disconnected after 2 (server update, client
//!                         update) pairs; at `note settled` the same is demanded once that bound or
//!                         time-out + 1 s of virtual time has passed (silent client / black hole / lossy)
//!  tp-channels        (d) ordered: obtained is a prefix of submitted; unordered reliable: each at most
//!                         once; unreliable: only submitted messages; at `note healed`, for sessions
//!                         connected on both sides at heal-start and at the end and never disconnected,
//!                         with >= 3 verified lossless rounds: everything reliable was obtained
//!  tp-no-spurious-end (e) lossless/benign traces whose ops show that nothing of the session was lost,
//!                         delayed or starved: no session ends before the script's own disconnect
//!                         (tp-churn: ConnectionDenied is allowed); lossy traces: an early end must look
//!                         like a time-out (client: netcode time-out reason or DisconnectedByServer with
//!                         renet reason Transport; server event reason Transport)
//!  tp-no-panic        (f)
//!  tp-session-events  (l) per session netcode reported connected (id listed in a `t-state`'s nc, or the bounce evidence:
//!                         see `oracle_session_events`): whenever the events have been read empty, exactly one
//!                         `connected <id>`; once the session is over, exactly one `disconnected <id>` after it
//! The oracles re-derive "lossless" from the ops (t-q/t-fwd bookkeeping, t-fwdn/t-fwdall flushes,
//! update alternation) instead of trusting the `note`, so that shrunk traces cannot turn a removed
//! forward into a false alarm.
use crate::common::*;
use renet::{ConnectionConfig, DisconnectReason, RenetClient, RenetServer, ServerEvent};

fn conn_config(mem: Option<usize>) -> ConnectionConfig {
    let mut c = ConnectionConfig::default();
    if let Some(m) = mem {
        for ch in c.server_channels_config.iter_mut().chain(c.client_channels_config.iter_mut()) {
            ch.max_memory_usage_bytes = m;
        }
    }
    c
}
use renet_netcode::{
    ClientAuthentication, ConnectToken, NetcodeClientTransport, NetcodeError, NetcodeServerTransport, NetcodeTransportError,
    ServerAuthentication, ServerConfig,
};
use std::collections::{BTreeMap, HashMap, HashSet};
use std::net::{SocketAddr, UdpSocket};
use std::time::Duration;

const PROTOCOL_ID: u64 = 7;
const BAD: &str = "bad-op";
const UP: usize = 0;
const DOWN: usize = 1;

fn reason_str(r: &DisconnectReason) -> String {
    use DisconnectReason::*;
    match r {
        Transport => "Transport".into(),
        DisconnectedByClient => "DisconnectedByClient".into(),
        DisconnectedByServer => "DisconnectedByServer".into(),
        PacketSerialization(e) => format!("PacketSerialization({:?})", e),
        PacketDeserialization(e) => format!("PacketDeserialization({:?})", e),
        ReceivedInvalidChannelId(c) => format!("ReceivedInvalidChannelId({})", c),
        SendChannelError { channel_id, error } => format!("SendChannelError({},{:?})", channel_id, error),
        ReceiveChannelError { channel_id, error } => format!("ReceiveChannelError({},{:?})", channel_id, error),
    }
}

fn nerr_str(e: &NetcodeError) -> String {
    match e {
        NetcodeError::Disconnected(r) => format!("Disconnected({:?})", r),
        NetcodeError::IoError(e) => format!("IoError({:?})", e.kind()),
        NetcodeError::TokenGenerationError(_) => "TokenGenerationError".into(),
        other => format!("{:?}", other),
    }
}

fn terr_str(e: &NetcodeTransportError) -> String {
    match e {
        NetcodeTransportError::Netcode(e) => format!("err:Netcode:{}", nerr_str(e)),
        NetcodeTransportError::Renet(r) => format!("err:Renet:{}", reason_str(r)),
        NetcodeTransportError::IO(e) => format!("err:IO:{:?}", e.kind()),
    }
}

fn mutate(b: &[u8], m: &str) -> Option<Vec<u8>> {
    let p: Vec<&str> = m.split(':').collect();
    let mut b = b.to_vec();
    match p.as_slice() {
        ["flip", bit] => {
            let bit: usize = bit.parse().ok()?;
            if !b.is_empty() {
                let bit = bit % (b.len() * 8);
                b[bit / 8] ^= 1u8 << (bit % 8);
            }
            Some(b)
        }
        ["trunc", n] => {
            let n: usize = n.parse().ok()?;
            b.truncate(n);
            Some(b)
        }
        _ => None,
    }
}

/// Receive-queue memory of a socket (Linux `SO_MEMINFO[SK_MEMINFO_RMEM_ALLOC]`); used only to wait
/// until a forwarded datagram really sits in the destination's queue before the next op runs.
#[cfg(target_os = "linux")]
fn rmem(sock: &UdpSocket) -> Option<u32> {
    use std::os::fd::AsRawFd;
    extern "C" {
        fn getsockopt(fd: i32, level: i32, name: i32, val: *mut core::ffi::c_void, len: *mut u32) -> i32;
    }
    let mut v = [0u32; 16];
    let mut len = (v.len() * 4) as u32;
    // SOL_SOCKET = 1, SO_MEMINFO = 55
    let r = unsafe { getsockopt(sock.as_raw_fd(), 1, 55, v.as_mut_ptr() as *mut core::ffi::c_void, &mut len) };
    if r == 0 && len >= 4 {
        Some(v[0])
    } else {
        None
    }
}
#[cfg(not(target_os = "linux"))]
fn rmem(_sock: &UdpSocket) -> Option<u32> {
    None
}

/// send and wait (bounded, real time) until the destination socket's queue has grown
fn send_confirm(from: &UdpSocket, to: SocketAddr, dest_probe: &UdpSocket, data: &[u8]) {
    let r0 = rmem(dest_probe);
    if from.send_to(data, to).is_err() {
        return;
    }
    if let Some(r0) = r0 {
        for i in 0..220 {
            match rmem(dest_probe) {
                Some(r) if r > r0 => return,
                None => return,
                _ => {}
            }
            if i < 200 {
                std::thread::yield_now();
            } else {
                std::thread::sleep(Duration::from_millis(1));
            }
        }
    }
}

struct Cl {
    id: u64,
    rc: RenetClient,
    tr: NetcodeClientTransport,
    addr: SocketAddr,
    probe: UdpSocket,
}

struct Slot {
    front: UdpSocket,
    front_addr: SocketAddr,
    back: UdpSocket,
    back_addr: SocketAddr,
    q: [Vec<Vec<u8>>; 2],
    fwd: [Vec<bool>; 2],
    client: Option<Cl>,
}

struct Inner {
    server: RenetServer,
    st: NetcodeServerTransport,
    server_addr: SocketAddr,
    server_probe: UdpSocket,
    server_time: Duration,
    key: [u8; 32],
    timeout_s: i32,
    expire_s: u64,
    chan_mem: Option<usize>,
    slots: Vec<Slot>,
    sentinel: UdpSocket,
    sentinel_addr: SocketAddr,
    /// a socket that belongs to nobody (hostile datagrams from an unknown address)
    stranger: UdpSocket,
    ids: Vec<u64>,
    /// server events in the canonical order in which `t-ev` hands them out
    evq: std::collections::VecDeque<String>,
}

pub struct TWorld {
    w: Option<Inner>,
}

pub fn new_world() -> Box<dyn World> {
    Box::new(TWorld { w: None })
}

fn user_data_for(id: u64) -> [u8; 256] {
    let mut u = [0u8; 256];
    u[..8].copy_from_slice(&id.to_le_bytes());
    for (i, b) in u.iter_mut().enumerate().skip(8) {
        *b = (i as u64 * 3 + id) as u8;
    }
    u
}

fn bind() -> Option<(UdpSocket, SocketAddr)> {
    let s = UdpSocket::bind("127.0.0.1:0").ok()?;
    s.set_nonblocking(true).ok()?;
    let a = s.local_addr().ok()?;
    Some((s, a))
}

/// Pull everything that reached `sock` into `q`. A sentinel datagram sent by the harness after the
/// emitting call marks the end (loopback keeps the order), so the result does not depend on timing;
/// the wait for the sentinel is bounded (20 x 1 ms) and running out of it is not an error.
fn drain_into(sock: &UdpSocket, sock_addr: SocketAddr, sentinel: &UdpSocket, sentinel_addr: SocketAddr, q: &mut Vec<Vec<u8>>, fl: &mut Vec<bool>) {
    let mut buf = [0u8; 2048];
    let sent = sentinel.send_to(&[0xEE], sock_addr).is_ok();
    let mut seen = !sent;
    let mut tries = 0;
    loop {
        match sock.recv_from(&mut buf) {
            Ok((n, src)) => {
                if src == sentinel_addr {
                    seen = true;
                } else {
                    q.push(buf[..n].to_vec());
                    fl.push(false);
                }
            }
            Err(_) => {
                if seen || tries >= 20 {
                    break;
                }
                tries += 1;
                std::thread::sleep(Duration::from_millis(1));
            }
        }
    }
}

impl Inner {
    /// Move the events a server call produced into `evq`. `RenetServer::disconnections_id()` walks a
    /// HashMap, so the events of step 4 of `update` come in an arbitrary order: the maximal trailing run
    /// of `disconnected` events whose reason is not `Transport` is sorted by id (the model does the same).
    fn collect_events(&mut self) {
        let mut batch: Vec<(bool, u64, String)> = vec![];
        while let Some(e) = self.server.get_event() {
            batch.push(match e {
                ServerEvent::ClientConnected { client_id } => (false, client_id, format!("connected {}", client_id)),
                ServerEvent::ClientDisconnected { client_id, reason } => {
                    (reason != DisconnectReason::Transport, client_id, format!("disconnected {} {}", client_id, reason_str(&reason)))
                }
            });
        }
        let mut cut = batch.len();
        while cut > 0 && batch[cut - 1].0 {
            cut -= 1;
        }
        batch[cut..].sort_by_key(|e| e.1);
        for e in batch {
            self.evq.push_back(e.2);
        }
    }
    fn drain_front(&mut self, k: usize) {
        let s = &mut self.slots[k];
        let (a, b) = s.q.split_at_mut(1);
        let _ = b;
        let (fa, _) = s.fwd.split_at_mut(1);
        drain_into(&s.front, s.front_addr, &self.sentinel, self.sentinel_addr, &mut a[0], &mut fa[0]);
    }
    fn drain_backs(&mut self) {
        for s in self.slots.iter_mut() {
            let (_, b) = s.q.split_at_mut(1);
            let (_, fb) = s.fwd.split_at_mut(1);
            drain_into(&s.back, s.back_addr, &self.sentinel, self.sentinel_addr, &mut b[0], &mut fb[0]);
        }
    }
    fn make_client(&mut self, k: usize, id: u64) -> Result<(), String> {
        let (sock, addr) = bind().ok_or("err:bind")?;
        let probe = sock.try_clone().map_err(|_| "err:clone".to_string())?;
        let ud = user_data_for(id);
        let token = ConnectToken::generate(
            self.server_time,
            PROTOCOL_ID,
            self.expire_s,
            id,
            self.timeout_s,
            vec![self.slots[k].front_addr],
            Some(&ud),
            &self.key,
        )
        .map_err(|_| "err:token".to_string())?;
        let tr = NetcodeClientTransport::new(self.server_time, ClientAuthentication::Secure { connect_token: token }, sock)
            .map_err(|e| format!("err:Netcode:{}", nerr_str(&e)))?;
        let rc = RenetClient::new(conn_config(self.chan_mem));
        self.slots[k].client = Some(Cl { id, rc, tr, addr, probe });
        if !self.ids.contains(&id) {
            self.ids.push(id);
        }
        Ok(())
    }
    fn forward(&mut self, dir: usize, k: usize, i: usize, m: Option<&str>) -> String {
        let s = match self.slots.get_mut(k) {
            Some(s) => s,
            None => return BAD.into(),
        };
        let data = match s.q[dir].get(i) {
            Some(d) => d.clone(),
            None => return "err:noitem".into(),
        };
        let data = match m {
            None => data,
            Some(m) => match mutate(&data, m) {
                Some(d) => d,
                None => return BAD.into(),
            },
        };
        if dir == UP {
            send_confirm(&s.back, self.server_addr, &self.server_probe, &data);
        } else {
            match &s.client {
                None => return "err:noclient".into(),
                Some(c) => send_confirm(&s.front, c.addr, &c.probe, &data),
            }
        }
        if m.is_none() {
            s.fwd[dir][i] = true;
        }
        "ok".into()
    }
    fn forward_new(&mut self, dir: usize, k: usize) -> usize {
        let todo: Vec<usize> = (0..self.slots[k].q[dir].len()).filter(|i| !self.slots[k].fwd[dir][*i]).collect();
        let mut n = 0;
        for i in todo {
            if self.forward(dir, k, i, None) == "ok" {
                n += 1;
            } else {
                // no client behind the slot: the item is gone for t-fwdn/-all purposes
                self.slots[k].fwd[dir][i] = true;
            }
        }
        n
    }
}

fn ids_str(v: &[u64]) -> String {
    let v: Vec<String> = v.iter().map(|x| x.to_string()).collect();
    format!("[{}]", v.join(","))
}

enum Who {
    C(usize),
    S(u64),
}

fn parse_who(s: &str) -> Option<Who> {
    if let Some(r) = s.strip_prefix('c') {
        return r.parse().ok().map(Who::C);
    }
    if let Some(r) = s.strip_prefix('s') {
        return r.parse().ok().map(Who::S);
    }
    None
}

fn parse_dir(s: &str) -> Option<usize> {
    match s {
        "up" => Some(UP),
        "down" => Some(DOWN),
        _ => None,
    }
}

impl World for TWorld {
    fn exec(&mut self, op: &str) -> String {
        let t: Vec<&str> = op.split(' ').filter(|s| !s.is_empty()).collect();
        if t.is_empty() {
            return BAD.into();
        }
        macro_rules! num {
            ($s:expr, $ty:ty) => {
                match $s.parse::<$ty>() {
                    Ok(v) => v,
                    Err(_) => return BAD.into(),
                }
            };
        }
        if t[0] == "note" {
            return "ok".into();
        }
        if t[0] == "t-new" {
            if t.len() != 5 && t.len() != 6 && t.len() != 7 {
                return BAD.into();
            }
            let chan_mem: Option<usize> = if t.len() == 7 { Some(num!(t[6], usize)) } else { None };
            if chan_mem.map(|m| m < 1000).unwrap_or(false) {
                return BAD.into();
            }
            let n = num!(t[1], usize);
            let maxc = num!(t[2], usize);
            let timeout_s = num!(t[3], i32);
            let expire_s = num!(t[4], u64);
            let nslots = if t.len() >= 6 { num!(t[5], usize) } else { n };
            if n > nslots || nslots == 0 || nslots > 16 || maxc == 0 || maxc > 64 {
                return BAD.into();
            }
            let mut slots = vec![];
            for _ in 0..nslots {
                let (front, front_addr) = match bind() {
                    Some(x) => x,
                    None => return "err:bind".into(),
                };
                let (back, back_addr) = match bind() {
                    Some(x) => x,
                    None => return "err:bind".into(),
                };
                slots.push(Slot { front, front_addr, back, back_addr, q: [vec![], vec![]], fwd: [vec![], vec![]], client: None });
            }
            let (ssock, server_addr) = match bind() {
                Some(x) => x,
                None => return "err:bind".into(),
            };
            let server_probe = match ssock.try_clone() {
                Ok(p) => p,
                Err(_) => return "err:clone".into(),
            };
            let (sentinel, sentinel_addr) = match bind() {
                Some(x) => x,
                None => return "err:bind".into(),
            };
            let stranger = match bind() {
                Some(x) => x.0,
                None => return "err:bind".into(),
            };
            let mut key = [0u8; 32];
            for (i, b) in key.iter_mut().enumerate() {
                *b = (i as u8).wrapping_mul(37).wrapping_add(11);
            }
            let cfg = ServerConfig {
                current_time: Duration::ZERO,
                max_clients: maxc,
                protocol_id: PROTOCOL_ID,
                public_addresses: slots.iter().map(|s| s.front_addr).collect(),
                authentication: ServerAuthentication::Secure { private_key: key },
            };
            let st = match NetcodeServerTransport::new(cfg, ssock) {
                Ok(s) => s,
                Err(_) => return "err:server".into(),
            };
            let mut w = Inner {
                server: RenetServer::new(conn_config(chan_mem)),
                st,
                server_addr,
                server_probe,
                server_time: Duration::ZERO,
                key,
                timeout_s,
                expire_s,
                chan_mem,
                slots,
                sentinel,
                sentinel_addr,
                stranger,
                ids: vec![],
                evq: Default::default(),
            };
            for k in 0..n {
                if let Err(e) = w.make_client(k, 100 + k as u64) {
                    return e;
                }
            }
            self.w = Some(w);
            return "ok".into();
        }
        let w = match self.w.as_mut() {
            Some(w) => w,
            None => return BAD.into(),
        };
        macro_rules! client {
            ($k:expr) => {
                match w.slots.get_mut($k).and_then(|s| s.client.as_mut()) {
                    Some(c) => c,
                    None => return BAD.into(),
                }
            };
        }
        match t[0] {
            "t-cnew" if t.len() == 3 => {
                let k = num!(t[1], usize);
                let id = num!(t[2], u64);
                if k >= w.slots.len() {
                    return BAD.into();
                }
                match w.make_client(k, id) {
                    Ok(()) => "ok".into(),
                    Err(e) => e,
                }
            }
            "t-cupd" if t.len() == 3 => {
                let k = num!(t[1], usize);
                let d = Duration::from_micros(num!(t[2], u64));
                let c = client!(k);
                c.rc.update(d);
                let r = match c.tr.update(d, &mut c.rc) {
                    Ok(()) => "ok".to_string(),
                    Err(e) => terr_str(&e),
                };
                w.drain_front(k);
                r
            }
            "t-csend" if t.len() == 2 => {
                let k = num!(t[1], usize);
                let c = client!(k);
                let r = match c.tr.send_packets(&mut c.rc) {
                    Ok(()) => "ok".to_string(),
                    Err(e) => terr_str(&e),
                };
                w.drain_front(k);
                r
            }
            "t-supd" if t.len() == 2 => {
                let d = Duration::from_micros(num!(t[1], u64));
                w.server_time += d;
                w.server.update(d);
                let r = match w.st.update(d, &mut w.server) {
                    Ok(()) => "ok".to_string(),
                    Err(e) => terr_str(&e),
                };
                w.collect_events();
                w.drain_backs();
                r
            }
            "t-ssend" if t.len() == 1 => {
                w.st.send_packets(&mut w.server);
                w.drain_backs();
                "ok".into()
            }
            "t-q" if t.len() == 1 => {
                let mut s = String::from("up");
                for (k, sl) in w.slots.iter().enumerate() {
                    s.push_str(&format!(" {}:{}", k, sl.q[UP].len()));
                }
                s.push_str(" down");
                for (k, sl) in w.slots.iter().enumerate() {
                    s.push_str(&format!(" {}:{}", k, sl.q[DOWN].len()));
                }
                s
            }
            "t-fwd" | "t-fwdm" if (t[0] == "t-fwd" && t.len() == 4) || (t[0] == "t-fwdm" && t.len() == 5) => {
                let dir = match parse_dir(t[1]) {
                    Some(d) => d,
                    None => return BAD.into(),
                };
                let k = num!(t[2], usize);
                let i = num!(t[3], usize);
                w.forward(dir, k, i, if t[0] == "t-fwdm" { Some(t[4]) } else { None })
            }
            "t-fwdn" if t.len() == 3 => {
                let dir = match parse_dir(t[1]) {
                    Some(d) => d,
                    None => return BAD.into(),
                };
                let k = num!(t[2], usize);
                if k >= w.slots.len() {
                    return BAD.into();
                }
                format!("ok {}", w.forward_new(dir, k))
            }
            "t-fwdall" if t.len() == 2 => {
                let dir = match parse_dir(t[1]) {
                    Some(d) => d,
                    None => return BAD.into(),
                };
                let mut n = 0;
                for k in 0..w.slots.len() {
                    n += w.forward_new(dir, k);
                }
                format!("ok {}", n)
            }
            "t-mark" if t.len() == 1 => {
                for s in w.slots.iter_mut() {
                    for d in 0..2 {
                        for f in s.fwd[d].iter_mut() {
                            *f = true;
                        }
                    }
                }
                "ok".into()
            }
            "t-send" if t.len() == 4 => {
                let ch = num!(t[2], u8);
                if ch > 2 {
                    return BAD.into();
                }
                let m = match unhex(t[3]) {
                    Some(m) => m,
                    None => return BAD.into(),
                };
                match parse_who(t[1]) {
                    Some(Who::C(k)) => {
                        let c = client!(k);
                        if c.rc.is_disconnected() {
                            return "disc".into();
                        }
                        c.rc.send_message(ch, m);
                        "ok".into()
                    }
                    Some(Who::S(id)) => {
                        if !w.server.is_connected(id) {
                            return "noconn".into();
                        }
                        w.server.send_message(id, ch, m);
                        "ok".into()
                    }
                    None => BAD.into(),
                }
            }
            "t-bcast" if t.len() == 3 => {
                let ch = num!(t[1], u8);
                if ch > 2 {
                    return BAD.into();
                }
                let m = match unhex(t[2]) {
                    Some(m) => m,
                    None => return BAD.into(),
                };
                let mut ids = w.server.clients_id();
                ids.sort();
                w.server.broadcast_message(ch, m);
                if ids.is_empty() {
                    "ok -".into()
                } else {
                    let v: Vec<String> = ids.iter().map(|x| x.to_string()).collect();
                    format!("ok {}", v.join(","))
                }
            }
            "t-recv" | "t-recvall" if t.len() == 3 => {
                let ch = num!(t[2], u8);
                if ch > 2 {
                    return BAD.into();
                }
                let all = t[0] == "t-recvall";
                let mut got: Vec<String> = vec![];
                loop {
                    let m = match parse_who(t[1]) {
                        Some(Who::C(k)) => client!(k).rc.receive_message(ch),
                        Some(Who::S(id)) => w.server.receive_message(id, ch),
                        None => return BAD.into(),
                    };
                    match m {
                        None => break,
                        Some(m) => got.push(hex(&m)),
                    }
                    if !all || got.len() >= 100_000 {
                        break;
                    }
                }
                if all {
                    let mut s = format!("msgs {}", got.len());
                    for g in got {
                        s.push(' ');
                        s.push_str(&g);
                    }
                    s
                } else {
                    match got.pop() {
                        None => "none".into(),
                        Some(g) => format!("msg {}", g),
                    }
                }
            }
            "t-ev" if t.len() == 1 => w.evq.pop_front().unwrap_or_else(|| "none".to_string()),
            "t-state" if t.len() == 1 => {
                let mut rc = w.server.clients_id();
                rc.sort();
                let mut rd = w.server.disconnections_id();
                rd.sort();
                let mut ids = w.ids.clone();
                ids.sort();
                let mut nc = vec![];
                let mut bad = vec![];
                for id in ids {
                    if let Some(a) = w.st.client_addr(id) {
                        nc.push(id);
                        // the slot whose client (current or former) owns this id: the back address tells
                        let addr_ok = w.slots.iter().any(|s| s.back_addr == a);
                        let ud_ok = w.st.user_data(id).map(|u| u == user_data_for(id)).unwrap_or(false);
                        if !addr_ok || !ud_ok {
                            bad.push(id);
                        }
                    }
                }
                let mut s = format!("st rc={} rd={} nn={} nc={} bad={}", ids_str(&rc), ids_str(&rd), w.st.connected_clients(), ids_str(&nc), ids_str(&bad));
                for (k, sl) in w.slots.iter().enumerate() {
                    if let Some(c) = &sl.client {
                        let rs = if c.rc.is_connected() {
                            "connected".to_string()
                        } else if c.rc.is_connecting() {
                            "connecting".to_string()
                        } else {
                            format!("disc:{}", c.rc.disconnect_reason().map(|r| reason_str(&r)).unwrap_or_default())
                        };
                        let nr = match c.tr.disconnect_reason() {
                            None => "-".to_string(),
                            Some(r) => format!("{:?}", r),
                        };
                        s.push_str(&format!(" c{}={}:{}/{}", k, c.id, rs, nr));
                    }
                }
                s
            }
            "t-cdisc" if t.len() == 2 => {
                let k = num!(t[1], usize);
                client!(k).rc.disconnect();
                "ok".into()
            }
            "t-ctdisc" if t.len() == 2 => {
                let k = num!(t[1], usize);
                client!(k).tr.disconnect();
                w.drain_front(k);
                "ok".into()
            }
            "t-sdisc" if t.len() == 2 => {
                let id = num!(t[1], u64);
                w.server.disconnect(id);
                "ok".into()
            }
            "t-stray" if t.len() == 3 => {
                // a genuine datagram of the slot's down queue reaches the client's socket from the relay's BACK socket,
                // i.e. from an address that is not the client's server address: it must be discarded
                let k = num!(t[1], usize);
                let i = num!(t[2], usize);
                let s = match w.slots.get(k) {
                    Some(s) => s,
                    None => return BAD.into(),
                };
                let data = match s.q[DOWN].get(i) {
                    Some(d) => d.clone(),
                    None => return "err:noitem".into(),
                };
                match &s.client {
                    None => "err:noclient".into(),
                    Some(c) => {
                        send_confirm(&s.back, c.addr, &c.probe, &data);
                        "ok".into()
                    }
                }
            }
            "t-junk" if t.len() == 3 => {
                // a junk datagram (zeros, any length incl. 0) reaches the server socket from a client's relay address or
                // from a stranger
                let len = num!(t[2], usize);
                if len > 4000 {
                    return BAD.into();
                }
                let data = vec![0u8; len];
                if t[1] == "x" {
                    send_confirm(&w.stranger, w.server_addr, &w.server_probe, &data);
                } else {
                    let k = num!(t[1], usize);
                    match w.slots.get(k) {
                        Some(s) => send_confirm(&s.back, w.server_addr, &w.server_probe, &data),
                        None => return BAD.into(),
                    }
                }
                "ok".into()
            }
            "t-setmax" if t.len() == 2 => {
                let n = num!(t[1], usize);
                w.st.set_max_clients(n);
                "ok".into()
            }
            "t-acc" if t.len() == 1 => {
                let public = w.st.addresses();
                let pub_ok = public == w.slots.iter().map(|s| s.front_addr).collect::<Vec<_>>();
                let mut s = format!("acc max={} pub={}:{}", w.st.max_clients(), public.len(), pub_ok as u8);
                let mut ids = w.ids.clone();
                ids.sort();
                for id in ids {
                    s.push_str(&format!(" s{}={}", id, w.st.time_since_last_received_packet(id).map(|d| d.as_nanos().to_string()).unwrap_or("-".into())));
                }
                for (k, sl) in w.slots.iter().enumerate() {
                    if let Some(c) = &sl.client {
                        let addr_ok = c.tr.addr().map(|a| a == c.addr).unwrap_or(false);
                        s.push_str(&format!(" c{}={}:{}:{}", k, c.tr.client_id(), addr_ok as u8, c.tr.time_since_last_received_packet().as_nanos()));
                    }
                }
                s
            }
            "t-rdiscall" if t.len() == 1 => {
                w.server.disconnect_all();
                "ok".into()
            }
            "t-sdiscall" if t.len() == 1 => {
                w.st.disconnect_all(&mut w.server);
                w.collect_events();
                w.drain_backs();
                "ok".into()
            }
            _ => BAD.into(),
        }
    }
}

// ---------------------------------------------------------------------------------------------
// trace parsing shared by scripts and oracles
// ---------------------------------------------------------------------------------------------

#[derive(Default, Clone, Debug)]
struct St {
    rc: Vec<u64>,
    rd: Vec<u64>,
    nn: usize,
    nc: Vec<u64>,
    bad: Vec<u64>,
    /// slot -> (id, renet status, netcode reason)
    cl: BTreeMap<usize, (u64, String, String)>,
}

fn parse_ids(s: &str) -> Vec<u64> {
    s.trim_start_matches('[').trim_end_matches(']').split(',').filter_map(|x| x.parse().ok()).collect()
}

fn parse_state(out: &str) -> Option<St> {
    let mut st = St::default();
    let mut it = out.split(' ');
    if it.next()? != "st" {
        return None;
    }
    for f in it {
        let (k, v) = f.split_once('=')?;
        match k {
            "rc" => st.rc = parse_ids(v),
            "rd" => st.rd = parse_ids(v),
            "nn" => st.nn = v.parse().ok()?,
            "nc" => st.nc = parse_ids(v),
            "bad" => st.bad = parse_ids(v),
            _ => {
                let slot: usize = k.strip_prefix('c')?.parse().ok()?;
                let (id, rest) = v.split_once(':')?;
                let (rs, nr) = rest.rsplit_once('/')?;
                st.cl.insert(slot, (id.parse().ok()?, rs.to_string(), nr.to_string()));
            }
        }
    }
    Some(st)
}

fn parse_q(out: &str) -> Option<[Vec<usize>; 2]> {
    let mut r: [Vec<usize>; 2] = [vec![], vec![]];
    let mut d = UP;
    for f in out.split(' ') {
        match f {
            "up" => d = UP,
            "down" => d = DOWN,
            _ => {
                let (_, n) = f.split_once(':')?;
                r[d].push(n.parse().ok()?);
            }
        }
    }
    Some(r)
}

// ---------------------------------------------------------------------------------------------
// script driver
// ---------------------------------------------------------------------------------------------

#[derive(Clone, Copy, PartialEq, Eq, Debug)]
enum Disc {
    /// the server / the client application submits a reliable message longer than the channel memory
    SOverflow,
    COverflow,
    CDisc,
    CTDisc,
    SDisc,
    SDiscAll,
    RDiscAll,
    Silent,
    Blackhole,
}

#[derive(Clone, Default)]
struct Faults {
    /// percentages
    loss: u64,
    delay: u64,
    dup: u64,
    corrupt: u64,
    replay: u64,
    reorder: bool,
    /// corrupted copies replace the genuine datagram (lossy) instead of accompanying it (benign)
    corrupt_replaces: bool,
}

struct Drv<'a> {
    ex: &'a mut dyn FnMut(&str) -> String,
    nslots: usize,
    /// current session id per slot
    id: Vec<Option<u64>>,
    /// the client of the slot exists and is still driven by the script
    upd: Vec<bool>,
    hole: Vec<bool>,
    /// the script issued a disconnect for the slot's current session
    ended: Vec<bool>,
    qlen: [Vec<usize>; 2],
    seen: [Vec<usize>; 2],
    held: Vec<(u64, usize, usize, usize)>,
    tick: u64,
    now_us: u64,
    st: St,
    ctr: u16,
    timeout_s: u64,
    /// consecutive `err:` answers of t-cupd per slot (a dead client is no longer driven after two)
    errs: Vec<u32>,
    /// the relay currently loses datagrams
    lossy_now: bool,
    /// debugging aid: TP_TRACE=1 prints the op/outcome lines of every case to stderr
    trace: bool,
    /// virtual time by which every session ended so far has certainly timed out on the other side
    slow_until: u64,
    /// the server application streams: one small unreliable message per tick to every id the message layer holds,
    /// dead or alive (the game-server pattern; every such datagram refreshes the server's last-send time)
    stream: bool,
    /// while a slot is blackholed the relay replays that session's very first datagram (its connection request) towards
    /// the server about once per second of virtual time
    replay_req: bool,
    chan_mem: Option<usize>,
    /// per slot: length of the up queue when the slot's current id first showed up in netcode's table
    up_mark: Vec<Option<usize>>,
}

impl<'a> Drv<'a> {
    fn start(ex: &'a mut dyn FnMut(&str) -> String, tag: u64, n: usize, maxc: usize, timeout_s: u64, expire_s: u64, nslots: usize, notes: &[&str]) -> Self {
        let mut d = Drv {
            ex,
            nslots,
            id: vec![None; nslots],
            upd: vec![false; nslots],
            hole: vec![false; nslots],
            ended: vec![false; nslots],
            qlen: [vec![0; nslots], vec![0; nslots]],
            seen: [vec![0; nslots], vec![0; nslots]],
            held: vec![],
            tick: 0,
            now_us: 0,
            st: St::default(),
            ctr: 0,
            timeout_s,
            errs: vec![0; nslots],
            lossy_now: false,
            trace: match std::env::var("TP_TRACE") {
                Ok(v) => v == "all" || v.parse::<u64>().map(|c| Rng::new(c).0 == tag).unwrap_or(false),
                Err(_) => false,
            },
            slow_until: 0,
            stream: false,
            replay_req: false,
            chan_mem: None,
            up_mark: vec![None; nslots],
        };
        for k in 0..n {
            d.id[k] = Some(100 + k as u64);
            d.upd[k] = true;
        }
        if let Some(m) = notes.iter().find_map(|x| x.strip_prefix("chanmem=")).and_then(|x| x.parse::<usize>().ok()) {
            d.chan_mem = Some(m);
            d.x(&format!("t-new {} {} {} {} {} {}", n, maxc, timeout_s, expire_s, nslots, m));
        } else {
            d.x(&format!("t-new {} {} {} {} {}", n, maxc, timeout_s, expire_s, nslots));
        }
        for m in notes.iter().filter(|x| !x.starts_with("chanmem=")) {
            d.x(&format!("note {}", m));
        }
        d
    }
    fn x(&mut self, op: &str) -> String {
        let o = (self.ex)(op);
        if self.trace {
            let cut = |s: &str| if s.len() > 150 { format!("{}..", &s[..150]) } else { s.to_string() };
            eprintln!("{} => {}", cut(op), cut(&o));
        }
        o
    }
    fn new_client(&mut self, k: usize, id: u64) {
        self.x(&format!("t-cnew {} {}", k, id));
        self.id[k] = Some(id);
        self.up_mark[k] = None;
        self.upd[k] = true;
        self.hole[k] = false;
        self.ended[k] = false;
        self.errs[k] = 0;
    }
    fn events_and_state(&mut self) {
        for _ in 0..64 {
            if self.x("t-ev") == "none" {
                break;
            }
        }
        let o = self.x("t-state");
        if let Some(s) = parse_state(&o) {
            self.st = s;
        }
        for k in 0..self.nslots {
            if self.up_mark[k].is_none() && self.id[k].map(|id| self.st.nc.contains(&id)).unwrap_or(false) {
                // (everything the slot's client sends from now on belongs to the established session)
                let o = self.x("t-q");
                if let Some(q) = parse_q(&o) {
                    self.up_mark[k] = q[UP].get(k).copied();
                }
            }
        }
        self.x("t-acc");
    }
    fn refresh_q(&mut self) {
        let o = self.x("t-q");
        if let Some(q) = parse_q(&o) {
            if q[UP].len() == self.nslots && q[DOWN].len() == self.nslots {
                self.qlen = q;
            }
        }
    }
    fn msg(&mut self, rng: &mut Rng) -> String {
        let n = match rng.below(20) {
            0 => rng.range(1300, 2600) as usize,
            1..=3 => rng.range(100, 600) as usize,
            _ => rng.range(1, 32) as usize,
        };
        self.ctr = self.ctr.wrapping_add(1);
        let mut m = vec![(self.ctr >> 8) as u8, self.ctr as u8];
        m.extend(rng.payload(n));
        hex(&m)
    }
    fn live_slots(&self) -> Vec<usize> {
        (0..self.nslots).filter(|k| self.upd[*k] && !self.ended[*k] && self.errs[*k] == 0 && self.id[*k].is_some()).collect()
    }
    fn traffic_client(&mut self, rng: &mut Rng, k: usize, max: u64) {
        if self.ended[k] {
            return;
        }
        for _ in 0..rng.below(max + 1) {
            let m = self.msg(rng);
            self.x(&format!("t-send c{} {} {}", k, rng.below(3), m));
        }
    }
    fn traffic_server(&mut self, rng: &mut Rng, max: u64) {
        let live: Vec<u64> = self.live_slots().iter().filter_map(|k| self.id[*k]).filter(|id| self.st.rc.contains(id)).collect();
        if live.is_empty() {
            return;
        }
        for _ in 0..rng.below(max + 1) {
            let m = self.msg(rng);
            if rng.chance(1, 6) {
                self.x(&format!("t-bcast {} {}", rng.below(3), m));
            } else {
                let id = rng.pick(&live);
                self.x(&format!("t-send s{} {} {}", id, rng.below(3), m));
            }
        }
    }
    fn reads(&mut self, rng: &mut Rng, full: bool) {
        for k in 0..self.nslots {
            let id = match self.id[k] {
                Some(id) => id,
                None => continue,
            };
            if !full && (self.ended[k] || self.errs[k] > 0 || !self.st.rc.contains(&id)) {
                continue;
            }
            for ch in 0..3 {
                for who in [format!("c{}", k), format!("s{}", id)] {
                    if who.starts_with('c') && !self.upd[k] {
                        continue;
                    }
                    if full {
                        self.x(&format!("t-recvall {} {}", who, ch));
                    } else if rng.chance(1, 4) {
                        if rng.chance(1, 2) {
                            self.x(&format!("t-recvall {} {}", who, ch));
                        } else {
                            for _ in 0..2 {
                                if self.x(&format!("t-recv {} {}", who, ch)) == "none" {
                                    break;
                                }
                            }
                        }
                    }
                }
            }
        }
    }
    fn clients_part(&mut self, rng: &mut Rng, dt: u64, traffic: u64) {
        for k in 0..self.nslots {
            if !self.upd[k] {
                continue;
            }
            if self.errs[k] >= 2 {
                continue;
            }
            if self.x(&format!("t-cupd {} {}", k, dt)).starts_with("err:") {
                self.errs[k] += 1;
                continue;
            }
            if traffic > 0 {
                self.traffic_client(rng, k, traffic);
            }
            if !self.ended[k] {
                self.x(&format!("t-csend {}", k));
            }
        }
    }
    fn server_part(&mut self, rng: &mut Rng, dt: u64, traffic: u64) {
        self.x(&format!("t-supd {}", dt));
        self.events_and_state();
        if traffic > 0 {
            self.traffic_server(rng, traffic);
        }
        if self.stream {
            for id in self.st.rc.clone() {
                self.ctr = self.ctr.wrapping_add(1);
                self.x(&format!("t-send s{} 0 {:04x}{}", id, self.ctr, hex(&rng.payload(6))));
            }
        }
        self.x("t-ssend");
    }
    fn fwd_lossless(&mut self, dir: usize) {
        let dn = if dir == UP { "up" } else { "down" };
        if self.hole.iter().any(|h| *h) {
            for k in 0..self.nslots {
                if !self.hole[k] && self.id[k].is_some() {
                    self.x(&format!("t-fwdn {} {}", dn, k));
                }
            }
        } else {
            self.x(&format!("t-fwdall {}", dn));
        }
    }
    /// one client sends a small reliable message; junk datagrams (empty, 1 byte, oversized) from ANOTHER client's address
    /// or from a stranger reach the server socket ahead of it; all of it is handed over before one server update: the
    /// message is there after that update
    fn junk_probe(&mut self, rng: &mut Rng, dt: u64) {
        let cands: Vec<usize> = self
            .live_slots()
            .into_iter()
            .filter(|k| match (self.id[*k], self.st.cl.get(k)) {
                (Some(id), Some(c)) => c.0 == id && c.1 == "connected" && self.st.rc.contains(&id),
                _ => false,
            })
            .collect();
        if cands.is_empty() {
            return;
        }
        let k = rng.pick(&cands);
        let id = self.id[k].unwrap_or(0);
        self.ctr = self.ctr.wrapping_add(1);
        let m = format!("{:04x}{}", self.ctr, hex(&rng.payload(5)));
        if self.x(&format!("t-send c{} 1 {}", k, m)) != "ok" || self.x(&format!("t-csend {}", k)) != "ok" {
            return;
        }
        let others: Vec<String> = (0..self.nslots).filter(|j| *j != k).map(|j| j.to_string()).chain(std::iter::once("x".to_string())).collect();
        for _ in 0..rng.range(1, 3) {
            let len = rng.pick(&[0usize, 0, 0, 1, 17, 2000]);
            self.x(&format!("t-junk {} {}", rng.pick(&others), len));
        }
        self.x(&format!("t-fwdn up {}", k));
        self.tick += 1;
        self.now_us += dt;
        self.x(&format!("t-supd {}", dt));
        self.events_and_state();
        self.x(&format!("t-recvall s{} 1", id));
        self.x("t-ssend");
        self.fwd_lossless(DOWN);
    }
    /// a FRESH server datagram (a small reliable message, not yet forwarded) first reaches the client from a wrong source
    /// address: nothing is obtained; then it is forwarded properly: the message is there
    fn stray_probe(&mut self, rng: &mut Rng, dt: u64) {
        let cands: Vec<usize> = self
            .live_slots()
            .into_iter()
            .filter(|k| match (self.id[*k], self.st.cl.get(k)) {
                (Some(id), Some(c)) => c.0 == id && c.1 == "connected" && self.st.rc.contains(&id),
                _ => false,
            })
            .collect();
        if cands.is_empty() {
            return;
        }
        let k = rng.pick(&cands);
        let id = self.id[k].unwrap_or(0);
        self.x(&format!("t-recvall c{} 1", k));
        self.ctr = self.ctr.wrapping_add(1);
        let m = format!("{:04x}{}", self.ctr, hex(&rng.payload(5)));
        if self.x(&format!("t-send s{} 1 {}", id, m)) != "ok" {
            return;
        }
        self.x("t-ssend");
        self.refresh_q();
        let n = self.qlen[DOWN][k];
        if n == 0 {
            return;
        }
        self.x(&format!("t-stray {} {}", k, n - 1));
        self.tick += 1;
        self.now_us += dt;
        self.x(&format!("t-cupd {} {}", k, dt));
        self.x(&format!("t-recvall c{} 1", k));
        self.x(&format!("t-fwdn down {}", k));
        self.x(&format!("t-cupd {} 0", k));
        self.x(&format!("t-recvall c{} 1", k));
        self.x(&format!("t-csend {}", k));
        self.fwd_lossless(UP);
    }
    /// after everything has settled: the relay replays what the clients of ended sessions sent AFTER their session was
    /// up (keep-alives, payloads, the disconnect — not the handshake, whose replay would re-open the session: the
    /// recorded finding): no event, no change
    fn late_replay(&mut self, rng: &mut Rng) {
        let ended: Vec<usize> = (0..self.nslots).filter(|k| self.ended[*k] && self.up_mark[*k].is_some() && self.id[*k].map(|id| !self.st.nc.contains(&id) && !self.st.rc.contains(&id)).unwrap_or(false)).collect();
        if ended.is_empty() {
            return;
        }
        let k = rng.pick(&ended);
        self.refresh_q();
        let from = self.up_mark[k].unwrap_or(0);
        let to = self.qlen[UP][k].min(from + 8);
        if from >= to {
            return;
        }
        self.x("t-state");
        self.x(&format!("note late-replay {}", k));
        for i in from..to {
            self.x(&format!("t-fwd up {} {}", k, i));
        }
        self.x("t-supd 20000");
        for _ in 0..4 {
            if self.x("t-ev") == "none" {
                break;
            }
        }
        self.x("t-state");
    }
    fn round_lossless(&mut self, rng: &mut Rng, dt: u64, traffic: u64) {
        self.tick += 1;
        let before = self.now_us / 1_000_000;
        self.now_us += dt;
        self.clients_part(rng, dt, traffic);
        if self.replay_req && self.now_us / 1_000_000 != before {
            for k in 0..self.nslots {
                if self.hole[k] && self.id[k].is_some() {
                    self.x(&format!("t-fwd up {} 0", k));
                }
            }
        }
        self.fwd_lossless(UP);
        self.server_part(rng, dt, traffic);
        self.fwd_lossless(DOWN);
        self.stray(rng);
    }
    /// now and then a datagram of the server also reaches a client from an address that is not its server's
    fn stray(&mut self, rng: &mut Rng) {
        if rng.chance(1, 5) {
            let k = rng.below(self.nslots as u64) as usize;
            let i = if rng.chance(1, 2) { self.tick.saturating_sub(1) } else { rng.below(self.tick + 2) };
            self.x(&format!("t-stray {} {}", k, i));
        }
    }
    fn relay(&mut self, rng: &mut Rng, dir: usize, f: &Faults) {
        let dn = if dir == UP { "up" } else { "down" };
        let mut plan: Vec<String> = vec![];
        for k in 0..self.nslots {
            if self.id[k].is_none() {
                continue;
            }
            let (a, b) = (self.seen[dir][k], self.qlen[dir][k]);
            self.seen[dir][k] = b;
            if self.hole[k] {
                continue;
            }
            for i in a..b {
                let genuine = format!("t-fwd {} {} {}", dn, k, i);
                let corrupted = if rng.chance(1, 4) { format!("t-fwdm {} {} {} trunc:{}", dn, k, i, rng.below(40)) } else { format!("t-fwdm {} {} {} flip:{}", dn, k, i, rng.below(1200 * 8)) };
                if rng.chance(f.loss, 100) {
                    continue;
                }
                if rng.chance(f.delay, 100) {
                    self.held.push((self.tick + rng.range(1, 3), dir, k, i));
                    continue;
                }
                if rng.chance(f.corrupt, 100) {
                    plan.push(corrupted);
                    if f.corrupt_replaces {
                        continue;
                    }
                }
                plan.push(genuine.clone());
                if rng.chance(f.dup, 100) {
                    plan.push(genuine);
                }
            }
            // replay of something old (never for a session the script has ended: that is the
            // separate ghost probe)
            if a > 0 && !self.ended[k] && self.upd[k] && rng.chance(f.replay, 100) {
                plan.push(format!("t-fwd {} {} {}", dn, k, rng.below(a as u64)));
            }
        }
        let tick = self.tick;
        let mut rest = vec![];
        for h in self.held.drain(..) {
            if h.1 == dir && h.0 <= tick {
                if !self.hole[h.2] {
                    plan.push(format!("t-fwd {} {} {}", dn, h.2, h.3));
                }
            } else {
                rest.push(h);
            }
        }
        self.held = rest;
        if f.reorder && plan.len() > 1 {
            for i in (1..plan.len()).rev() {
                let j = rng.below(i as u64 + 1) as usize;
                plan.swap(i, j);
            }
        }
        for p in plan {
            self.x(&p);
        }
    }
    fn round_faulty(&mut self, rng: &mut Rng, dt: u64, traffic: u64, f: &Faults) {
        self.tick += 1;
        self.now_us += dt;
        self.clients_part(rng, dt, traffic);
        self.refresh_q();
        self.relay(rng, UP, f);
        self.server_part(rng, dt, traffic);
        self.refresh_q();
        self.relay(rng, DOWN, f);
    }
    fn disc(&mut self, kind: Disc, k: usize) {
        if self.lossy_now || kind == Disc::Silent || kind == Disc::Blackhole {
            self.slow_until = self.slow_until.max(self.now_us + (self.timeout_s * 1000 + 1500) * 1000);
        }
        match kind {
            Disc::SOverflow | Disc::COverflow => {
                if let (Some(m), Some(id)) = (self.chan_mem, self.id[k]) {
                    let big = hex(&vec![0x6fu8; m + 1]);
                    if kind == Disc::SOverflow {
                        self.x(&format!("t-send s{} 1 {}", id, big));
                    } else {
                        self.x(&format!("t-send c{} 2 {}", k, big));
                    }
                    self.ended[k] = true;
                }
            }
            Disc::CDisc => {
                self.x(&format!("t-cdisc {}", k));
                self.ended[k] = true;
            }
            Disc::CTDisc => {
                self.x(&format!("t-ctdisc {}", k));
                self.ended[k] = true;
            }
            Disc::SDisc => {
                if let Some(id) = self.id[k] {
                    self.x(&format!("t-sdisc {}", id));
                    self.ended[k] = true;
                }
            }
            Disc::RDiscAll => {
                self.x("t-rdiscall");
                for k in 0..self.nslots {
                    if self.id[k].is_some() {
                        self.ended[k] = true;
                    }
                }
            }
            Disc::SDiscAll => {
                self.x("t-sdiscall");
                self.fwd_lossless(DOWN);
                for k in 0..self.nslots {
                    if self.id[k].is_some() {
                        self.ended[k] = true;
                    }
                }
            }
            Disc::Silent => {
                self.x(&format!("note silent {}", k));
                self.upd[k] = false;
                self.ended[k] = true;
            }
            Disc::Blackhole => {
                self.x(&format!("note blackhole {}", k));
                self.hole[k] = true;
                self.ended[k] = true;
            }
        }
    }
    /// Slot k's client (never updated so far) completes the handshake and leaves inside ONE server update: request and
    /// challenge travel as usual, the relay keeps the response while `hold` server updates pass, the client disconnects,
    /// response and Disconnect datagram reach the server socket together. The `t-q` / `t-state` / `t-acc` lines are what
    /// `oracle_session_events` reads the completed handshake from. `late_read`: the application looks at its events only
    /// after the NEXT server update.
    fn bounce(&mut self, rng: &mut Rng, k: usize, dt: u64, hold: u64, by_renet: bool, late_read: bool) {
        // request -> challenge
        self.tick += 1;
        self.now_us += dt;
        self.x(&format!("t-cupd {} {}", k, dt));
        self.clients_part(rng, dt, 1);
        self.x("t-q");
        self.fwd_lossless(UP);
        self.server_part(rng, dt, 1);
        self.x("t-q");
        self.fwd_lossless(DOWN);
        // challenge -> response, which stays in the relay
        self.tick += 1;
        self.now_us += dt;
        self.x(&format!("t-cupd {} {}", k, dt));
        self.x("t-state");
        self.x("t-acc");
        self.x("t-q");
        self.hole[k] = true;
        self.clients_part(rng, dt, 1);
        for _ in 0..hold {
            self.fwd_lossless(UP);
            self.server_part(rng, dt, 1);
            self.fwd_lossless(DOWN);
            self.tick += 1;
            self.now_us += dt;
            self.clients_part(rng, dt, 1);
        }
        // the client leaves before it has heard of its connection
        if by_renet {
            self.x(&format!("t-cdisc {}", k));
            if self.x(&format!("t-cupd {} {}", k, dt)).starts_with("err:") {
                self.errs[k] += 1;
            }
        } else {
            self.x(&format!("t-ctdisc {}", k));
        }
        self.ended[k] = true;
        self.upd[k] = true;
        self.x("t-q");
        self.hole[k] = false;
        self.fwd_lossless(UP);
        // the update that sees the whole session
        self.x(&format!("t-supd {}", dt));
        self.x("t-q");
        if late_read {
            self.x("t-state");
            self.x("t-ssend");
            self.fwd_lossless(DOWN);
            self.round_lossless(rng, dt, 1);
        } else {
            self.events_and_state();
            self.x("t-ssend");
            self.fwd_lossless(DOWN);
        }
    }
    /// lossless rounds until every ended session had its time-out
    fn wait_lossless(&mut self, rng: &mut Rng, dt: u64) {
        while self.now_us < self.slow_until {
            self.round_lossless(rng, dt, 0);
        }
    }
    fn settle(&mut self) {
        self.events_and_state();
        self.x("note settled");
    }
}

fn tier_cases(t: Tier, quick: usize, thorough: usize) -> usize {
    if t == Tier::Quick {
        quick
    } else {
        thorough
    }
}

fn pick_n(rng: &mut Rng) -> usize {
    match rng.below(10) {
        0..=4 => 1,
        5..=7 => 2,
        _ => 3,
    }
}

/// profile 1: everything forwarded once, in order
fn script_lossless(rng: &mut Rng, _tier: Tier, ex: &mut dyn FnMut(&str) -> String) {
    let tag = rng.0;
    let n = pick_n(rng);
    let maxc = n + rng.below(2) as usize;
    let timeout_s = rng.pick(&[1u64, 2, 3, 5]);
    // (1 case in 5: channels with 40 kB of memory — far above what the script's traffic keeps in flight, and small
    // enough for one deliberately oversized reliable message to end a session from the message layer)
    let small_mem = rng.chance(1, 5);
    let mut d = Drv::start(ex, tag, n, maxc, timeout_s, 60, n, if small_mem { &["lossless", "chanmem=40000"] } else { &["lossless"] });
    let dt = rng.pick(&[16_000u64, 50_000, 100_000, 250_000, 300_000]);
    // handshake: 4 rounds bring every layer to `connected`
    for _ in 0..rng.range(3, 5) {
        let tr = if rng.chance(1, 3) { 1 } else { 0 };
        d.round_lossless(rng, dt, tr);
    }
    for _ in 0..rng.range(2, 5) {
        d.round_lossless(rng, dt, 2);
        d.reads(rng, false);
        if rng.chance(1, 3) {
            d.junk_probe(rng, dt);
        }
        if rng.chance(1, 4) {
            d.stray_probe(rng, dt);
        }
    }
    d.replay_req = rng.chance(1, 2);
    d.events_and_state();
    d.x("note heal-start");
    for _ in 0..3 {
        d.round_lossless(rng, 301_000, 0);
    }
    d.events_and_state();
    d.reads(rng, true);
    d.x("note healed");
    // the end of the sessions
    if rng.chance(1, 6) {
        d.disc(if rng.chance(1, 2) { Disc::SDiscAll } else { Disc::RDiscAll }, 0);
    } else if n == 3 && rng.chance(1, 2) {
        // three sessions in table slots 0, 1, 2: the one in the LOWEST slot leaves first (a hole in front of the others),
        // then the one in the HIGHEST slot leaves by its own Disconnect datagram; the middle one is a bystander
        d.disc(rng.pick(&[Disc::CDisc, Disc::CTDisc, Disc::SDisc]), 0);
        d.round_lossless(rng, dt, 1);
        d.round_lossless(rng, dt, 1);
        d.disc(rng.pick(&[Disc::CDisc, Disc::CTDisc]), 2);
        d.round_lossless(rng, dt, 1);
        d.round_lossless(rng, dt, 1);
    } else {
        for k in 0..n {
            let kind = match rng.below(7) {
                0 => continue,
                1 | 2 | 3 if small_mem && rng.chance(1, 2) => rng.pick(&[Disc::SOverflow, Disc::COverflow]),
                1 => Disc::CDisc,
                2 => Disc::CTDisc,
                3 => Disc::SDisc,
                4 => Disc::Silent,
                5 => Disc::Blackhole,
                _ => rng.pick(&[Disc::CDisc, Disc::CTDisc, Disc::SDisc]),
            };
            d.disc(kind, k);
            if rng.chance(1, 3) {
                // disconnects of different sessions in different rounds
                d.round_lossless(rng, dt, 1);
            }
        }
    }
    if rng.chance(1, 3) {
        // the server keeps streaming to every session (also the dead ones) in ticks shorter than the 250 ms send
        // interval while the time-outs run
        d.stream = true;
        let small = rng.pick(&[50_000u64, 100_000, 200_000, 249_000]);
        d.wait_lossless(rng, small);
        d.round_lossless(rng, small, 0);
        d.round_lossless(rng, small, 0);
        d.stream = false;
    } else {
        d.wait_lossless(rng, 500_000);
    }
    for _ in 0..3 {
        d.round_lossless(rng, dt.max(50_000), 0);
    }
    if !d.live_slots().is_empty() {
        // the sessions nobody ended go on as before: traffic both ways and broadcasts, then a second heal
        for _ in 0..2 {
            d.round_lossless(rng, dt.max(50_000), 2);
            d.reads(rng, false);
        }
        d.events_and_state();
        d.x("note heal-start");
        for _ in 0..3 {
            d.round_lossless(rng, 301_000, 0);
        }
        d.events_and_state();
        d.reads(rng, true);
        d.x("note healed");
    }
    d.settle();
    if rng.chance(1, 2) {
        d.late_replay(rng);
    }
}

const GHOST_PROBE: bool = false;

/// profile 2: relay faults in both directions, heal, end
fn script_faulty(rng: &mut Rng, tier: Tier, ex: &mut dyn FnMut(&str) -> String) {
    let tag = rng.0;
    let n = pick_n(rng);
    let benign = rng.chance(2, 5);
    let timeout_s = if benign { rng.pick(&[1u64, 2, 3, 5]) } else { rng.pick(&[2u64, 3, 5]) };
    let mut d = Drv::start(ex, tag, n, n, timeout_s, 60, n, &[if benign { "benign" } else { "lossy" }]);
    let f = Faults {
        loss: if benign { 0 } else { rng.pick(&[0u64, 10, 25, 40]) },
        delay: if benign { 0 } else { rng.pick(&[0u64, 15, 30]) },
        dup: rng.pick(&[0u64, 15, 40]),
        corrupt: rng.pick(&[0u64, 10, 30]),
        replay: rng.pick(&[0u64, 20, 50]),
        reorder: rng.chance(1, 2),
        corrupt_replaces: !benign && rng.chance(1, 2),
    };
    let rounds = if tier == Tier::Quick { rng.range(6, 10) } else { rng.range(6, 14) };
    let mid = if rng.chance(1, 4) { Some(rng.range(2, rounds - 1)) } else { None };
    d.lossy_now = !benign;
    for r in 0..rounds {
        let dt = rng.range(16, 300) * 1000;
        if Some(r) == mid {
            let live = d.live_slots();
            if !live.is_empty() {
                let k = rng.pick(&live);
                let kind = rng.pick(&[Disc::CDisc, Disc::CTDisc, Disc::SDisc, Disc::Silent]);
                d.disc(kind, k);
            }
        }
        d.round_faulty(rng, dt, if r >= 2 { 2 } else { 1 }, &f);
        d.reads(rng, false);
    }
    if !benign && rng.chance(1, 2) {
        // a blackout of one session that stays short of its timeout by 0.8 s: everything of that slot is lost in both
        // directions for that long, the others go on; a session may end here only if it had been starved before
        let live = d.live_slots();
        if !live.is_empty() {
            let k = rng.pick(&live);
            d.hole[k] = true;
            let until = d.now_us + timeout_s * 1_000_000 - 800_000;
            while d.now_us < until {
                d.round_faulty(rng, 250_000, 0, &Faults::default());
            }
            d.hole[k] = false;
        }
    }
    d.events_and_state();
    d.x("note heal-start");
    d.lossy_now = false;
    d.held.clear();
    d.x("t-mark");
    for _ in 0..5 {
        d.round_lossless(rng, 301_000, 0);
    }
    d.events_and_state();
    d.reads(rng, true);
    d.x("note healed");
    // end phase
    let mut any = false;
    let lossy_end = !benign && rng.chance(1, 2);
    d.lossy_now = lossy_end;
    for k in d.live_slots() {
        let kind = match rng.below(6) {
            0 => continue,
            1 => Disc::CDisc,
            2 => Disc::CTDisc,
            3 => Disc::SDisc,
            4 => Disc::Blackhole,
            _ => rng.pick(&[Disc::CDisc, Disc::CTDisc, Disc::SDisc]),
        };
        d.disc(kind, k);
        any = true;
    }
    if any && lossy_end {
        // the disconnect datagram itself is exposed to loss: the other side must still end, by time-out
        let fe = Faults { delay: 0, replay: 0, ..f.clone() };
        d.refresh_q();
        for dir in 0..2 {
            d.seen[dir] = d.qlen[dir].clone();
        }
        while d.now_us < d.slow_until {
            d.round_faulty(rng, 500_000, 0, &fe);
        }
        d.lossy_now = false;
        d.x("t-mark");
        for _ in 0..2 {
            d.round_lossless(rng, 500_000, 0);
        }
    } else {
        // lossless end; sessions ended earlier under faults or black-holed get their time-out
        d.wait_lossless(rng, 500_000);
        for _ in 0..3 {
            d.round_lossless(rng, 100_000, 0);
        }
    }
    d.settle();
    if GHOST_PROBE && rng.chance(1, 8) {
        // replay the whole client->server history of an ended session, in order
        let ended: Vec<usize> = (0..n).filter(|k| d.ended[*k] && d.id[*k].map(|id| !d.st.nc.contains(&id)).unwrap_or(false)).collect();
        if !ended.is_empty() {
            let k = rng.pick(&ended);
            d.x("note ghost");
            d.refresh_q();
            let m = d.qlen[UP][k].min(12);
            for i in 0..m {
                d.x(&format!("t-fwd up {} {}", k, i));
                if i % 2 == 1 || i + 1 == m {
                    d.x("t-supd 20000");
                }
            }
            d.events_and_state();
        }
    }
}

/// profile 3: few server slots, clients come and go
fn script_churn(rng: &mut Rng, tier: Tier, ex: &mut dyn FnMut(&str) -> String) {
    let tag = rng.0;
    let maxc = rng.range(1, 2) as usize;
    let nslots = 5usize;
    let n0 = rng.range(1, 3) as usize;
    let timeout_s = rng.pick(&[2u64, 3]);
    let mut d = Drv::start(ex, tag, n0, maxc, timeout_s, 120, nslots, &["lossless", "churn"]);
    let dt = rng.pick(&[50_000u64, 100_000, 250_000]);
    let rounds = if tier == Tier::Quick { rng.range(12, 18) } else { rng.range(12, 26) };
    let mut next_id = 200u64;
    for _ in 0..rounds {
        if rng.chance(1, 4) {
            let live: Vec<usize> = d.live_slots();
            if !live.is_empty() {
                let k = rng.pick(&live);
                let kind = if rng.chance(1, 10) { Disc::SDiscAll } else { rng.pick(&[Disc::CDisc, Disc::CTDisc, Disc::SDisc]) };
                d.disc(kind, k);
            }
        }
        if rng.chance(1, 3) {
            // a free relay slot, or one whose session is over on both sides
            let free: Vec<usize> = (0..nslots)
                .filter(|k| match d.id[*k] {
                    None => true,
                    Some(id) => {
                        !d.st.rc.contains(&id) && !d.st.nc.contains(&id) && !d.st.rd.contains(&id) && d.st.cl.get(k).map(|c| c.1.starts_with("disc")).unwrap_or(false)
                    }
                })
                .collect();
            if !free.is_empty() {
                let k = rng.pick(&free);
                let id = if d.id[k].is_none() && rng.chance(1, 2) {
                    100 + k as u64
                } else {
                    next_id += 1;
                    next_id
                };
                d.new_client(k, id);
            }
        }
        if rng.chance(1, 5) {
            // the limit is lowered / raised while sessions exist (nobody is thrown out by that); a lowered limit is
            // often raised again by one right away (below the table's length)
            let n = rng.pick(&[1usize, 1, 2, 3, 0, 0]);
            d.x(&format!("t-setmax {}", n));
            if n < 2 && rng.chance(1, 2) {
                d.x(&format!("t-setmax {}", n + 1));
            }
        }
        d.round_lossless(rng, dt, 1);
        d.reads(rng, false);
    }
    for _ in 0..4 {
        d.round_lossless(rng, dt, 0);
    }
    d.settle();
}

/// profile 4: two devices of ONE client id (two sockets, two tokens) race while a third client P occupies the first
/// table slot; the relay holds back the loser's response until P has left (a hole in front of the winner); the loser
/// gets nothing, both layers keep exactly one session for the id
fn script_dupid(rng: &mut Rng, _tier: Tier, ex: &mut dyn FnMut(&str) -> String) {
    let mut x = |op: &str| -> String { ex(op) };
    if rng.chance(1, 3) {
        // variant: an established session (timeout 15 s) whose client->server datagrams are lost for 6–9 s; then a second
        // client object with the SAME id (fresh token, new socket) knocks. The old session is neither timed out nor
        // ended by anybody: the newcomer stays outside; the trace ends before the 15 s are over
        x("t-new 1 2 15 60 2");
        x("note lossless");
        x("note churn");
        let observe = |x: &mut dyn FnMut(&str) -> String| {
            for _ in 0..8 {
                if x("t-ev") == "none" {
                    break;
                }
            }
            x("t-state");
            x("t-acc");
        };
        for _ in 0..4 {
            x("t-cupd 0 250000");
            x("t-fwdn up 0");
            x("t-supd 250000");
            observe(&mut x);
            x("t-ssend");
            x("t-fwdn down 0");
        }
        let silent_rounds = rng.range(12, 18);
        for _ in 0..silent_rounds {
            x("t-cupd 0 500000"); // (what it sends stays in the relay)
            x("t-supd 500000");
            observe(&mut x);
            x("t-ssend");
            x("t-fwdn down 0");
        }
        x("t-cnew 1 100");
        for _ in 0..rng.range(4, 8) {
            x("t-cupd 0 250000");
            x("t-cupd 1 250000");
            x("t-fwdn up 1");
            x("t-supd 250000");
            observe(&mut x);
            x("t-ssend");
            x("t-fwdall down");
        }
        return;
    }
    let dt = rng.pick(&[50_000u64, 100_000, 250_000]);
    let maxc = rng.pick(&[3usize, 3, 4, 2]);
    x(&format!("t-new 1 {} 5 60 3", maxc));
    x("note lossless");
    x("note churn");
    x("t-cnew 1 7");
    x("t-cnew 2 7");
    let observe = |x: &mut dyn FnMut(&str) -> String| {
        for _ in 0..8 {
            if x("t-ev") == "none" {
                break;
            }
        }
        x("t-state");
        x("t-acc");
    };
    // requests and challenges for all three
    for k in 0..3 {
        x(&format!("t-cupd {} {}", k, dt));
    }
    x("t-fwdall up");
    x(&format!("t-supd {}", dt));
    observe(&mut x);
    x("t-fwdall down");
    // responses: P's first, then the winner's; the loser's stay in the relay
    for k in 0..3 {
        x(&format!("t-cupd {} {}", k, dt));
    }
    let (w, l) = if rng.chance(1, 2) { (1usize, 2usize) } else { (2, 1) };
    for k in [0usize, w] {
        x(&format!("t-fwdn up {}", k));
        x(&format!("t-supd {}", dt));
        observe(&mut x);
        x(&format!("t-fwdn down {}", k));
        x(&format!("t-cupd {} {}", k, dt));
    }
    // (no application messages in this profile: the message oracles identify a session by its client id)
    // P leaves
    match rng.below(3) {
        0 => {
            x("t-cdisc 0");
            x(&format!("t-cupd 0 {}", dt));
            x("t-fwdn up 0");
        }
        1 => {
            x("t-ctdisc 0");
            x("t-fwdn up 0");
        }
        _ => {
            x("t-sdisc 100");
        }
    }
    x(&format!("t-supd {}", dt));
    observe(&mut x);
    x("t-fwdn down 0");
    // only now the loser's response(s) get through
    x(&format!("t-cupd {} {}", l, dt));
    x(&format!("t-fwdn up {}", l));
    x(&format!("t-supd {}", dt));
    observe(&mut x);
    x("t-ssend");
    x("t-fwdall down");
    for _ in 0..3 {
        for k in [w, l] {
            x(&format!("t-cupd {} {}", k, dt));
            x(&format!("t-csend {}", k));
        }
        x("t-fwdall up");
        x(&format!("t-supd {}", dt));
        observe(&mut x);
        x("t-ssend");
        x("t-fwdall down");
    }
}

/// profile 5: sessions that begin and end inside one server update (see `Drv::bounce`), next to ordinary ones
fn script_bounce(rng: &mut Rng, _tier: Tier, ex: &mut dyn FnMut(&str) -> String) {
    let tag = rng.0;
    let nby = rng.below(3) as usize;
    let nbo = rng.range(1, 2) as usize;
    let n = nby + nbo;
    // (the table never fills: a place for every client object of the trace)
    let maxc = n + 1 + rng.below(2) as usize;
    let timeout_s = rng.pick(&[2u64, 3, 5]);
    let mut d = Drv::start(ex, tag, n, maxc, timeout_s, 60, n, &["lossless"]);
    for k in nby..n {
        d.upd[k] = false;
    }
    let dt = rng.pick(&[16_000u64, 50_000, 100_000, 250_000]);
    // the bystanders are connected, half-way there, or start together with the first bouncer
    for _ in 0..rng.pick(&[0u64, 2, 4, 5]) {
        d.round_lossless(rng, dt, 1);
        d.reads(rng, false);
    }
    let mut rebound = false;
    for k in nby..n {
        let (hold, by_renet, late_read) = (rng.below(3), rng.chance(1, 2), rng.chance(1, 2));
        d.bounce(rng, k, dt, hold, by_renet, late_read);
        for _ in 0..rng.below(3) {
            d.round_lossless(rng, dt, 1);
            d.reads(rng, false);
        }
        if !rebound && rng.chance(1, 2) {
            // a new client object on the bouncer's relay slot: an ordinary session from the same address
            rebound = true;
            d.round_lossless(rng, dt, 0);
            d.new_client(k, 300 + k as u64);
            for _ in 0..4 {
                d.round_lossless(rng, dt, 1);
            }
            d.reads(rng, false);
        }
    }
    for _ in 0..2 {
        d.round_lossless(rng, dt, 1);
        d.reads(rng, false);
    }
    for k in d.live_slots() {
        if rng.chance(2, 3) {
            d.disc(rng.pick(&[Disc::CDisc, Disc::CTDisc, Disc::SDisc]), k);
            if rng.chance(1, 2) {
                d.round_lossless(rng, dt, 1);
            }
        }
    }
    for _ in 0..4 {
        d.round_lossless(rng, dt.max(50_000), 0);
    }
    d.reads(rng, true);
    d.settle();
}

/// profile 6: 2-4 sessions in table slots 0..n-1 exchange messages; one or two of them leave (in three cases of four NOT the
/// one in the highest used slot: a hole in front of sessions that stay), each in its own way; once they are gone on both
/// sides new clients (fresh token, new id) join, on a spare relay slot or on the relay slot of one that left, while the
/// sessions nobody ended keep exchanging messages both ways; traffic of everybody who is there now, heal, `note healed`:
/// every reliable message of every session that nobody ended has been obtained
fn script_rejoin(rng: &mut Rng, _tier: Tier, ex: &mut dyn FnMut(&str) -> String) {
    let tag = rng.0;
    let n = rng.pick(&[2usize, 3, 3, 3, 4]);
    let nslots = n + 2;
    let maxc = n + rng.below(2) as usize;
    // (the whole trace after the first leave is far shorter than the time-out)
    let timeout_s = rng.pick(&[5u64, 10]);
    let mut d = Drv::start(ex, tag, n, maxc, timeout_s, 120, nslots, &["lossless"]);
    let dt = rng.pick(&[16_000u64, 50_000, 100_000, 250_000]);
    for _ in 0..rng.range(4, 5) {
        d.round_lossless(rng, dt, 1);
    }
    for _ in 0..rng.range(1, 3) {
        d.round_lossless(rng, dt, 2);
        d.reads(rng, false);
    }
    // who leaves
    let mut leavers: Vec<usize> = vec![];
    let nleave = if n > 2 && rng.chance(1, 3) { 2 } else { 1 };
    let top_stays = rng.chance(3, 4);
    let cands: Vec<usize> = (0..n).filter(|k| !(top_stays && *k == n - 1)).collect();
    for _ in 0..nleave {
        let k = rng.pick(&cands);
        if !leavers.contains(&k) {
            leavers.push(k);
        }
    }
    for k in leavers.clone() {
        d.disc(rng.pick(&[Disc::CDisc, Disc::CTDisc, Disc::SDisc]), k);
        if rng.chance(1, 2) {
            d.round_lossless(rng, dt, 1);
        }
    }
    for _ in 0..3 {
        d.round_lossless(rng, dt, 1);
        d.reads(rng, false);
    }
    // who joins: never more than have left for good (the table never fills: nobody is denied)
    let gone: Vec<usize> = leavers
        .iter()
        .copied()
        .filter(|k| match d.id[*k] {
            Some(id) => !d.st.rc.contains(&id) && !d.st.nc.contains(&id) && !d.st.rd.contains(&id) && d.st.cl.get(k).map(|c| c.1.starts_with("disc")).unwrap_or(false),
            None => false,
        })
        .collect();
    let njoin = if gone.is_empty() { 0 } else { rng.range(1, gone.len() as u64) as usize };
    let mut spare = n;
    for j in 0..njoin {
        let k = if rng.chance(1, 3) {
            gone[j]
        } else {
            spare += 1;
            spare - 1
        };
        d.new_client(k, 201 + j as u64);
        if rng.chance(1, 2) {
            d.round_lossless(rng, dt, 1);
        }
    }
    for _ in 0..5 {
        d.round_lossless(rng, dt, 1);
    }
    for _ in 0..2 {
        d.round_lossless(rng, dt, 2);
        d.reads(rng, false);
    }
    d.events_and_state();
    d.x("note heal-start");
    for _ in 0..3 {
        d.round_lossless(rng, 301_000, 0);
    }
    d.events_and_state();
    d.reads(rng, true);
    d.x("note healed");
    for k in d.live_slots() {
        if rng.chance(2, 3) {
            d.disc(rng.pick(&[Disc::CDisc, Disc::CTDisc, Disc::SDisc]), k);
            if rng.chance(1, 2) {
                d.round_lossless(rng, dt, 1);
            }
        }
    }
    for _ in 0..4 {
        d.round_lossless(rng, dt.max(50_000), 0);
    }
    d.reads(rng, true);
    d.settle();
}

/// profile 7: connect tokens that expire (3-5 s) long before the time-out (10-15 s); one client falls silent at the very
/// moment the server has accepted its connection response (it is never updated again: the server hears no keep-alive of
/// it, the session stays unconfirmed); 0-2 ordinary sessions next to it; lossless rounds past the token's expiry and past
/// the time-out: the session ends by time-out, with its event, and not before; `note settled`
fn script_unconfirmed(rng: &mut Rng, _tier: Tier, ex: &mut dyn FnMut(&str) -> String) {
    let tag = rng.0;
    let n = rng.range(1, 3) as usize;
    let v = rng.below(n as u64) as usize;
    let maxc = n + rng.below(2) as usize;
    let timeout_s = rng.pick(&[10u64, 15]);
    let expire_s = rng.pick(&[3u64, 5]);
    let mut d = Drv::start(ex, tag, n, maxc, timeout_s, expire_s, n, &["lossless"]);
    let dt = rng.pick(&[50_000u64, 100_000, 250_000]);
    let vid = 100 + v as u64;
    for _ in 0..8 {
        d.round_lossless(rng, dt, 1);
        if d.st.nc.contains(&vid) {
            break;
        }
    }
    d.disc(Disc::Silent, v);
    for _ in 0..rng.range(1, 3) {
        d.round_lossless(rng, dt, 1);
        d.reads(rng, false);
    }
    d.wait_lossless(rng, 500_000);
    for _ in 0..3 {
        d.round_lossless(rng, dt, 1);
    }
    d.reads(rng, true);
    d.settle();
}

/// profile 8 (sibling of tp-dupid's first variant, with application messages): client id 100 is connected on relay slot 0
/// (time-out 15 s); the server submits reliable messages M1 (ordered, unordered) to it; that client object is never updated
/// again (silent, not disconnected; nothing of the server reaches it any more); a second client object with the SAME id (fresh
/// token, new socket, relay slot 1) knocks; the server submits M2; lossless rounds on slot 1, well inside the time-out; the
/// second client reads everything. Messages are attributed to the client object that exists when they are submitted
/// (`t-cnew` starts the new session of the id): whatever the second object obtains was submitted after it came into being
fn script_reconnect(rng: &mut Rng, _tier: Tier, ex: &mut dyn FnMut(&str) -> String) {
    let mut x = |op: &str| -> String { ex(op) };
    x("t-new 1 2 15 60 2");
    x("note lossless");
    x("note churn");
    let observe = |x: &mut dyn FnMut(&str) -> String| {
        for _ in 0..8 {
            if x("t-ev") == "none" {
                break;
            }
        }
        x("t-state");
        x("t-acc");
    };
    for _ in 0..4 {
        x("t-cupd 0 250000");
        x("t-fwdn up 0");
        x("t-supd 250000");
        observe(&mut x);
        x("t-ssend");
        x("t-fwdn down 0");
    }
    let stamp = |rng: &mut Rng, tag: u8| {
        let n = rng.range(3, 40) as usize;
        format!("{:02x}{}", tag, hex(&rng.payload(n)))
    };
    // M1: never acknowledged (the first client object is gone from here on)
    let nm1 = rng.range(1, 3);
    for j in 0..nm1 {
        let m = stamp(rng, 0x10 + j as u8);
        x(&format!("t-send s100 2 {}", m));
        let m = stamp(rng, 0x20 + j as u8);
        x(&format!("t-send s100 1 {}", m));
    }
    x("t-ssend");
    let dt = rng.pick(&[100_000u64, 250_000, 500_000]);
    for _ in 0..rng.below(4) {
        x(&format!("t-supd {}", dt));
        observe(&mut x);
        x("t-ssend");
    }
    x("t-cnew 1 100");
    let rounds = rng.range(6, 10);
    let m2_at = rng.range(2, 4);
    for r in 0..rounds {
        x("t-cupd 1 250000");
        x("t-csend 1");
        x("t-fwdn up 1");
        x("t-supd 250000");
        observe(&mut x);
        if r == m2_at {
            let m = stamp(rng, 0x30);
            x(&format!("t-send s100 2 {}", m));
            let m = stamp(rng, 0x40);
            x(&format!("t-send s100 1 {}", m));
        }
        x("t-ssend");
        x("t-fwdn down 1");
        if r >= m2_at && rng.chance(1, 2) {
            x("t-recvall c1 2");
            x("t-recvall c1 1");
        }
    }
    x("t-cupd 1 0");
    for ch in [2, 1, 0] {
        x(&format!("t-recvall c1 {}", ch));
    }
    observe(&mut x);
}

fn nontrivial(t: &Trace) -> bool {
    t.outs.iter().any(|o| o.starts_with("connected ")) && t.outs.iter().any(|o| o.starts_with("msg ") || (o.starts_with("msgs ") && !o.starts_with("msgs 0")))
}

fn keep_cfg(ops: &[String]) -> usize {
    let mut k = 0;
    for o in ops {
        if o.starts_with("t-new ") || (k > 0 && o.starts_with("note ")) {
            k += 1;
        } else {
            break;
        }
    }
    k
}

pub fn profiles() -> Vec<Profile> {
    vec![
        Profile {
            name: "tp-lossless",
            props: &["C20", "C11"],
            cases: |t| tier_cases(t, 60, 600),
            new_world,
            script: script_lossless,
            nontrivial,
            keep: keep_cfg,
            fixed: None,
        },
        Profile {
            name: "tp-faulty",
            props: &["C20"],
            cases: |t| tier_cases(t, 60, 600),
            new_world,
            script: script_faulty,
            nontrivial,
            keep: keep_cfg,
            fixed: None,
        },
        Profile {
            name: "tp-dupid",
            props: &["C20"],
            cases: |t| tier_cases(t, 12, 60),
            new_world,
            script: script_dupid,
            nontrivial: |t| t.outs.iter().any(|o| o.starts_with("connected 7")),
            keep: keep_cfg,
            fixed: None,
        },
        Profile {
            name: "tp-churn",
            props: &["C20"],
            cases: |t| tier_cases(t, 60, 600),
            new_world,
            script: script_churn,
            nontrivial,
            keep: keep_cfg,
            fixed: None,
        },
        Profile {
            name: "tp-rejoin",
            props: &["C11", "C20"],
            cases: |t| tier_cases(t, 24, 240),
            new_world,
            script: script_rejoin,
            // somebody joined after somebody else had left, and messages went on
            nontrivial: |t| nontrivial(t) && t.ops.iter().any(|o| o.starts_with("t-cnew ")),
            keep: keep_cfg,
            fixed: None,
        },
        Profile {
            name: "tp-unconfirmed",
            props: &["C20"],
            cases: |t| tier_cases(t, 12, 100),
            new_world,
            script: script_unconfirmed,
            nontrivial: |t| t.outs.iter().any(|o| o.starts_with("connected ")) && t.ops.iter().any(|o| o.starts_with("note silent")),
            keep: keep_cfg,
            fixed: None,
        },
        Profile {
            name: "tp-reconnect",
            props: &["C03", "C11", "C20"],
            cases: |t| tier_cases(t, 12, 100),
            new_world,
            script: script_reconnect,
            nontrivial: |t| t.outs.iter().any(|o| o.starts_with("connected 100")) && t.ops.iter().any(|o| o.starts_with("t-cnew ")),
            keep: keep_cfg,
            fixed: None,
        },
        Profile {
            name: "tp-bounce",
            props: &["C20"],
            cases: |t| tier_cases(t, 24, 200),
            new_world,
            script: script_bounce,
            // the session of a bouncer reached the application: connected and disconnected, nothing in between
            nontrivial: |t| t.outs.windows(2).any(|w| w[0].starts_with("connected ") && w[1].starts_with("disconnected ") && w[0][10..] == *w[1][13..].split(' ').next().unwrap_or("")),
            keep: keep_cfg,
            fixed: None,
        },
    ]
}

// ---------------------------------------------------------------------------------------------
// oracles (pure functions over the trace)
// ---------------------------------------------------------------------------------------------

fn fail(at: usize, sig: &str, what: String) -> Option<OracleFail> {
    Some(OracleFail { at, what, signature: sig.to_string() })
}

#[derive(Clone, Debug)]
struct Sess {
    k: usize,
    id: u64,
    /// first op after which an end of this session is the script's own doing
    disc_op: Option<usize>,
    /// first op after which the session MUST end on both sides (judged at `note settled`)
    must_end: Option<usize>,
    /// `must_end` stems from an explicit disconnect call (not from silence / a black hole)
    sharp: bool,
    /// the client object is no longer driven (its status is frozen / unobservable)
    silent: bool,
    /// the client object was replaced by `t-cnew`
    replaced: bool,
}

#[derive(Default)]
struct Ctx {
    slot: BTreeMap<usize, usize>,
    by_id: HashMap<u64, usize>,
    sess: Vec<Sess>,
    mode: String,
    churn: bool,
    last_state: Option<(usize, St)>,
    /// index of the last t-supd
    last_supd: Option<usize>,
    /// the previous op (ignoring t-ev / note) was a t-supd
    after_supd: bool,
    /// events were drained to `none` since the last t-supd and nothing touched the server since
    drained: bool,
    ghost: bool,
    holes: HashSet<usize>,
    /// relay accounting: is the trace, as far as it can be told from the ops, free of loss and delay?
    ll: Lossless,
    /// op indices at which a datagram was seen to be lost, delayed or possibly so
    viol: Vec<(usize, usize)>,
    /// (op, slot) where a datagram was forwarded after a later one (reordering, duplicate, replay)
    reord: Vec<(usize, usize)>,
    /// per slot: virtual time the client / the server spent since the last update that could have
    /// received something from the other side
    c_starve: HashMap<usize, u64>,
    s_starve: HashMap<usize, u64>,
    timeout_us: u64,
    /// virtual clocks
    stime: u64,
    ctime: HashMap<usize, u64>,
    /// per slot: (a t-cupd is waiting for its t-supd, completed client-then-server update pairs)
    cs: HashMap<usize, (bool, usize)>,
    /// per slot: (a t-supd is waiting for the slot's t-cupd, completed server-then-client pairs)
    sc: HashMap<usize, (bool, usize)>,
    /// per session: (stime, ctime[k], cs pairs, sc pairs) when `must_end` was set
    snap: HashMap<usize, (u64, u64, usize, usize)>,
    /// `max_memory_usage_bytes` of every channel when `t-new` set one
    chan_mem: Option<usize>,
}

/// Per (direction, slot): has everything the sender emitted been forwarded (genuinely, at least
/// once) before the receiver's next update? Two styles are understood: `t-q` + `t-fwd` per item,
/// and `t-fwdn`/`t-fwdall` flushes. Anything else counts as a possible loss.
#[derive(Default)]
struct Lossless {
    dirty: [HashMap<usize, bool>; 2],
    measured: [HashMap<usize, bool>; 2],
    len: [HashMap<usize, usize>; 2],
    base: [HashMap<usize, usize>; 2],
    flushed: [HashMap<usize, bool>; 2],
    fwd: [HashMap<usize, HashSet<usize>>; 2],
    /// highest index forwarded so far
    top: [HashMap<usize, usize>; 2],
}

impl Lossless {
    fn emit(&mut self, dir: usize, k: usize) {
        self.dirty[dir].insert(k, true);
        self.measured[dir].insert(k, false);
    }
    fn flush(&mut self, dir: usize, k: usize) {
        self.dirty[dir].insert(k, false);
        self.flushed[dir].insert(k, true);
    }
    /// true if everything emitted towards the consumer of (dir, k) has been forwarded
    fn settled(&mut self, dir: usize, k: usize) -> bool {
        if !self.dirty[dir].get(&k).copied().unwrap_or(false) {
            return true;
        }
        if self.flushed[dir].get(&k).copied().unwrap_or(false) || !self.measured[dir].get(&k).copied().unwrap_or(false) {
            return false;
        }
        let len = self.len[dir].get(&k).copied().unwrap_or(0);
        let base = self.base[dir].get(&k).copied().unwrap_or(0);
        let f = self.fwd[dir].entry(k).or_default();
        if (base..len).all(|i| f.contains(&i)) {
            self.base[dir].insert(k, len);
            self.dirty[dir].insert(k, false);
            true
        } else {
            false
        }
    }
}

impl Ctx {
    /// no loss or delay detected at or after op `from`
    fn lossless_since(&self, from: usize, k: usize) -> bool {
        !self.viol.iter().any(|v| v.0 >= from && v.1 == k)
    }
    /// additionally: every datagram forwarded exactly in the order of emission
    fn in_order_since(&self, from: usize, k: usize) -> bool {
        self.lossless_since(from, k) && !self.reord.iter().any(|v| v.0 >= from && v.1 == k)
    }
    fn relay_step(&mut self, i: usize, t: &[&str], out: &str) {
        let slots: Vec<usize> = self.slot.keys().copied().collect();
        match t[0] {
            "t-cupd" | "t-csend" | "t-ctdisc" if t.len() >= 2 => {
                if let Ok(k) = t[1].parse::<usize>() {
                    if t[0] == "t-cupd" && !self.holes.contains(&k) && !self.ll.settled(DOWN, k) {
                        self.viol.push((i, k));
                    }
                    self.ll.emit(UP, k);
                }
            }
            "t-supd" | "t-ssend" | "t-sdiscall" => {
                for k in slots {
                    if t[0] == "t-supd" && !self.holes.contains(&k) && !self.ll.settled(UP, k) {
                        self.viol.push((i, k));
                    }
                    self.ll.emit(DOWN, k);
                }
            }
            "t-q" => {
                if let Some(q) = parse_q(out) {
                    for d in 0..2 {
                        for (k, n) in q[d].iter().enumerate() {
                            self.ll.len[d].insert(k, *n);
                            self.ll.measured[d].insert(k, true);
                        }
                    }
                }
            }
            "t-fwd" if t.len() == 4 && out == "ok" => {
                if let (Some(d), Ok(k), Ok(n)) = (parse_dir(t[1]), t[2].parse::<usize>(), t[3].parse::<usize>()) {
                    self.ll.fwd[d].entry(k).or_default().insert(n);
                    let top = self.ll.top[d].entry(k).or_insert(0);
                    if n < *top || (n == *top && n > 0) {
                        self.reord.push((i, k));
                    }
                    *top = (*top).max(n);
                }
            }
            "t-fwdn" if t.len() == 3 && out.starts_with("ok") => {
                if let (Some(d), Ok(k)) = (parse_dir(t[1]), t[2].parse::<usize>()) {
                    self.ll.flush(d, k);
                }
            }
            "t-fwdall" if t.len() == 2 && out.starts_with("ok") => {
                if let Some(d) = parse_dir(t[1]) {
                    for k in slots {
                        self.ll.flush(d, k);
                    }
                }
            }
            "t-mark" => {
                for d in 0..2 {
                    for k in slots.iter() {
                        if !self.holes.contains(k) && !self.ll.settled(d, *k) {
                            self.viol.push((i, *k));
                        }
                        self.ll.flush(d, *k);
                    }
                }
            }
            _ => {}
        }
    }
    fn slot_blackholed(&self, k: usize) -> bool {
        self.holes.contains(&k)
    }
    fn add(&mut self, k: usize, id: u64) {
        self.holes.remove(&k);
        if let Some(old) = self.slot.get(&k).copied() {
            let s = &mut self.sess[old];
            s.silent = true;
            s.replaced = true;
        }
        self.sess.push(Sess { k, id, disc_op: None, must_end: None, sharp: false, silent: false, replaced: false });
        self.slot.insert(k, self.sess.len() - 1);
        self.by_id.insert(id, self.sess.len() - 1);
    }
    fn sess_of(&self, who: &str) -> Option<usize> {
        match parse_who(who)? {
            Who::C(k) => self.slot.get(&k).copied(),
            Who::S(id) => self.by_id.get(&id).copied(),
        }
    }
    /// bookkeeping common to all oracles; call once per op, before the oracle's own logic
    fn step(&mut self, i: usize, t: &[&str], out: &str) {
        let was_after_supd = self.after_supd;
        self.relay_step(i, t, out);
        let had_must: Vec<bool> = self.sess.iter().map(|s| s.must_end.is_some()).collect();
        match t[0] {
            "t-new" if t.len() >= 5 => self.timeout_us = t[3].parse::<u64>().unwrap_or(0) * 1_000_000,
            "t-supd" if t.len() == 2 => {
                self.stime += t[1].parse::<u64>().unwrap_or(0);
                let slots: Vec<usize> = self.slot.keys().copied().collect();
                let d = t[1].parse::<u64>().unwrap_or(0);
                for k in slots {
                    self.sc.entry(k).or_insert((false, 0)).0 = true;
                    let e = self.cs.entry(k).or_insert((false, 0));
                    let st = self.s_starve.entry(k).or_insert(0);
                    if e.0 {
                        *e = (false, e.1 + 1);
                        *st = d;
                    } else {
                        *st += d;
                    }
                    // the schedule itself (not the relay) may starve a side into its time-out;
                    // 300 ms of slack for the 250 ms keep-alive period
                    if self.timeout_us > 0 && *st + 300_000 >= self.timeout_us {
                        self.viol.push((i, k));
                    }
                }
            }
            "t-cupd" if t.len() == 3 => {
                if let Ok(k) = t[1].parse::<usize>() {
                    *self.ctime.entry(k).or_insert(0) += t[2].parse::<u64>().unwrap_or(0);
                    self.cs.entry(k).or_insert((false, 0)).0 = true;
                    let d = t[2].parse::<u64>().unwrap_or(0);
                    let e = self.sc.entry(k).or_insert((false, 0));
                    let st = self.c_starve.entry(k).or_insert(0);
                    if e.0 {
                        *e = (false, e.1 + 1);
                        *st = d;
                    } else {
                        *st += d;
                    }
                    if self.timeout_us > 0 && *st + 300_000 >= self.timeout_us {
                        self.viol.push((i, k));
                    }
                }
            }
            _ => {}
        }
        self.step2(i, t, out, was_after_supd);
        for si in 0..self.sess.len() {
            if self.sess[si].must_end.is_some() && !had_must.get(si).copied().unwrap_or(false) {
                let k = self.sess[si].k;
                self.reset_pairs(k);
                self.snap.insert(si, (self.stime, self.ctime.get(&k).copied().unwrap_or(0), self.cs[&k].1, self.sc[&k].1));
            }
        }
    }
    fn reset_pairs(&mut self, k: usize) {
        self.cs.entry(k).or_insert((false, 0)).0 = false;
        self.sc.entry(k).or_insert((false, 0)).0 = false;
    }
    /// since `must_end` of the session: completed (client update, then server update) pairs and
    /// completed (server update, then client update) pairs
    fn rounds(&self, si: usize) -> (usize, usize) {
        let s = &self.sess[si];
        let (_, _, cs0, sc0) = match self.snap.get(&si) {
            Some(x) => *x,
            None => return (0, 0),
        };
        let cs = self.cs.get(&s.k).map(|x| x.1).unwrap_or(0).saturating_sub(cs0);
        let sc = self.sc.get(&s.k).map(|x| x.1).unwrap_or(0).saturating_sub(sc0);
        (cs, sc)
    }
    /// may the session be judged to have ended on the server now? (2 verified lossless
    /// client-then-server update pairs after an explicit disconnect, or time-out + 1 s of server time)
    fn server_due(&self, si: usize) -> bool {
        let (st, _, _, _) = match self.snap.get(&si) {
            Some(x) => *x,
            None => return false,
        };
        let s = &self.sess[si];
        let m = s.must_end.unwrap_or(0);
        (s.sharp && !s.silent && self.in_order_since(m, s.k) && !self.holes.contains(&s.k) && self.rounds(si).0 >= 2) || (self.timeout_us > 0 && self.stime >= st + self.timeout_us + 1_000_000)
    }
    fn client_due(&self, si: usize) -> bool {
        let (_, ct, _, _) = match self.snap.get(&si) {
            Some(x) => *x,
            None => return false,
        };
        let s = &self.sess[si];
        let m = s.must_end.unwrap_or(0);
        if s.silent {
            return false;
        }
        (s.sharp && self.in_order_since(m, s.k) && !self.holes.contains(&s.k) && self.rounds(si).1 >= 2) || (self.timeout_us > 0 && self.ctime.get(&s.k).copied().unwrap_or(0) >= ct + self.timeout_us + 1_000_000)
    }
    fn step2(&mut self, i: usize, t: &[&str], out: &str, was_after_supd: bool) {
        match t[0] {
            "t-ev" | "note" | "t-q" => {}
            _ => self.after_supd = false,
        }
        match t[0] {
            "t-new" if out == "ok" && t.len() >= 5 => {
                self.chan_mem = if t.len() == 7 { t[6].parse().ok() } else { None };
                let n: usize = t[1].parse().unwrap_or(0);
                for k in 0..n {
                    self.add(k, 100 + k as u64);
                }
            }
            "t-cnew" if out == "ok" && t.len() == 3 => {
                if let (Ok(k), Ok(id)) = (t[1].parse(), t[2].parse()) {
                    self.add(k, id);
                }
            }
            "t-supd" => {
                self.last_supd = Some(i);
                self.after_supd = true;
                self.drained = false;
            }
            "t-ev" => {
                if out == "none" && (was_after_supd || self.after_supd) {
                    self.drained = true;
                }
            }
            "t-state" => {
                if let Some(st) = parse_state(out) {
                    self.last_state = Some((i, st));
                }
            }
            // a reliable message longer than the whole channel memory: renet disconnects that connection with
            // SendChannelError — a disconnect decided by the message layer, as sharp as an explicit one
            "t-send" if t.len() == 4 && out == "ok" && (t[2] == "1" || t[2] == "2") && self.chan_mem.map(|m| t[3].len() / 2 > m).unwrap_or(false) => {
                let sess = if let Some(k) = t[1].strip_prefix('c') {
                    k.parse().ok().and_then(|k: usize| self.slot.get(&k).copied())
                } else {
                    self.drained = false;
                    t[1].strip_prefix('s').and_then(|x| x.parse().ok()).and_then(|id: u64| self.by_id.get(&id).copied())
                };
                if let Some(s) = sess {
                    self.sess[s].disc_op.get_or_insert(i);
                    if self.sess[s].must_end.is_none() {
                        self.sess[s].must_end = Some(i);
                        self.sess[s].sharp = true;
                    }
                }
            }
            "t-cdisc" | "t-ctdisc" if t.len() == 2 && out == "ok" => {
                if let Some(s) = t[1].parse().ok().and_then(|k: usize| self.slot.get(&k).copied()) {
                    self.sess[s].disc_op.get_or_insert(i);
                    if self.sess[s].must_end.is_none() {
                        self.sess[s].must_end = Some(i);
                        self.sess[s].sharp = true;
                    }
                }
            }
            "t-sdisc" if t.len() == 2 => {
                self.drained = false;
                if let Some(s) = t[1].parse().ok().and_then(|id: u64| self.by_id.get(&id).copied()) {
                    self.sess[s].disc_op.get_or_insert(i);
                    // only a connection the server has can be ended by it
                    let known = self.last_state.as_ref().map(|(_, st)| st.rc.contains(&self.sess[s].id)).unwrap_or(false);
                    if known && self.sess[s].must_end.is_none() {
                        self.sess[s].must_end = Some(i);
                        self.sess[s].sharp = true;
                    }
                }
            }
            "t-rdiscall" => {
                self.drained = false;
                let rc: Vec<u64> = self.last_state.as_ref().map(|(_, st)| st.rc.clone()).unwrap_or_default();
                for s in self.sess.iter_mut() {
                    s.disc_op.get_or_insert(i);
                    if rc.contains(&s.id) && s.must_end.is_none() {
                        s.must_end = Some(i);
                        s.sharp = true;
                    }
                }
            }
            "t-sdiscall" => {
                self.drained = false;
                let fresh = match (&self.last_state, self.last_supd) {
                    (Some((si, _)), Some(u)) => *si > u,
                    _ => false,
                };
                let nc: Vec<u64> = self.last_state.as_ref().map(|(_, st)| st.nc.clone()).unwrap_or_default();
                for s in self.sess.iter_mut() {
                    s.disc_op.get_or_insert(i);
                    if fresh && nc.contains(&s.id) && s.must_end.is_none() {
                        s.must_end = Some(i);
                        s.sharp = true;
                    }
                }
            }
            "note" if t.len() >= 2 => match t[1] {
                "lossless" | "benign" | "lossy" => self.mode = t[1].to_string(),
                "churn" => self.churn = true,
                "ghost" => self.ghost = true,
                "silent" | "blackhole" if t.len() == 3 => {
                    if let Some(s) = t[2].parse().ok().and_then(|k: usize| self.slot.get(&k).copied()) {
                        self.sess[s].disc_op.get_or_insert(i);
                        self.sess[s].must_end.get_or_insert(i);
                        if t[1] == "silent" {
                            self.sess[s].silent = true;
                        } else {
                            self.holes.insert(self.sess[s].k);
                        }
                    }
                }
                _ => {}
            },
            _ => {}
        }
    }
}

fn toks(op: &str) -> Vec<&str> {
    let t: Vec<&str> = op.split(' ').filter(|s| !s.is_empty()).collect();
    if t.is_empty() {
        vec![""]
    } else {
        t
    }
}

/// (a) after every server update both layers know the same clients
fn oracle_lockstep(ops: &[String], outs: &[String]) -> Option<OracleFail> {
    let mut c = Ctx::default();
    for (i, (op, out)) in ops.iter().zip(outs.iter()).enumerate() {
        let t = toks(op);
        let right_after = c.after_supd;
        c.step(i, &t, out);
        if t[0] == "t-state" && right_after {
            let st = parse_state(out)?;
            if st.rc != st.nc || st.nn != st.nc.len() {
                return fail(i, "lockstep-sets-differ", format!("after a server update renet reports connected {:?} but netcode holds {:?} (count {})", st.rc, st.nc, st.nn));
            }
            if !st.rd.is_empty() {
                return fail(i, "lockstep-dead-connection-left", format!("after a server update renet still holds disconnected connections {:?}", st.rd));
            }
            if !st.bad.is_empty() {
                return fail(i, "lockstep-wrong-addr-or-userdata", format!("netcode clients {:?} have an address or user data that is not their token's", st.bad));
            }
        }
    }
    None
}

/// (b) per id the event stream alternates connected/disconnected starting with connected, only
/// for ids that exist; with the events drained, an id is connected in renet iff its last event says so
fn oracle_events(ops: &[String], outs: &[String]) -> Option<OracleFail> {
    let mut c = Ctx::default();
    let mut last: HashMap<u64, bool> = HashMap::new();
    for (i, (op, out)) in ops.iter().zip(outs.iter()).enumerate() {
        let t = toks(op);
        let right_after = c.after_supd;
        c.step(i, &t, out);
        match t[0] {
            "t-ev" => {
                let e: Vec<&str> = out.split(' ').collect();
                if e.len() >= 2 && (e[0] == "connected" || e[0] == "disconnected") {
                    let id: u64 = e[1].parse().ok()?;
                    if !c.by_id.contains_key(&id) {
                        return fail(i, "event-unknown-id", format!("event {:?} names an id no client was created with", out));
                    }
                    let conn = e[0] == "connected";
                    let prev = last.get(&id).copied().unwrap_or(false);
                    if conn == prev {
                        return fail(i, "event-not-alternating", format!("event {:?} does not alternate for id {} (previous event connected={})", out, id, prev));
                    }
                    last.insert(id, conn);
                }
            }
            "t-state" if right_after && c.drained => {
                let st = parse_state(out)?;
                let mut by_ev: Vec<u64> = last.iter().filter(|(_, v)| **v).map(|(k, _)| *k).collect();
                by_ev.sort();
                if by_ev != st.rc {
                    return fail(i, "events-vs-connected-set", format!("ids whose last event is `connected`: {:?}, renet connected set: {:?}", by_ev, st.rc));
                }
            }
            _ => {}
        }
    }
    None
}

/// (a') "the clients the message layer reports connected are exactly those whose netcode handshake completed", client
/// side: a RenetClient that reports `connected` belongs to a session the server reported with a `connected <id>` event
/// and its netcode client is not disconnected; and (tp-lossless, at `note healed`) every session the script has not
/// ended, forwarded in order since the start and updated at least six times on both sides, is connected everywhere:
/// in renet's set, in netcode's, and on its client.
fn oracle_client_status(ops: &[String], outs: &[String]) -> Option<OracleFail> {
    let mut c = Ctx::default();
    // id -> op index of the latest `connected <id>` event; slot -> op index at which its current client object was made
    let mut connected_ev: HashMap<u64, usize> = HashMap::new();
    let mut born: HashMap<usize, usize> = HashMap::new();
    // slot -> (t-state at which "connected but netcode down" was first seen, a t-cupd of the slot happened since)
    let mut lag: HashMap<usize, (usize, bool)> = HashMap::new();
    for (i, (op, out)) in ops.iter().zip(outs.iter()).enumerate() {
        let t = toks(op);
        c.step(i, &t, out);
        match t[0] {
            "t-ev" => {
                let e: Vec<&str> = out.split(' ').collect();
                if e.len() >= 2 && e[0] == "connected" {
                    if let Ok(id) = e[1].parse::<u64>() {
                        connected_ev.insert(id, i);
                    }
                }
            }
            "t-cupd" if t.len() == 3 => {
                if let Ok(k) = t[1].parse::<usize>() {
                    if let Some(x) = lag.get_mut(&k) {
                        x.1 = true;
                    }
                }
            }
            "t-cnew" if t.len() == 3 => {
                if let Ok(k) = t[1].parse::<usize>() {
                    lag.remove(&k);
                    if out == "ok" {
                        born.insert(k, i);
                    }
                }
            }
            "t-state" => {
                let st = parse_state(out)?;
                for (k, (id, rs, nr)) in st.cl.iter() {
                    if rs != "connected" {
                        continue;
                    }
                    // (the event has to be that of THIS client object's handshake: younger than the object)
                    if !connected_ev.get(id).map(|e| *e > born.get(k).copied().unwrap_or(0)).unwrap_or(false) {
                        return fail(i, "client-connected-without-server-event", format!("the RenetClient of slot {} (id {}) reports connected, the server has not reported `connected {}` since that client object exists", k, id, id));
                    }
                    // (the RenetClient learns of a netcode-level end at the NEXT transport update: one update of lag is
                    // how the glue works)
                    if nr != "-" {
                        match lag.get(k) {
                            Some((_, true)) => {
                                return fail(i, "client-connected-while-netcode-down", format!("the RenetClient of slot {} (id {}) still reports connected a transport update after its netcode client was seen disconnected ({})", k, id, nr));
                            }
                            Some(_) => {}
                            None => {
                                lag.insert(*k, (i, false));
                            }
                        }
                    }
                }
                lag.retain(|k, _| st.cl.get(k).map(|x| x.1 == "connected" && x.2 != "-").unwrap_or(false));
            }
            "note" if t.len() == 2 && t[1] == "healed" && c.mode == "lossless" && !c.churn => {
                let Some((_, st)) = c.last_state.clone() else { continue };
                for s in c.sess.iter() {
                    if s.disc_op.is_some() || s.replaced || s.silent || c.holes.contains(&s.k) || !c.in_order_since(0, s.k) || !c.lossless_since(0, s.k) {
                        continue;
                    }
                    let pairs = c.cs.get(&s.k).map(|x| x.1).unwrap_or(0).min(c.sc.get(&s.k).map(|x| x.1).unwrap_or(0));
                    if pairs < 6 {
                        continue;
                    }
                    let client_ok = st.cl.get(&s.k).map(|x| x.0 == s.id && x.1 == "connected").unwrap_or(false);
                    if !st.rc.contains(&s.id) || !st.nc.contains(&s.id) || !client_ok {
                        return fail(
                            i,
                            "handshake-not-completed",
                            format!("session {} (slot {}): {} lossless in-order update pairs, yet renet connected = {}, netcode connected = {}, client status = {:?}", s.id, s.k, pairs, st.rc.contains(&s.id), st.nc.contains(&s.id), st.cl.get(&s.k)),
                        );
                    }
                }
            }
            _ => {}
        }
    }
    None
}

/// (b') every session's connect reaches the application exactly once (each id stands for one
/// handshake of one client object; the harness never re-uses a token or an id)
fn oracle_connect_once(ops: &[String], outs: &[String]) -> Option<OracleFail> {
    let mut n: HashMap<&str, usize> = HashMap::new();
    let mut ghost = false;
    for (i, (op, out)) in ops.iter().zip(outs.iter()).enumerate() {
        if op == "note ghost" {
            ghost = true;
        }
        if op == "t-ev" && out.starts_with("connected ") {
            let e = n.entry(&out[10..]).or_insert(0);
            *e += 1;
            if *e > 1 {
                let sig = if ghost { "second-connect-by-handshake-replay" } else { "second-connect-event" };
                return fail(i, sig, format!("id {} reached the application as connected a second time although its client completed one handshake", &out[10..]));
            }
        }
    }
    None
}

/// (c) a disconnect decided by either layer on either side ends the session on both sides
/// (judged at `note settled`: the script has then run 3 lossless rounds, or the time-out plus a
/// margin where datagrams could be lost)
fn oracle_propagation(ops: &[String], outs: &[String]) -> Option<OracleFail> {
    let mut c = Ctx::default();
    let mut balance: HashMap<u64, i64> = HashMap::new();
    let mut ended_seen: HashSet<usize> = HashSet::new();
    for (i, (op, out)) in ops.iter().zip(outs.iter()).enumerate() {
        let t = toks(op);
        c.step(i, &t, out);
        if t[0] == "t-ev" {
            let e: Vec<&str> = out.split(' ').collect();
            if e.len() >= 2 {
                if let Ok(id) = e[1].parse::<u64>() {
                    *balance.entry(id).or_insert(0) += if e[0] == "connected" { 1 } else { -1 };
                }
            }
        }
        if t[0] == "t-state" {
            if let Some(st) = parse_state(out) {
                for (si, s) in c.sess.iter().enumerate() {
                    if s.must_end.is_some() && !ended_seen.contains(&si) && !(st.rc.contains(&s.id) || st.nc.contains(&s.id) || st.rd.contains(&s.id)) {
                        if c.drained && balance.get(&s.id).copied().unwrap_or(0) > 0 {
                            return fail(i, "no-disconnect-event", format!("session {} is gone from the server but no `disconnected` event followed its `connected`", s.id));
                        }
                        // from here on a re-appearance is not a propagation matter (see connect-once)
                        ended_seen.insert(si);
                    }
                }
            }
        }
        // verified lossless forwarding: within two update rounds the other side's application layer
        // knows (first update after arrival: the netcode layer; second: renet, see the glue notes)
        if t[0] == "t-state" {
            if let Some(st) = parse_state(out) {
                for (si, s) in c.sess.iter().enumerate() {
                    let m = match s.must_end {
                        Some(m) if s.sharp && !s.silent && !c.slot_blackholed(s.k) && c.in_order_since(m, s.k) => m,
                        _ => continue,
                    };
                    let (cs, sc) = c.rounds(si);
                    if cs >= 2 && !ended_seen.contains(&si) && (st.rc.contains(&s.id) || st.nc.contains(&s.id) || st.rd.contains(&s.id)) {
                        return fail(i, "server-side-not-ended-in-2-rounds", format!("session {} was disconnected at op {} ({}); two lossless client+server update rounds later the server still holds it: {}", s.id, m, ops[m], out));
                    }
                    if let Some((id, rs, _)) = st.cl.get(&s.k) {
                        if *id == s.id && sc >= 2 && !rs.starts_with("disc") {
                            return fail(i, "client-side-not-ended-in-2-rounds", format!("session {} was disconnected at op {} ({}); two lossless server+client update rounds later its RenetClient still reports {}", s.id, m, ops[m], rs));
                        }
                    }
                }
            }
        }
        if op == "note settled" {
            let (si_op, st) = match &c.last_state {
                Some(x) => x.clone(),
                None => continue,
            };
            for (si, s) in c.sess.iter().enumerate() {
                let m = match s.must_end {
                    Some(m) if m < si_op => m,
                    _ => continue,
                };
                if c.server_due(si) && !ended_seen.contains(&si) {
                    if st.rc.contains(&s.id) || st.nc.contains(&s.id) || st.rd.contains(&s.id) {
                        return fail(i, "server-side-not-ended", format!("session {} (slot {}) was disconnected at op {} ({}) but the server still holds it: {}", s.id, s.k, m, ops[m], outs[si_op]));
                    }
                    if balance.get(&s.id).copied().unwrap_or(0) > 0 {
                        return fail(i, "no-disconnect-event", format!("session {} was disconnected at op {} ({}) and is gone, but no `disconnected` event followed its `connected`", s.id, m, ops[m]));
                    }
                }
                if c.client_due(si) {
                    if let Some((id, rs, _)) = st.cl.get(&s.k) {
                        if *id == s.id && !rs.starts_with("disc") {
                            return fail(i, "client-side-not-ended", format!("session {} (slot {}) was disconnected at op {} ({}) but its client still reports {}", s.id, s.k, m, ops[m], rs));
                        }
                    }
                }
            }
        }
    }
    None
}

/// (d) channel guarantees across the whole stack
fn oracle_channels(ops: &[String], outs: &[String]) -> Option<OracleFail> {
    let mut c = Ctx::default();
    // (session, to_server, ch) -> submitted (hex, obtained?)
    let mut sub: HashMap<(usize, bool, u8), Vec<(String, bool)>> = HashMap::new();
    let mut got_n: HashMap<(usize, bool, u8), usize> = HashMap::new();
    let mut both_at_heal_start: HashSet<usize> = HashSet::new();
    let mut heal_start: Option<usize> = None;
    let mut pairs_at_heal_start: Vec<usize> = vec![];
    let both = |c: &Ctx| -> HashSet<usize> {
        let mut r = HashSet::new();
        if let Some((_, st)) = &c.last_state {
            for (si, s) in c.sess.iter().enumerate() {
                if s.disc_op.is_none() && !s.replaced && st.rc.contains(&s.id) && st.cl.get(&s.k).map(|x| x.0 == s.id && x.1 == "connected").unwrap_or(false) {
                    r.insert(si);
                }
            }
        }
        r
    };
    for (i, (op, out)) in ops.iter().zip(outs.iter()).enumerate() {
        let t = toks(op);
        c.step(i, &t, out);
        match t[0] {
            "t-send" if t.len() == 4 && out == "ok" => {
                let ch: u8 = t[2].parse().ok()?;
                if let Some(s) = c.sess_of(t[1]) {
                    sub.entry((s, t[1].starts_with('c'), ch)).or_default().push((t[3].to_string(), false));
                }
            }
            "t-bcast" if t.len() == 3 && out.starts_with("ok ") => {
                let ch: u8 = t[1].parse().ok()?;
                for id in out[3..].split(',').filter_map(|x| x.parse::<u64>().ok()) {
                    if let Some(s) = c.by_id.get(&id) {
                        sub.entry((*s, false, ch)).or_default().push((t[2].to_string(), false));
                    }
                }
            }
            "t-recv" | "t-recvall" if t.len() == 3 => {
                let ch: u8 = t[2].parse().ok()?;
                let msgs: Vec<&str> = if let Some(m) = out.strip_prefix("msg ") {
                    vec![m]
                } else if out.starts_with("msgs ") {
                    out.split(' ').skip(2).collect()
                } else {
                    vec![]
                };
                if msgs.is_empty() {
                    continue;
                }
                let s = match c.sess_of(t[1]) {
                    Some(s) => s,
                    None => return fail(i, "obtained-without-session", format!("{} obtained a message but no session exists for it", t[1])),
                };
                // the receiver c<k> obtains what the server submitted, and vice versa
                let key = (s, !t[1].starts_with('c'), ch);
                let list = sub.entry(key).or_default();
                for m in msgs {
                    match ch {
                        2 => {
                            let n = *got_n.get(&key).unwrap_or(&0);
                            if n >= list.len() {
                                return fail(i, "ordered-extra", format!("{} obtained a message on the ordered channel beyond the {} submitted in session {}", t[1], list.len(), c.sess[s].id));
                            }
                            if list[n].0 != m {
                                return fail(i, "ordered-not-prefix", format!("{} obtained as message #{} of the ordered channel something else than submitted #{} (session {})", t[1], n, n, c.sess[s].id));
                            }
                            list[n].1 = true;
                            got_n.insert(key, n + 1);
                        }
                        1 => match list.iter_mut().find(|e| !e.1 && e.0 == m) {
                            Some(e) => {
                                e.1 = true;
                                *got_n.entry(key).or_insert(0) += 1;
                            }
                            None => return fail(i, "unordered-dup-or-fabricated", format!("{} obtained on the unordered reliable channel a message not submitted or already obtained (session {})", t[1], c.sess[s].id)),
                        },
                        _ => {
                            if !list.iter().any(|e| e.0 == m) {
                                return fail(i, "unreliable-fabricated", format!("{} obtained on the unreliable channel a message never submitted in session {}", t[1], c.sess[s].id));
                            }
                        }
                    }
                }
            }
            "note" if t.len() == 2 && t[1] == "heal-start" => {
                both_at_heal_start = both(&c);
                heal_start = Some(i);
                pairs_at_heal_start = c.sess.iter().map(|s| c.cs.get(&s.k).map(|x| x.1).unwrap_or(0).min(c.sc.get(&s.k).map(|x| x.1).unwrap_or(0))).collect();
            }
            "note" if t.len() == 2 && t[1] == "healed" => {
                let now = both(&c);
                // the heal phase must really be one: verified lossless, at least 3 rounds per session
                let hs = match heal_start {
                    Some(h) => h,
                    None => continue,
                };
                for ((s, to_server, ch), list) in sub.iter() {
                    if *ch == 0 || !now.contains(s) || !both_at_heal_start.contains(s) {
                        continue;
                    }
                    let k = c.sess[*s].k;
                    // (`t-mark` right after `heal-start` writes off what the faulty phase left in the relay: those losses
                    // are what the heal has to repair — they belong to the faulty phase, not to the lossless one)
                    let from = if ops.get(hs + 1).map(|o| o == "t-mark").unwrap_or(false) { hs + 2 } else { hs + 1 };
                    if !c.lossless_since(from, k) {
                        continue;
                    }
                    let pairs = c.cs.get(&k).map(|x| x.1).unwrap_or(0).min(c.sc.get(&k).map(|x| x.1).unwrap_or(0));
                    if pairs < pairs_at_heal_start.get(*s).copied().unwrap_or(usize::MAX).saturating_add(3) {
                        continue;
                    }
                    let n = list.iter().filter(|e| e.1).count();
                    if n != list.len() {
                        return fail(i, "not-delivered-after-heal", format!("session {} channel {} {}: {} of {} submitted messages obtained after the lossless phase", c.sess[*s].id, ch, if *to_server { "client->server" } else { "server->client" }, n, list.len()));
                    }
                }
            }
            _ => {}
        }
    }
    None
}

/// (e) interference never ends a healthy session other than through time-outs.
/// lossless / benign traces (every genuine datagram forwarded in its tick; duplicates, replays,
/// corrupted copies and reordering on top): no session ends before the script's own disconnect.
/// lossy traces: a session may end early only through the time-out path (client: a netcode time-out
/// reason or the server's Disconnect after ITS time-out; server event reason `Transport`).
fn oracle_no_spurious_end(ops: &[String], outs: &[String]) -> Option<OracleFail> {
    let mut c = Ctx::default();
    // lossy traces, "other than through timeouts": the idle times `t-acc` prints say whether a timeout period really passed
    //   s_idle_prev: time_since_last_received_packet(id) before the latest server update, last_d: that update's duration
    //   c_idle / c_elapsed: the same per client slot, plus the durations of its updates since
    let mut s_idle: HashMap<u64, u128> = HashMap::new();
    let mut s_idle_prev: HashMap<u64, u128> = HashMap::new();
    let mut last_d: u128 = 0;
    let mut c_idle: HashMap<usize, u128> = HashMap::new();
    let mut c_elapsed: HashMap<usize, u128> = HashMap::new();
    let mut srv_ended: HashSet<u64> = HashSet::new();
    let mut client_down: HashSet<usize> = HashSet::new();
    for (i, (op, out)) in ops.iter().zip(outs.iter()).enumerate() {
        let t = toks(op);
        c.step(i, &t, out);
        match t[0] {
            "t-supd" if t.len() == 2 => {
                s_idle_prev = std::mem::take(&mut s_idle);
                last_d = t[1].parse::<u128>().unwrap_or(0) * 1000;
            }
            "t-cupd" if t.len() == 3 => {
                if let (Ok(k), Ok(d)) = (t[1].parse::<usize>(), t[2].parse::<u128>()) {
                    *c_elapsed.entry(k).or_insert(0) += d * 1000;
                }
            }
            "t-cnew" if t.len() == 3 => {
                if let Ok(k) = t[1].parse::<usize>() {
                    c_idle.remove(&k);
                    c_elapsed.remove(&k);
                }
            }
            "t-acc" if out.starts_with("acc ") => {
                s_idle.clear();
                for f in out.split(' ').skip(1) {
                    let Some((k, v)) = f.split_once('=') else { continue };
                    if let Some(id) = k.strip_prefix('s').and_then(|x| x.parse::<u64>().ok()) {
                        if let Ok(ns) = v.parse::<u128>() {
                            s_idle.insert(id, ns);
                        }
                    } else if let Some(slot) = k.strip_prefix('c').and_then(|x| x.parse::<usize>().ok()) {
                        if let Some(ns) = v.rsplit(':').next().and_then(|x| x.parse::<u128>().ok()) {
                            c_idle.insert(slot, ns);
                            c_elapsed.insert(slot, 0);
                        }
                    }
                }
            }
            "t-ev" if out.starts_with("disconnected ") => {
                if let Some(id) = out.split(' ').nth(1).and_then(|x| x.parse::<u64>().ok()) {
                    srv_ended.insert(id);
                }
            }
            _ => {}
        }
        if c.mode.is_empty() {
            continue;
        }
        let strict_mode = c.mode != "lossy";
        // (session, client-side?, renet reason, netcode reason)
        let mut seen: Vec<(usize, bool, String, String)> = vec![];
        match t[0] {
            "t-ev" if out.starts_with("disconnected ") => {
                let e: Vec<&str> = out.splitn(3, ' ').collect();
                if let Some(s) = e.get(1).and_then(|x| x.parse::<u64>().ok()).and_then(|id| c.by_id.get(&id).copied()) {
                    seen.push((s, false, e.get(2).unwrap_or(&"").to_string(), String::new()));
                }
            }
            "t-state" => {
                if let Some(st) = parse_state(out) {
                    for (k, (id, rs, nr)) in st.cl.iter() {
                        if let Some(s) = c.slot.get(k).copied() {
                            if c.sess[s].id == *id && (rs.starts_with("disc") || nr != "-") {
                                seen.push((s, true, rs.trim_start_matches("disc:").to_string(), nr.clone()));
                            }
                        }
                    }
                }
            }
            _ => {}
        }
        for (s, client_side, rs, nr) in seen {
            let se = &c.sess[s];
            if se.disc_op.map(|d| d <= i).unwrap_or(false) {
                continue;
            }
            if c.churn && client_side && nr == "ConnectionDenied" {
                continue; // the server was full
            }
            let side = if client_side { "client" } else { "server" };
            // the strict claim needs the trace itself to show that nothing of this session was lost
            // or delayed so far and that both sides kept being updated
            if strict_mode && !c.lossless_since(0, se.k) {
                continue;
            }
            if strict_mode {
                let reused = c.sess.iter().any(|o| o.k == se.k && o.id != se.id);
                if reused && client_side && (nr == "ConnectionResponseTimedOut" || nr == "ConnectionRequestTimedOut") {
                    return fail(i, "handshake-from-reused-address-times-out", format!("session {} (slot {}) never connected and timed out ({}) although every datagram was forwarded: an earlier client had used the same source address", se.id, se.k, nr));
                }
                return fail(i, &format!("healthy-session-ended-{}", side), format!("session {} (slot {}) ended on the {} side ({} / {}) although every genuine datagram was forwarded and the script had not disconnected it", se.id, se.k, side, rs, nr));
            }
            let ok = if client_side {
                matches!(nr.as_str(), "ConnectionTimedOut" | "ConnectionRequestTimedOut" | "ConnectionResponseTimedOut" | "ConnectTokenExpired" | "DisconnectedByServer")
                    && matches!(rs.as_str(), "connected" | "connecting" | "Transport")
            } else {
                rs == "Transport"
            };
            if !ok {
                return fail(i, &format!("ended-not-by-timeout-{}", side), format!("session {} (slot {}) ended on the {} side with {} / {} under mere datagram interference", se.id, se.k, side, rs, nr));
            }
            // … and a timeout needs its time
            let timeout_ns = c.timeout_us as u128 * 1000;
            if client_side {
                let first = client_down.insert(s);
                if first && nr == "DisconnectedByServer" && !srv_ended.contains(&se.id) {
                    return fail(i, "client-ended-by-server-without-server-end", format!("session {} (slot {}): the client reports DisconnectedByServer, the server never reported that session disconnected", se.id, se.k));
                }
                if first && timeout_ns > 0 && matches!(nr.as_str(), "ConnectionTimedOut" | "ConnectionRequestTimedOut" | "ConnectionResponseTimedOut") {
                    if let (Some(idle), Some(el)) = (c_idle.get(&se.k), c_elapsed.get(&se.k)) {
                        if idle + el <= timeout_ns {
                            return fail(i, "ended-before-timeout-client", format!("session {} (slot {}): the client reports {} although only {} ns passed since it last heard from the server (timeout {} ns)", se.id, se.k, nr, idle + el, timeout_ns));
                        }
                    }
                }
            } else if timeout_ns > 0 && !client_down.contains(&s) {
                if let Some(idle) = s_idle_prev.get(&se.id) {
                    if idle + last_d <= timeout_ns {
                        return fail(i, "ended-before-timeout-server", format!("session {} (slot {}): the server ended it (Transport) although only {} ns had passed since it last heard from that client (timeout {} ns) and the client had not ended it", se.id, se.k, idle + last_d, timeout_ns));
                    }
                }
            }
        }
    }
    None
}

/// (g) the accessors of both transports agree with the trace: `max_clients` is what `t-new` / the last `t-setmax` said,
/// `addresses` are the configured public addresses, every client transport reports the id its token was made for and
/// the address of its own socket, and the server knows a time-since-last-packet exactly for the ids it holds an
/// address for (the `nc` list of the `t-state` right before)
fn oracle_accessors(ops: &[String], outs: &[String]) -> Option<OracleFail> {
    let mut max: Option<u64> = None;
    let mut nslots: u64 = 0;
    let mut ids: BTreeMap<usize, u64> = BTreeMap::new();
    for i in 0..ops.len().min(outs.len()) {
        let t = toks(&ops[i]);
        if t.is_empty() {
            continue;
        }
        match t[0] {
            "t-new" if t.len() >= 5 && outs[i] == "ok" => {
                let n: usize = t[1].parse().unwrap_or(0);
                max = t[2].parse().ok();
                nslots = if t.len() >= 6 { t[5].parse().unwrap_or(0) } else { n as u64 };
                ids.clear();
                for k in 0..n {
                    ids.insert(k, 100 + k as u64);
                }
            }
            "t-cnew" if t.len() == 3 && outs[i] == "ok" => {
                if let (Ok(k), Ok(id)) = (t[1].parse::<usize>(), t[2].parse::<u64>()) {
                    ids.insert(k, id);
                }
            }
            "t-setmax" if t.len() == 2 && outs[i] == "ok" => {
                max = t[1].parse::<u64>().ok().map(|n| n.min(1024));
            }
            "t-acc" => {
                let o = &outs[i];
                if !o.starts_with("acc ") {
                    continue;
                }
                let held: Option<Vec<u64>> = if i > 0 && ops[i - 1] == "t-state" { parse_state(&outs[i - 1]).map(|s| s.nc) } else { None };
                let mut seen: BTreeMap<usize, u64> = BTreeMap::new();
                for f in o.split(' ').skip(1) {
                    let Some((k, v)) = f.split_once('=') else { continue };
                    if k == "max" {
                        if v.parse::<u64>().ok() != max {
                            return fail(i, "accessor:max-clients", format!("max_clients() = {}, the trace set it to {:?}", v, max));
                        }
                    } else if k == "pub" {
                        if v != format!("{}:1", nslots) {
                            return fail(i, "accessor:addresses", format!("addresses() = {} (count:matches), {} public addresses were configured", v, nslots));
                        }
                    } else if let Some(id) = k.strip_prefix('s').and_then(|x| x.parse::<u64>().ok()) {
                        if let Some(h) = &held {
                            if (v != "-") != h.contains(&id) {
                                return fail(i, "accessor:time-since-last-packet", format!("time_since_last_received_packet({}) = {} but client_addr({}) is {}", id, v, id, if h.contains(&id) { "known" } else { "unknown" }));
                            }
                        }
                    } else if let Some(slot) = k.strip_prefix('c').and_then(|x| x.parse::<usize>().ok()) {
                        let p: Vec<&str> = v.split(':').collect();
                        if p.len() != 3 {
                            continue;
                        }
                        seen.insert(slot, p[0].parse().unwrap_or(u64::MAX));
                        if p[1] != "1" {
                            return fail(i, "accessor:client-addr", format!("the client transport of slot {} does not report the address of its own socket", slot));
                        }
                    }
                }
                if seen != ids {
                    return fail(i, "accessor:client-id", format!("client transports report ids {:?}, their tokens were made for {:?}", seen, ids));
                }
            }
            _ => {}
        }
    }
    None
}

/// (h) C11 / C20: junk from one peer never delays another one. Pattern, all consecutive ops of the trace:
/// `t-send c<k> <ch> <m>` (ok) · `t-csend <k>` (ok) · one or more `t-junk <j|x> <len>` with j != k · `t-fwdn up <k>` (ok n, n >= 1)
/// · `t-supd` · `t-ev`* · `t-state` · [`t-acc`] · `t-recvall s<id> <ch>` where the state says slot k holds id and renet
/// reports id connected: everything that reached the server socket before the update was consumed by it, so <m> is
/// among the messages obtained.
fn oracle_junk_no_delay(ops: &[String], outs: &[String]) -> Option<OracleFail> {
    let n = ops.len().min(outs.len());
    let mut i = 0;
    while i + 6 < n {
        let t = toks(&ops[i]);
        i += 1;
        if t.len() != 4 || t[0] != "t-send" || !t[1].starts_with('c') || outs[i - 1] != "ok" {
            continue;
        }
        let (k, ch, m) = (t[1][1..].to_string(), t[2].to_string(), t[3].to_string());
        let mut j = i;
        if ops[j] != format!("t-csend {}", k) || outs[j] != "ok" {
            continue;
        }
        j += 1;
        let mut junk = 0;
        while j < n {
            let u = toks(&ops[j]);
            if u.len() == 3 && u[0] == "t-junk" && u[1] != k && outs[j] == "ok" {
                junk += 1;
                j += 1;
            } else {
                break;
            }
        }
        if junk == 0 || j >= n || ops[j] != format!("t-fwdn up {}", k) {
            continue;
        }
        let forwarded = outs[j].strip_prefix("ok ").and_then(|x| x.parse::<usize>().ok()).unwrap_or(0);
        j += 1;
        if forwarded == 0 || j >= n || !ops[j].starts_with("t-supd ") || outs[j] != "ok" {
            continue;
        }
        j += 1;
        while j < n && ops[j] == "t-ev" {
            j += 1;
        }
        if j >= n || ops[j] != "t-state" {
            continue;
        }
        let Some(st) = parse_state(&outs[j]) else { continue };
        j += 1;
        if j < n && ops[j] == "t-acc" {
            j += 1;
        }
        let Some(id) = k.parse::<usize>().ok().and_then(|k| st.cl.get(&k)).map(|c| c.0) else { continue };
        if !st.rc.contains(&id) || j >= n || ops[j] != format!("t-recvall s{} {}", id, ch) {
            continue;
        }
        if !outs[j].split(' ').skip(2).any(|x| x == m) && outs[j].starts_with("msgs ") {
            return fail(
                j,
                "junk-delayed-other-client",
                format!("client slot {} (id {}) sent {} and its datagram(s) reached the server socket before the update, behind {} junk datagram(s) of other origin: the message was not there after the update (`{}`)", k, id, m, junk, if outs[j].len() > 60 { &outs[j][..60] } else { &outs[j] }),
            );
        }
    }
    None
}

/// (i) a datagram from a wrong source address is discarded by the client transport. Pattern (consecutive ops):
/// `t-recvall c<k> <ch>` · `t-send s<id> <ch> <m>` (ok) · `t-ssend` · `t-q` · `t-stray <k> <i>` (ok) · `t-cupd <k> <d>` ·
/// `t-recvall c<k> <ch>`: <m> was handed to the server application only just now and has reached the client only through
/// the stray datagram: it is not among the messages obtained.
fn oracle_stray_ignored(ops: &[String], outs: &[String]) -> Option<OracleFail> {
    let n = ops.len().min(outs.len());
    for i in 1..n {
        let t = toks(&ops[i]);
        if t.len() != 4 || t[0] != "t-send" || !t[1].starts_with('s') || outs[i] != "ok" || i + 5 >= n {
            continue;
        }
        let u = toks(&ops[i + 3]);
        if ops[i + 1] != "t-ssend" || ops[i + 2] != "t-q" || u.len() != 3 || u[0] != "t-stray" || outs[i + 3] != "ok" {
            continue;
        }
        let k = u[1];
        let recv = format!("t-recvall c{} {}", k, t[2]);
        if ops[i - 1] != recv || !ops[i + 4].starts_with(&format!("t-cupd {} ", k)) || ops[i + 5] != recv {
            continue;
        }
        if outs[i + 5].split(' ').skip(2).any(|x| x == t[3]) {
            return fail(i + 5, "stray-datagram-accepted", format!("client slot {} obtained {} although the only datagram carrying it reached its socket from an address that is not its server's", k, t[3]));
        }
    }
    None
}

/// (j) replays after the end: between `note late-replay <k>` and the next `t-state` the relay re-sends datagrams the
/// client of an ended session had sent while its session was up; the server reports no event and its state line equals
/// the one taken right before the note.
fn oracle_late_replay_quiet(ops: &[String], outs: &[String]) -> Option<OracleFail> {
    let n = ops.len().min(outs.len());
    for i in 1..n {
        if !ops[i].starts_with("note late-replay ") || ops[i - 1] != "t-state" {
            continue;
        }
        let before = &outs[i - 1];
        for j in i + 1..n {
            let t = toks(&ops[j]);
            match t[0] {
                "t-fwd" | "t-supd" => {}
                "t-ev" => {
                    if outs[j] != "none" && outs[j] != "panic" && outs[j] != "dead" {
                        return fail(j, "late-replay-event", format!("replayed datagrams of an ended session produced the server event `{}`", outs[j]));
                    }
                }
                "t-state" => {
                    if outs[j] != *before && outs[j].starts_with("st ") {
                        return fail(j, "late-replay-changed-state", format!("replayed datagrams of an ended session changed the state: `{}` -> `{}`", before, outs[j]));
                    }
                    break;
                }
                _ => break,
            }
        }
    }
    None
}

/// (k) "each … disconnect reaches the application exactly once with the right id", the REASON of a scripted end in a
/// lossless in-order trace: who decided it is what both sides report.
///   t-sdisc / t-rdiscall : server event DisconnectedByServer · client renet Transport, netcode DisconnectedByServer
///   t-sdiscall           : server event Transport            · client renet Transport, netcode DisconnectedByServer
///   t-cdisc              : server event Transport            · client renet DisconnectedByClient, netcode DisconnectedByClient
///   t-ctdisc             : server event Transport            · client renet Transport, netcode DisconnectedByClient
///   oversized reliable t-send s<id> : server event SendChannelError(..) · client Transport / DisconnectedByServer
///   oversized reliable t-send c<k>  : server event Transport · client renet SendChannelError(..), netcode DisconnectedByClient
/// Judged for sessions that were up on both sides, ended by exactly one scripted call, never starved, black-holed or silent.
fn oracle_disconnect_reasons(ops: &[String], outs: &[String]) -> Option<OracleFail> {
    let mut c = Ctx::default();
    // session -> (kind, ambiguous)
    let mut kind: HashMap<usize, (String, bool)> = HashMap::new();
    let mut was_up: HashSet<usize> = HashSet::new();
    for (i, (op, out)) in ops.iter().zip(outs.iter()).enumerate() {
        let t = toks(op);
        let had: Vec<Option<usize>> = c.sess.iter().map(|s| s.disc_op).collect();
        c.step(i, &t, out);
        if c.mode != "lossless" || c.churn {
            continue;
        }
        // which scripted call ended which session
        for (s, se) in c.sess.iter().enumerate() {
            if se.disc_op == Some(i) && had.get(s).copied().flatten().is_none() {
                let k = match t[0] {
                    "t-send" if t[1].starts_with('s') => "srv-overflow",
                    "t-send" => "cli-overflow",
                    x => x,
                };
                kind.insert(s, (k.to_string(), false));
            } else if se.disc_op.is_some() && se.disc_op != Some(i) && matches!(t[0], "t-sdisc" | "t-rdiscall" | "t-sdiscall" | "t-cdisc" | "t-ctdisc") {
                // a second scripted end that may concern this session: who was first on the wire is not decided here
                let concerns = match t[0] {
                    "t-sdisc" => t.get(1).and_then(|x| x.parse::<u64>().ok()) == Some(se.id),
                    "t-cdisc" | "t-ctdisc" => t.get(1).and_then(|x| x.parse::<usize>().ok()) == Some(se.k),
                    _ => true,
                };
                if concerns {
                    if let Some(e) = kind.get_mut(&s) {
                        e.1 = true;
                    }
                }
            }
        }
        if t[0] == "t-state" {
            if let Some(st) = parse_state(out) {
                for (s, se) in c.sess.iter().enumerate() {
                    if st.rc.contains(&se.id) && st.cl.get(&se.k).map(|x| x.0 == se.id && x.1 == "connected").unwrap_or(false) {
                        was_up.insert(s);
                    }
                }
            }
        }
        let judged = |s: usize, c: &Ctx| -> Option<String> {
            let se = &c.sess[s];
            let (k, amb) = kind.get(&s)?;
            if *amb || !was_up.contains(&s) || se.silent || se.replaced || c.holes.contains(&se.k) || !c.lossless_since(0, se.k) || !c.in_order_since(0, se.k) {
                return None;
            }
            Some(k.clone())
        };
        match t[0] {
            "t-ev" if out.starts_with("disconnected ") => {
                let e: Vec<&str> = out.splitn(3, ' ').collect();
                let Some(s) = e.get(1).and_then(|x| x.parse::<u64>().ok()).and_then(|id| c.by_id.get(&id).copied()) else { continue };
                if let Some(k) = judged(s, &c) {
                    let reason = e.get(2).copied().unwrap_or("");
                    let ok = match k.as_str() {
                        "t-sdisc" | "t-rdiscall" => reason == "DisconnectedByServer",
                        "srv-overflow" => reason.starts_with("SendChannelError("),
                        _ => reason == "Transport",
                    };
                    if !ok {
                        return fail(i, &format!("wrong-disconnect-reason:server:{}", k), format!("session {} was ended by `{}`; the server event says `{}`", c.sess[s].id, k, reason));
                    }
                }
            }
            "t-state" => {
                let Some(st) = parse_state(out) else { continue };
                for (slot, (id, rs, nr)) in st.cl.iter() {
                    let Some(s) = c.slot.get(slot).copied() else { continue };
                    if c.sess[s].id != *id || !rs.starts_with("disc:") || nr == "-" {
                        continue; // (both layers of the client have to be down: the renet status lags one update)
                    }
                    if let Some(k) = judged(s, &c) {
                        let r = rs.trim_start_matches("disc:");
                        let ok = match k.as_str() {
                            "t-sdisc" | "t-rdiscall" | "t-sdiscall" | "srv-overflow" => r == "Transport" && nr == "DisconnectedByServer",
                            "t-cdisc" => r == "DisconnectedByClient" && nr == "DisconnectedByClient",
                            "t-ctdisc" => r == "Transport" && nr == "DisconnectedByClient",
                            "cli-overflow" => r.starts_with("SendChannelError(") && nr == "DisconnectedByClient",
                            _ => true,
                        };
                        if !ok {
                            return fail(i, &format!("wrong-disconnect-reason:client:{}", k), format!("session {} was ended by `{}`; its client reports {} / {}", id, k, r, nr));
                        }
                    }
                }
            }
            _ => {}
        }
    }
    None
}

/// (l) "each connect and disconnect reaches the application exactly once with the right id", counted per session over the
/// whole event stream: the clause is evaluated whenever the application has read its events empty (`t-ev` -> `none`),
/// however rarely it does so, and says nothing about when.
///
/// A session that netcode reported as connected is recognised in two ways:
///  * listed: a `t-state` shows the id in netcode's table (`nc`); it is over once a later `t-state` no longer does;
///  * bounced: the whole session lies inside one server update, so no `t-state` ever lists it. What the trace shows
///    instead, for the FIRST client object of relay slot k (nothing older in its queues), with no `t-fwd`/`t-fwdm`/`t-junk`
///    for the slot and no other op of that client in between:
///      1. `t-cupd k d1` (ok, d1 > 0), `t-q`: up[k] = 1 (the request); flushed (`t-fwdn up k` / `t-fwdall up`); `t-supd` (ok);
///         `t-q`: down[k] = 1 (the server's answer); flushed down;
///      2. `t-cupd k d2` (ok); then `t-q`: up[k] = 2, `t-state`: c<k> = id:connecting/-, `t-acc`: the client last accepted
///         a datagram d2 ago, i.e. in this update (without one it would be d1 + d2). A connecting netcode client accepts
///         a challenge or a denial only, and a denial would show as its reason: the client took the challenge and item 1
///         is its connection response. The response is NOT flushed yet (server updates may pass);
///      3. `t-ctdisc k` (ok), or `t-cdisc k` (ok) + `t-cupd k ..` = err:Renet:DisconnectedByClient; `t-q`: up[k] = 3 (the
///         Disconnect datagram) and down[k] = x; flushed up: response and Disconnect arrive together, in this order;
///      4. `t-supd` (ok); `t-q`: down[k] > x. The server sends a pending client nothing but its answer to a response: the
///         keep-alive that completes the handshake, or a denial when the table is full — excluded, the table of `t-new`
///         has a place for every client object created so far. So `ClientConnected` was reported for id, and the
///         Disconnect datagram behind it, from the then connected address, ended that session in the same update.
/// For both kinds: at every point where the events are read empty, exactly one `connected <id>` so far; for a session that
/// is over also exactly one `disconnected <id>`, which came after the `connected`. (Ids are never re-used for a second
/// handshake in this harness, see tp-connect-once.)
fn oracle_session_events(ops: &[String], outs: &[String]) -> Option<OracleFail> {
    #[derive(Default, Clone)]
    struct B {
        id: u64,
        /// 0 fresh, 1 request sent, 2 .. counted, 3 .. flushed, 4 server updated, 5 answer counted, 6 .. flushed,
        /// 7 second client update (observations pending), 8 response queued, 9 RenetClient::disconnect called,
        /// 10 Disconnect sent, 11 .. counted, 12 response + Disconnect flushed, 13 server updated; 99 not this pattern
        stage: u8,
        d1: u64,
        d2: u64,
        seen_q: bool,
        seen_state: bool,
        seen_acc: bool,
        x: usize,
    }
    let mut slots: HashMap<usize, B> = HashMap::new();
    let mut used: HashSet<usize> = HashSet::new();
    let (mut table, mut objects) = (0usize, 0usize);
    let mut ghost = false;
    // id -> op of the evidence
    let mut up_ev: BTreeMap<u64, usize> = BTreeMap::new();
    let mut over_ev: BTreeMap<u64, usize> = BTreeMap::new();
    let mut bounced: HashSet<u64> = HashSet::new();
    let (mut nconn, mut ndisc): (HashMap<u64, usize>, HashMap<u64, usize>) = (HashMap::new(), HashMap::new());
    let n = ops.len().min(outs.len());
    for i in 0..n {
        let t = toks(&ops[i]);
        let out = outs[i].as_str();
        let slot_arg = |j: usize| t.get(j).and_then(|x| x.parse::<usize>().ok());
        match t[0] {
            "note" if t.len() == 2 && t[1] == "ghost" => ghost = true,
            "t-new" if t.len() >= 5 && out == "ok" => {
                let nc: usize = t[1].parse().unwrap_or(0);
                table = t[2].parse().unwrap_or(0);
                objects = nc;
                for k in 0..nc {
                    slots.insert(k, B { id: 100 + k as u64, ..B::default() });
                    used.insert(k);
                }
            }
            "t-cnew" if t.len() == 3 => {
                if let Some(k) = slot_arg(1) {
                    if out == "ok" {
                        objects += 1;
                    }
                    // only a slot's first client object is followed; its id comes from the op
                    let first = used.insert(k);
                    let id = t[2].parse::<u64>().ok();
                    match (first && out == "ok", id) {
                        (true, Some(id)) => {
                            slots.insert(k, B { id, ..B::default() });
                        }
                        _ => {
                            slots.remove(&k);
                        }
                    }
                }
            }
            "t-fwd" | "t-fwdm" | "t-junk" => {
                let j = if t[0] == "t-junk" { 1 } else { 2 };
                if let Some(b) = slot_arg(j).and_then(|k| slots.get_mut(&k)) {
                    b.stage = 99;
                }
            }
            "t-mark" => {
                for b in slots.values_mut() {
                    b.stage = 99;
                }
            }
            "t-csend" | "t-send" if t.len() >= 2 => {
                let k = if t[0] == "t-send" { t[1].strip_prefix('c').and_then(|x| x.parse::<usize>().ok()) } else { slot_arg(1) };
                if let Some(b) = k.and_then(|k| slots.get_mut(&k)) {
                    b.stage = 99;
                }
            }
            "t-cupd" if t.len() == 3 => {
                let d: u64 = t[2].parse().unwrap_or(0);
                if let Some(b) = slot_arg(1).and_then(|k| slots.get_mut(&k)) {
                    b.stage = match b.stage {
                        0 if out == "ok" && d > 0 => {
                            b.d1 = d;
                            1
                        }
                        6 if out == "ok" => {
                            b.d2 = d;
                            7
                        }
                        9 if out == "err:Renet:DisconnectedByClient" => 10,
                        14 => 14,
                        _ => 99,
                    };
                }
            }
            "t-cdisc" | "t-ctdisc" if t.len() == 2 => {
                if let Some(b) = slot_arg(1).and_then(|k| slots.get_mut(&k)) {
                    b.stage = match (b.stage, t[0], out) {
                        (8, "t-cdisc", "ok") => 9,
                        (8, "t-ctdisc", "ok") => 10,
                        (14, _, _) => 14,
                        _ => 99,
                    };
                }
            }
            "t-fwdn" | "t-fwdall" if out.starts_with("ok") => {
                let dir = t.get(1).and_then(|x| parse_dir(x));
                let only = if t[0] == "t-fwdn" { slot_arg(2) } else { None };
                for (k, b) in slots.iter_mut() {
                    if t[0] == "t-fwdn" && only != Some(*k) {
                        continue;
                    }
                    b.stage = match (b.stage, dir) {
                        (2, Some(UP)) => 3,
                        (5, Some(DOWN)) => 6,
                        (11, Some(UP)) => 12,
                        // a client-to-server item handed over at any other moment: not this pattern
                        (1 | 7..=10, Some(UP)) => 99,
                        (4, Some(DOWN)) => 99,
                        (s, _) => s,
                    };
                }
            }
            "t-supd" | "t-ssend" | "t-sdiscall" => {
                for b in slots.values_mut() {
                    b.stage = match (b.stage, t[0], out) {
                        (3, "t-supd", "ok") => 4,
                        (12, "t-supd", "ok") => 13,
                        // (the server may have sent something since the count of step 3 was taken: count again)
                        (11, _, _) => 10,
                        (3 | 12, _, _) => 99,
                        (s, _, _) => s,
                    };
                }
            }
            "t-q" => {
                if let Some(q) = parse_q(out) {
                    for (k, b) in slots.iter_mut() {
                        let (Some(u), Some(dn)) = (q[UP].get(*k).copied(), q[DOWN].get(*k).copied()) else { continue };
                        match b.stage {
                            1 => b.stage = if u == 1 && dn == 0 { 2 } else { 99 },
                            4 => b.stage = if u == 1 && dn == 1 { 5 } else { 99 },
                            7 => {
                                if u == 2 && dn == 1 {
                                    b.seen_q = true
                                } else {
                                    b.stage = 99
                                }
                            }
                            10 => {
                                b.stage = if u == 3 { 11 } else { 99 };
                                b.x = dn;
                            }
                            13 => {
                                if u == 3 && dn > b.x && objects <= table {
                                    b.stage = 14;
                                    bounced.insert(b.id);
                                    up_ev.entry(b.id).or_insert(i);
                                    over_ev.entry(b.id).or_insert(i);
                                } else {
                                    b.stage = 99;
                                }
                            }
                            _ => {}
                        }
                    }
                }
            }
            "t-acc" if out.starts_with("acc ") => {
                for f in out.split(' ').skip(1) {
                    let Some((key, v)) = f.split_once('=') else { continue };
                    let Some(b) = key.strip_prefix('c').and_then(|x| x.parse::<usize>().ok()).and_then(|k| slots.get_mut(&k)) else { continue };
                    if b.stage == 7 {
                        let p: Vec<&str> = v.split(':').collect();
                        let idle = p.get(2).and_then(|x| x.parse::<u128>().ok());
                        if p.len() == 3 && p[0].parse::<u64>().ok() == Some(b.id) && idle == Some(b.d2 as u128 * 1000) {
                            b.seen_acc = true;
                        } else {
                            b.stage = 99;
                        }
                    }
                }
            }
            "t-state" => {
                if let Some(st) = parse_state(out) {
                    for (k, b) in slots.iter_mut() {
                        if b.stage == 7 {
                            match st.cl.get(k) {
                                Some((id, rs, nr)) if *id == b.id && rs == "connecting" && nr == "-" && !st.nc.contains(id) => b.seen_state = true,
                                _ => b.stage = 99,
                            }
                        }
                    }
                    for id in st.nc.iter() {
                        if !bounced.contains(id) {
                            up_ev.entry(*id).or_insert(i);
                        }
                    }
                    let gone: Vec<u64> = up_ev.keys().filter(|id| !st.nc.contains(id) && !over_ev.contains_key(id)).copied().collect();
                    for id in gone {
                        over_ev.insert(id, i);
                    }
                }
            }
            "t-ev" => {
                let e: Vec<&str> = out.split(' ').collect();
                if e.len() >= 2 && e[0] == "connected" {
                    if let Ok(id) = e[1].parse::<u64>() {
                        let c = nconn.entry(id).or_insert(0);
                        *c += 1;
                        if *c > 1 && !ghost {
                            return fail(i, "session-connect-event-repeated", format!("`connected {}` reached the application {} times; the id stands for one handshake", id, c));
                        }
                    }
                } else if e.len() >= 2 && e[0] == "disconnected" {
                    if let Ok(id) = e[1].parse::<u64>() {
                        if nconn.get(&id).copied().unwrap_or(0) == 0 {
                            return fail(i, "session-disconnect-before-connect", format!("`{}` reached the application before any `connected {}`", out, id));
                        }
                        let c = ndisc.entry(id).or_insert(0);
                        *c += 1;
                        if *c > 1 && !ghost {
                            return fail(i, "session-disconnect-event-repeated", format!("`disconnected {}` reached the application {} times; the id stands for one session", id, c));
                        }
                    }
                } else if out == "none" {
                    // everything the server calls so far produced has been read
                    for (id, at) in up_ev.iter() {
                        let how = if bounced.contains(id) { "its client accepted the challenge and the server answered the response" } else { "netcode's table listed it" };
                        if nconn.get(id).copied().unwrap_or(0) == 0 {
                            return fail(i, if bounced.contains(id) { "bounced-session-without-connect-event" } else { "session-without-connect-event" }, format!("session {} completed its handshake (op {}: {}) but no `connected {}` has reached the application, whose events are read empty here", id, at, how, id));
                        }
                    }
                    for (id, at) in over_ev.iter() {
                        let how = if bounced.contains(id) { "the client's Disconnect datagram arrived in the update that connected it" } else { "netcode's table no longer lists it" };
                        if ndisc.get(id).copied().unwrap_or(0) == 0 {
                            return fail(i, if bounced.contains(id) { "bounced-session-without-disconnect-event" } else { "session-without-disconnect-event" }, format!("session {} is over (op {}: {}) but no `disconnected {}` has reached the application, whose events are read empty here", id, at, how, id));
                        }
                    }
                }
            }
            _ => {}
        }
        // step 2 is complete once all three observations are in
        for b in slots.values_mut() {
            if b.stage == 7 && b.seen_q && b.seen_state && b.seen_acc {
                b.stage = 8;
            }
        }
    }
    None
}

/// (f) nothing unwinds
fn oracle_no_panic(ops: &[String], outs: &[String]) -> Option<OracleFail> {
    for (i, o) in outs.iter().enumerate() {
        if o == "panic" {
            return fail(i, "panic", format!("op {:?} unwound", ops[i]));
        }
    }
    None
}

pub fn oracles() -> Vec<Oracle> {
    vec![
        Oracle { prop: "C20", name: "tp-lockstep", engines: &["tp-"], check: oracle_lockstep },
        Oracle { prop: "C20", name: "tp-events", engines: &["tp-"], check: oracle_events },
        Oracle { prop: "C20", name: "tp-connect-once", engines: &["tp-"], check: oracle_connect_once },
        Oracle { prop: "C20", name: "tp-propagation", engines: &["tp-"], check: oracle_propagation },
        Oracle { prop: "C20", name: "tp-channels", engines: &["tp-"], check: oracle_channels },
        Oracle { prop: "C20", name: "tp-no-spurious-end", engines: &["tp-"], check: oracle_no_spurious_end },
        Oracle { prop: "C20", name: "tp-no-panic", engines: &["tp-"], check: oracle_no_panic },
        Oracle { prop: "C20", name: "tp-stray-ignored", engines: &["tp-"], check: oracle_stray_ignored },
        Oracle { prop: "C20", name: "tp-late-replay-quiet", engines: &["tp-"], check: oracle_late_replay_quiet },
        Oracle { prop: "C20", name: "tp-disconnect-reasons", engines: &["tp-lossless"], check: oracle_disconnect_reasons },
        Oracle { prop: "C11", name: "tp-channels", engines: &["tp-lossless", "tp-rejoin", "tp-reconnect"], check: oracle_channels },
        Oracle { prop: "C03", name: "tp-channels", engines: &["tp-reconnect"], check: oracle_channels },
        Oracle { prop: "C20", name: "tp-client-status", engines: &["tp-"], check: oracle_client_status },
        Oracle { prop: "C20", name: "tp-accessors", engines: &["tp-"], check: oracle_accessors },
        Oracle { prop: "C20", name: "tp-session-events", engines: &["tp-"], check: oracle_session_events },
        Oracle { prop: "C20", name: "tp-junk-no-delay", engines: &["tp-"], check: oracle_junk_no_delay },
        Oracle { prop: "C11", name: "tp-junk-no-delay", engines: &["tp-"], check: oracle_junk_no_delay },
    ]
}
