#!/bin/sh
# usage: with_patch.sh <patch-file|-R:commit> <prop>...   — apply to /repo working tree, run checks, restore
P="$1"; shift
cd /repo || exit 2
if [ -n "$(git status --porcelain --untracked-files=no)" ]; then echo "repo dirty"; exit 2; fi
case "$P" in
  -R:*) git show "${P#-R:}" | git apply -R - || { echo "cannot revert"; exit 2; } ;;
  *) git apply "$P" || { echo "cannot apply"; exit 2; } ;;
esac
cd /verif
for prop in "$@"; do
  echo "=== $prop"
  ./check "$prop" --tier quick | grep -E "VIOLATION|KNOWN|OK property|oracle|correspondence" | cut -c1-400
done
git -C /repo checkout -- .
