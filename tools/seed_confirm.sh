#!/bin/sh
# usage: seed_confirm.sh <Cxx>   — confirms a seeded change delivered in /tmp/mut_<Cxx>/_out:
#  (1) with the patch: workspace tests pass, demo fails; (2) without: demo passes.
# Copies the deliverables to /verif/seeded/<Cxx>/ and prints a verdict line.
P="$1"; W=/tmp/mut_$P; O=$W/_out
[ -f "$O/patch.diff" ] || { echo "$P: no patch"; exit 2; }
CRATE=$(python3 - "$O/meta.json" <<'PY'
import json,sys
m=json.load(open(sys.argv[1])); s=json.dumps(m)
print('renetcode' if 'renetcode/tests' in s else ('renet_netcode' if 'renet_netcode/tests' in s else 'renet'))
PY
)
cd "$W" || exit 2
git checkout -q -- . ; rm -f $CRATE/tests/demo_test.rs
mkdir -p $CRATE/tests; cp "$O/demo_test.rs" $CRATE/tests/demo_test.rs
export CARGO_NET_OFFLINE=true
cargo test --offline -q -p $CRATE --test demo_test >/tmp/seed_$P.orig.log 2>&1; ORIG=$?
git apply "$O/patch.diff" || { echo "$P: patch does not apply"; exit 2; }
cargo test --offline -q -p $CRATE --test demo_test >/tmp/seed_$P.mut.log 2>&1; MUT=$?
rm -f $CRATE/tests/demo_test.rs
cargo test --offline -q -p renet -p renetcode -p renet_netcode >/tmp/seed_$P.suite.log 2>&1; SUITE=$?
git checkout -q -- .
mkdir -p /verif/seeded/$P; cp "$O/patch.diff" "$O/demo_test.rs" "$O/meta.json" /verif/seeded/$P/
echo "$P crate=$CRATE demo_on_original=$ORIG(0=pass) demo_on_mutant=$MUT(nonzero=fail) suite_on_mutant=$SUITE(0=pass)"
