#!/bin/sh
# usage: selftest.sh <name> <patch-file | -R:commit> <prop>...
# Applies the change to a scratch copy of /repo's HEAD (outside /repo and /verif), runs the given
# properties' quick checks against it (VERIF_REPO), removes the copy and its build output.
# VERIF_HOME=<copy of /verif> runs the checks from that copy (own Lean tree), so that self-tests do not disturb work in /verif/lean.
NAME="$1"; P="$2"; shift 2
D=/tmp/selftest_$NAME
rm -rf "/tmp/selftest_$NAME"; mkdir -p "$D"
git -C /repo archive HEAD | tar -x -C "$D" || exit 2
cp /repo/Cargo.lock "$D/" 2>/dev/null
cd "$D" && git init -q . && git add -A >/dev/null 2>&1
case "$P" in
  -R:*) git -C /repo show "${P#-R:}" | git apply -R - || { echo "cannot revert"; exit 2; } ;;
  *) git apply "$P" || { echo "cannot apply"; exit 2; } ;;
esac
cd "${VERIF_HOME:-/verif}"
for prop in "$@"; do
  echo "=== $NAME $prop"
  VERIF_REPO="$D" ./check "$prop" --tier ${TIER:-quick} | grep -E "VIOLATION|KNOWN|OK property|oracle |correspondence|proof|consts" | cut -c1-300
done
H=/tmp/verif_harness_$(printf %s "$D" | sha1sum | cut -c1-10)
if [ -z "$KEEP" ]; then rm -rf "/tmp/selftest_$NAME"; rm -rf "/tmp/verif_harness_$(printf %s "/tmp/selftest_$NAME" | sha1sum | cut -c1-10)"; fi
python3 "${VERIF_HOME:-/verif}/tools/gen_consts.py" >/dev/null
"${VERIF_HOME:-/verif}/translator/target/debug/translator" --repo /repo --out "${VERIF_HOME:-/verif}/lean/RenetVerif/Generated/Src.lean" >/dev/null 2>&1
