#!/bin/sh
# regenerate the fixed-script op counts in nc_profiles.rs
cd /verif/harness && cargo build --offline 2>&1 | grep -E "^error" -A6
rm -f /tmp/fixed_counts.txt
for p in C10 C04 C17 C05 C07; do NC_FIXED_COUNTS=1 ./target/debug/harness run --props $p --tier quick --seed 1 --out /tmp/a.json --replay-dir /tmp/a_rr --driver none --profiles nc-regress,nc-known,nc-table-full,nc-pending-full,nc-entry-cursor,nc-seq-wrap,nc-prefix-sweep 2>&1 | grep FIXED-COUNT; done | sort -u -k2,2 -k3,3n > /tmp/fixed_counts.txt
python3 - <<'PY'
import re
counts={}
for l in open('/tmp/fixed_counts.txt'):
    _,tag,case,n=l.split(); counts[(tag,int(case))]=int(n)
n=max(c for (t,c) in counts if t=='regress')+1
reg=[counts[('regress',i)] for i in range(n)]
p='/verif/harness/src/nc_profiles.rs'
s=open(p).read()
s=re.sub(r"const REGRESS: &\[usize\] = &\[\n.*?\n    \];", "const REGRESS: &[usize] = &[\n        "+", ".join(map(str,reg))+",\n    ];", s, flags=re.S)
for tag in ["known","table-full","pending-full","entry-cursor","seq-wrap","prefix-sweep"]:
    s=re.sub(r'"%s" => Some\(\d+\),'%tag, '"%s" => Some(%d),'%(tag,counts[(tag,0)]), s)
open(p,'w').write(s)
print(len(reg), reg[-10:], {k:v for k,v in counts.items() if k[0]!='regress'})
PY
cargo build --offline 2>&1 | grep -E "^error|Finished" -A6 | head
