#!/usr/bin/env python3
"""usage: register.py <module-short-name> "<sentence appended to level_text>" <prop>...
Adds RenetVerif.Props.<module> to the given properties' module lists in props.json, appends the sentence to their level text,
then regenerates MANIFEST.json, lean/RenetVerif.lean and DESIGN.md §13."""
import json, subprocess, sys
mod, text, props = sys.argv[1], sys.argv[2], sys.argv[3:]
P = json.load(open('/verif/props.json'))
for p in props:
    m = 'RenetVerif.Props.' + mod
    if m not in P[p]['modules']:
        P[p]['modules'].append(m)
        P[p]['level_text'] = P[p]['level_text'].rstrip() + ' ' + text.strip()
json.dump(P, open('/verif/props.json', 'w'), indent=1)
subprocess.check_call(['python3', '/verif/tools/gen_manifest.py'])
subprocess.call(['python3', '/verif/tools/gen_design13.py'])
