#!/bin/sh
# Measures which lines of /repo's crates the correspondence harness reaches (quick tier, all profiles, no model):
# a generator-quality measurement, not a check. Needs the nightly toolchain's llvm-tools (installed in this sandbox).
# Scratch build under /tmp/verif_cov, removed afterwards. Prints per-file line coverage and the uncovered lines.
set -e
B=$(ls -d $HOME/.rustup/toolchains/nightly-x86_64-unknown-linux-gnu/lib/rustlib/*/bin | head -1)
D=/tmp/verif_cov; rm -rf $D; mkdir -p $D; cp -r /verif/harness $D/h; rm -rf $D/h/target
cd $D/h
RUSTFLAGS="-C instrument-coverage" CARGO_NET_OFFLINE=true cargo +nightly build --offline 2>&1 | tail -1
LLVM_PROFILE_FILE="$D/h-%p-%m.profraw" ./target/debug/harness run --tier ${TIER:-quick} --seed ${VERIF_SEED:-1} --driver none --out $D/o.json --replay-dir $D/rr >/dev/null 2>&1
$B/llvm-profdata merge -sparse $D/*.profraw -o $D/all.profdata
$B/llvm-cov report ./target/debug/harness -instr-profile=$D/all.profdata --ignore-filename-regex='(registry|rustc|verif_cov)' 2>/dev/null | grep -E "repo/|^TOTAL|Filename"
if [ -n "$1" ]; then
  for f in "$@"; do echo "=== uncovered lines of $f"; $B/llvm-cov show ./target/debug/harness -instr-profile=$D/all.profdata /repo/$f --show-line-counts-or-regions 2>/dev/null | awk -F'|' '$2 ~ /^ *0$/ {print $1"|"$3}' | cut -c1-150; done
fi
cd /; rm -rf $D
