#!/usr/bin/env python3
"""usage: gen_seedprompts.py <suffix> <scope: renet|netcode|any> <prop>...
Writes /tmp/seedprompts/<prop><suffix>.txt for fresh seeding sub-agents (they get ONLY the property text and a scratch
worktree /tmp/mut_<prop><suffix>; nothing from /verif). Previously tried mechanisms (seeded/*/meta.json summaries) are listed
as excluded so that each round explores a different code site."""
import json, sys, os, glob
suffix, scope, props = sys.argv[1], sys.argv[2], sys.argv[3:]
P = {json.loads(l)['id']: json.loads(l) for l in open('/verif/properties.jsonl')}
os.makedirs('/tmp/seedprompts', exist_ok=True)
SCOPE = {
 'renet': "For this round, put the change in crate `renet` (remote_connection.rs, server.rs, packet.rs, channel/*.rs) — NOT in renetcode or renet_netcode.",
 'netcode': "For this round, put the change in crate `renetcode` (server.rs, client.rs, packet.rs, token.rs, crypto.rs, lib.rs) or in the transport glue `renet_netcode` — NOT in crate `renet`.",
 'any': "The change may be in any of the three crates.",
}[scope]
for pid in props:
    p = P[pid]; w = f"/tmp/mut_{pid}{suffix}"
    tried = []
    for d in sorted(glob.glob(f'/verif/seeded/{pid}*/meta.json')):
        try: tried.append(json.load(open(d)).get('summary', '')[:260])
        except Exception: pass
    tried_txt = ' '.join(f"({i+1}) {t}" for i, t in enumerate(tried))
    txt = f"""You are a mutation author for a verification study. You get ONE semantic property of the Rust library renet (Sans-IO game networking: reliable/unreliable channels with fragmentation and acks over UDP in crate `renet`, netcode.io-style encrypted handshake in crate `renetcode`, UDP transport glue in `renet_netcode`) and your own scratch git worktree of the repository at {w} (work ONLY there; never touch /repo or /verif; no network: always pass `--offline` and set CARGO_NET_OFFLINE=true).

THE PROPERTY
ID: {pid}
TITLE: {p['title']}
STATEMENT: {p['statement']}
QUANTIFIER: {json.dumps(p['quantifier'])}
ANCHORS: {json.dumps(p['anchors'])}


YOUR TASK
Write ONE small, realistic source change (the kind of thing a maintainer could plausibly commit as an optimisation, refactoring, hardening or "simplification") that BREAKS this property while
  1. the workspace still compiles, and
  2. the existing test suite still passes: `cd {w} && CARGO_NET_OFFLINE=true cargo test --offline -p renet -p renetcode -p renet_netcode` (all tests green with your change),
and write a demonstration: a NEW integration test file using only public API that FAILS with your change and PASSES on the original tree. Prefer a change that needs something SPECIFIC to manifest — a particular size, ordering, timing, counter value, table occupancy, loss pattern, configuration asymmetry, a second/third occurrence of an event, an interaction of two features — so that random short schedules and the obvious boundary values do not trip over it; it must nevertheless be a genuine violation of the property as worded (not merely a behaviour difference), reachable through the public API by a legitimate (or, where the property quantifies over attackers, hostile) peer.

Changes of these kinds were already tried for this property and are NOT wanted again (find a different mechanism and a different code site): {tried_txt} {SCOPE}
Also not wanted: changes to constants only, changes under `#[cfg(test)]`, changes to the verif-feature hooks (`feature = "verif"` code), changes to tests, changes that make the code panic in the common path.

DELIVERABLES (put them in {w}/_out/):
  - patch.diff   : `git diff` of your source change only (must apply with `git apply` on the original tree; do NOT include the demo test in it)
  - demo_test.rs : the demonstration test (say in meta.json which crate's tests/ directory it belongs in, e.g. renet/tests/demo_test.rs)
  - meta.json    : {{"property": "{pid}", "summary": "<what the change does and why it breaks the property>", "needs": "<what specific circumstances make it manifest>", "crate_and_test_path": "<crate>: <path of demo test>", "commands": ["<commands that show FAIL with patch>", "<PASS without>", "<existing suite passes with patch>"]}}
Before finishing: verify all three facts yourself (demo fails with patch, demo passes on the original via `git apply -R`, existing suite passes with patch), leave the worktree with the patch applied and the demo test in place, and report the summary in your final message.
"""
    open(f'/tmp/seedprompts/{pid}{suffix}.txt', 'w').write(txt)
    print(pid + suffix, len(tried), 'excluded')
