#!/usr/bin/env python3
"""Re-extract from the Rust sources every constant the Lean model and theorems depend on and
write RenetVerif/Generated/Consts.lean (only when the content changes, so lake stays incremental).
A pattern that no longer matches is an error: the tie between model and code is broken."""
import re, sys, os

REPO = os.environ.get("VERIF_REPO", "/repo")
OUT = os.environ.get("VERIF_HOME", "/verif") + "/lean/RenetVerif/Generated/Consts.lean"

def src(p):
    return open(os.path.join(REPO, p)).read()

def num(text):
    text = text.replace("_", "").strip()
    return int(eval(text, {"__builtins__": {}}, {}))

def resolve(token, path):
    """a literal, or the name of a `const NAME: T = <literal>;` in the same file / the crate's lib.rs"""
    token = token.strip()
    if re.fullmatch(r"[0-9_]+", token):
        return num(token)
    if re.fullmatch(r"[A-Z][A-Z0-9_]*", token):
        crate = path.split("/")[0]
        for f in (path, crate + "/src/lib.rs"):
            try:
                m = re.search(r"const\s+" + token + r"\s*:\s*\w+\s*=\s*([0-9_]+)\s*;", src(f))
            except OSError:
                continue
            if m:
                return num(m.group(1))
    raise ValueError(f"cannot resolve {token!r}")

SPECS = [
    # name, file, regex (group 1 = Rust integer expression), note
    ("SLICE_SIZE", "renet/src/packet.rs", r"pub const SLICE_SIZE: usize = ([0-9_]+);"),
    ("SER_BUFFER", "renet/src/remote_connection.rs", r"let mut \w+ = \[0u8; ([0-9_]+|[A-Z][A-Z0-9_]*)\];"),
    ("ACK_RANGE_CAP", "renet/src/remote_connection.rs", r"if self\.pending_acks\.len\(\) > ([0-9_]+|[A-Z][A-Z0-9_]*) \{"),
    ("MAX_NUM_SLICES", "renet/src/packet.rs", r"num_slices > ([0-9_]+|[A-Z][A-Z0-9_]*) \{"),
    ("DISCARD_AFTER_NS", "renet/src/remote_connection.rs", r"const DISCARD_AFTER: Duration = Duration::from_secs\(([0-9_]+)\);", 10**9),
    ("DISCARD_FRAGMENT_AFTER_NS", "renet/src/channel/unreliable.rs", r"const DISCARD_AFTER: Duration = Duration::from_secs\(([0-9_]+)\);", 10**9),
    ("NETCODE_MAX_CLIENTS", "renetcode/src/lib.rs", r"const NETCODE_MAX_CLIENTS: usize = ([0-9_]+);"),
    ("NETCODE_MAX_PENDING_FACTOR", "renetcode/src/lib.rs", r"const NETCODE_MAX_PENDING_CLIENTS: usize = NETCODE_MAX_CLIENTS \* ([0-9_]+);"),
    ("NETCODE_MAX_PACKET_BYTES", "renetcode/src/lib.rs", r"pub const NETCODE_MAX_PACKET_BYTES: usize = ([0-9_]+);"),
    ("NETCODE_MAX_PAYLOAD_BYTES", "renetcode/src/lib.rs", r"pub const NETCODE_MAX_PAYLOAD_BYTES: usize = ([0-9_]+);"),
    ("NETCODE_KEY_BYTES", "renetcode/src/lib.rs", r"pub const NETCODE_KEY_BYTES: usize = ([0-9_]+);"),
    ("NETCODE_MAC_BYTES", "renetcode/src/lib.rs", r"const NETCODE_MAC_BYTES: usize = ([0-9_]+);"),
    ("NETCODE_USER_DATA_BYTES", "renetcode/src/lib.rs", r"pub const NETCODE_USER_DATA_BYTES: usize = ([0-9_]+);"),
    ("NETCODE_CHALLENGE_TOKEN_BYTES", "renetcode/src/lib.rs", r"const NETCODE_CHALLENGE_TOKEN_BYTES: usize = ([0-9_]+);"),
    ("NETCODE_CONNECT_TOKEN_XNONCE_BYTES", "renetcode/src/lib.rs", r"const NETCODE_CONNECT_TOKEN_XNONCE_BYTES: usize = ([0-9_]+);"),
    ("NETCODE_CONNECT_TOKEN_PRIVATE_BYTES", "renetcode/src/lib.rs", r"const NETCODE_CONNECT_TOKEN_PRIVATE_BYTES: usize = ([0-9_]+);"),
    ("NETCODE_SEND_RATE_NS", "renetcode/src/lib.rs", r"const NETCODE_SEND_RATE: Duration = Duration::from_millis\(([0-9_]+)\);", 10**6),
    ("NETCODE_REPLAY_BUFFER_SIZE", "renetcode/src/replay_protection.rs", r"const NETCODE_REPLAY_BUFFER_SIZE: usize = ([0-9_]+);"),
    ("NETCODE_ADDRESS_NONE", "renetcode/src/lib.rs", r"const NETCODE_ADDRESS_NONE: u8 = ([0-9_]+);"),
    ("NETCODE_ADDRESS_IPV4", "renetcode/src/lib.rs", r"const NETCODE_ADDRESS_IPV4: u8 = ([0-9_]+);"),
    ("NETCODE_ADDRESS_IPV6", "renetcode/src/lib.rs", r"const NETCODE_ADDRESS_IPV6: u8 = ([0-9_]+);"),
    ("NETCODE_TOKEN_MAX_ADDRESSES", "renetcode/src/token.rs", r"pub server_addresses: \[Option<SocketAddr>; ([0-9_]+)\],"),
    ("NETCODE_GLOBAL_SEQUENCE_START_SHIFT", "renetcode/src/server.rs", r"global_sequence: 1 << ([0-9_]+),"),
    ("TRANSPORT_SERVER_BUFFER", "renet_netcode/src/server.rs", r"buffer(?:: \w+)?\s*[:=]\s*(?:vec!)?\[0(?:u8)?; ([A-Za-z_0-9]+)\]", "sym"),
    ("TRANSPORT_CLIENT_BUFFER", "renet_netcode/src/client.rs", r"buffer(?:: \w+)?\s*[:=]\s*(?:vec!)?\[0(?:u8)?; ([A-Za-z_0-9]+)\]", "sym"),
]

def main():
    vals = {}
    errors = []
    for spec in SPECS:
        name, path, rx = spec[0], spec[1], spec[2]
        mult = spec[3] if len(spec) > 3 else 1
        try:
            text = src(path)
        except OSError as e:
            errors.append(f"{name}: cannot read {path}: {e}")
            continue
        m = re.findall(rx, text)
        if len(m) < 1:
            errors.append(f"{name}: pattern not found in {path}: {rx}")
            continue
        if len(set(m)) != 1:
            errors.append(f"{name}: pattern matches different values in {path}: {m}")
            continue
        if mult == "sym":
            vals[name] = int(m[0].replace("_", "")) if re.fullmatch(r"[0-9_]+", m[0]) else vals.get(m[0])
            if vals[name] is None:
                errors.append(f"{name}: symbolic value {m[0]} unknown")
        else:
            try:
                vals[name] = resolve(m[0], path) * mult
            except ValueError as e:
                errors.append(f"{name}: {e}")
    if errors:
        for e in errors:
            print("CONST-ERROR " + e)
        return 1
    lines = ["-- GENERATED by /verif/tools/gen_consts.py from the Rust sources under /repo — do not edit",
             "namespace RenetVerif.C"]
    for k, v in vals.items():
        lines.append(f"def {k} : Nat := {v}")
    lines.append("end RenetVerif.C")
    text = "\n".join(lines) + "\n"
    old = open(OUT).read() if os.path.exists(OUT) else ""
    if old != text:
        open(OUT, "w").write(text)
        print("consts: updated")
    if "--print" in sys.argv:
        import json
        print(json.dumps(vals))
    return 0

if __name__ == "__main__":
    sys.exit(main())
