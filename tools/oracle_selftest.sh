#!/bin/sh
# usage: oracle_selftest.sh <name> <patch-file | -s:'sed-expr':file> <prop>...
# Sanity check of the IMPLEMENTATION ORACLES only: applies the change to a scratch copy of /repo's HEAD, builds the harness
# against it (own target dir), runs the given properties' profiles WITHOUT the model (--driver none) and prints the oracle
# failures. Never touches /verif/lean (safe to run while other checks or agents use the Lean tree), never touches /repo.
NAME="$1"; P="$2"; shift 2
D=/tmp/otest_$NAME; H=/tmp/otest_${NAME}_h
rm -rf "$D" "$H"; mkdir -p "$D" "$H/.cargo"
git -C /repo archive HEAD | tar -x -C "$D" || exit 2
cp /repo/Cargo.lock "$D/" 2>/dev/null
case "$P" in
  -s:*) X="${P#-s:}"; F="${X##*:}"; E="${X%:*}"; sed -i "$E" "$D/$F" || exit 2; (cd "$D" && git init -q . 2>/dev/null; true) ;;
  none) ;;
  *) (cd "$D" && git init -q . && git apply "$P") || { echo "cannot apply"; rm -rf "$D" "$H"; exit 2; } ;;
esac
sed "s#\"/repo/#\"$D/#g" /verif/harness/Cargo.toml > "$H/Cargo.toml"
cp /verif/harness/Cargo.lock "$H/"; cp /verif/harness/.cargo/config.toml "$H/.cargo/"
ln -s /verif/harness/src "$H/src"
(cd "$H" && CARGO_NET_OFFLINE=true cargo build --offline --quiet 2>&1 | grep -E "^error" -A5 | head -20)
for prop in "$@"; do
  echo "=== $NAME $prop (oracles only)"
  "$H/target/debug/harness" run --props "$prop" --tier ${TIER:-quick} --seed ${VERIF_SEED:-1} --driver none --out "$H/o.json" --replay-dir "$H/rr" >/dev/null 2>&1
  python3 - "$H/o.json" <<'PY'
import json,sys
try: r=json.load(open(sys.argv[1]))
except Exception as e: print("  no result:",e); sys.exit()
fs=r.get("oracle_failures") or r.get("failures") or []
n=0
def walk(x):
    global n
    if isinstance(x,dict):
        if "oracle" in x and ("what" in x or "message" in x or "signature" in x):
            n+=1
            if n<=6: print("  oracle",x.get("oracle"),"fails:",str(x.get("what") or x.get("message") or x.get("signature"))[:260])
        for v in x.values(): walk(v)
    elif isinstance(x,list):
        for v in x: walk(v)
walk(r)
print(f"  {n} oracle failure(s)")
PY
done
rm -rf "$D" "$H"
