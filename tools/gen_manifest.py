#!/usr/bin/env python3
"""Regenerate MANIFEST.json from props.json (claimed checks) + the fixed property list."""
import json
V = "/verif"
props = json.load(open(f"{V}/props.json"))
allp = [json.loads(l) for l in open(f"{V}/properties.jsonl")]
checks = []
for p in allp:
    pid = p["id"]
    if pid not in props:
        continue
    c = props[pid]
    checks.append({
        "property_id": pid,
        "quick_cmd": f"./check {pid} --tier quick",
        "thorough_cmd": f"./check {pid} --tier thorough",
        "evidence_file": f"/verif/evidence/{pid}.json",
        "replay_cmd_template": f"./check {pid} --replay {{path}}",
        "engine": c.get("engine", "lean-proof+correspondence"),
        "level_claimed": {
            "category": "proof",
            "text": c["level_text"],
            "design_ref": c.get("design_ref", "DESIGN.md §7 " + pid),
        },
        "level_note": c["level_note"],
        "technique": c.get("technique", "Lean 4 theorems over an executable model; model tied to the Rust code by a differential correspondence harness"),
    })
na = [{"property_id": p["id"], "reason": "not claimed yet in this round: model/proof for this property is still being built (see DESIGN.md §11 order of work)"} for p in allp if p["id"] not in props]
man = {
    "version": 1,
    "setup_cmd": "cd /verif && ./setup.sh",
    "hooks": {
        "guard": "cargo feature `verif` on the renet and renetcode crates",
        "enable": "the harness crate depends on renet/renetcode by path with features=[\"verif\"] (cd /verif/harness && cargo build --offline)",
        "baseline_off_cmd": "cd /repo && cargo test --workspace --no-fail-fast --offline",
        "source_commits": json.load(open(f"{V}/hooks.json")),
        "add_only": True,
    },
    "engines": [
        {"name": "lean-model", "path": "/verif/lean", "serves_properties": sorted(props.keys()), "kind_free_text": "Lean 4 executable model + theorems (lake project RenetVerif), driver executable speaking the line protocol"},
        {"name": "harness", "path": "/verif/harness", "serves_properties": sorted(props.keys()), "kind_free_text": "Rust correspondence harness: runs the real crates in-process, pipes the same op lines to the Lean driver, diffs, evaluates property oracles, shrinks"},
    ],
    "checks": checks,
    "not_applicable": na,
    "notes": "All claimed checks: ./check <id> [--tier quick|thorough] [--replay file]; VERIF_SEED seeds every random choice. known findings: /verif/known_findings.json.",
}
json.dump(man, open(f"{V}/MANIFEST.json", "w"), indent=1)
print("manifest:", len(checks), "checks,", len(na), "not claimed")
