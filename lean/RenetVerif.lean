-- This module serves as the root of the `RenetVerif` library.
-- Import modules here that should be built as part of the library.
import RenetVerif.Basic
