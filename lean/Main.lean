import RenetVerif.Renet.Driver
import RenetVerif.Netcode.Driver
import RenetVerif.Transport.Driver
open RenetVerif

/-- one world per engine; an op is offered to each engine's `step` in turn -/
structure World where
  r : RDriver.RWorld := {}
  n : Netcode.Driver.NWorld := {}
  t : Transport.Driver.TWorld := {}

def stepLine (w : World) (line : String) : World × String :=
  let toks := (line.trimAscii.toString.splitOn " ").filter (· ≠ "")
  match toks with
  | "case" :: _ => ({}, "ok")
  | ["end"] => ({}, "ok")
  | _ =>
    if w.r.dead || w.n.dead || w.t.dead then (w, "dead") else
    match RDriver.step w.r toks with
    | some (r', out) => ({ w with r := r' }, out)
    | none =>
      match Netcode.Driver.step w.n toks with
      | some (n', out) => ({ w with n := n' }, out)
      | none =>
        match Transport.Driver.step w.t toks with
        | some (t', out) => ({ w with t := t' }, out)
        | none => (w, "bad-op")

partial def loop (h : IO.FS.Stream) (out : IO.FS.Stream) (w : World) : IO Unit := do
  let line ← h.getLine
  if line.isEmpty then return ()
  let (w', o) := stepLine w line
  out.putStrLn o
  loop h out w'

def main : IO Unit := do
  let stdin ← IO.getStdin
  let stdout ← IO.getStdout
  loop stdin stdout {}
  stdout.flush
