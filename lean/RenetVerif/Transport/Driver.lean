/-
  Line-protocol driver of engine E5 (full stack: netcode transport glue + renet), the model side of
  harness/src/tp.rs.  Same op lines, same output lines.

  The model world has virtual addresses (front_k = 10.0.0.1:1000+k, back_k = 10.0.0.2:2000+k, the server
  socket 10.0.0.3:9000, the n-th client socket 10.0.0.4:3000+n), deterministic keys and the toy AEAD; no
  datagram byte, key or address ever appears in an output.  A socket is a FIFO of `(source, bytes)`; the
  relay of tp.rs is modelled literally: what a client sends to front_k is appended to `up k`, what the
  server sends to back_k to `down k`; forwarding item i of `up k` appends `(back_k, bytes)` to the server
  socket, forwarding item i of `down k` appends `(front_k, bytes)` to the socket of slot k's client.
-/
import RenetVerif.Transport.Glue
import RenetVerif.Transport.ToyAead
import RenetVerif.Netcode.Driver
import RenetVerif.Renet.Driver
namespace RenetVerif.Transport.Driver
open RenetVerif RenetVerif.Netcode RenetVerif.Transport

def aead : AEAD := toyAead

def PROTOCOL_ID : Nat := 7

structure Cl where
  id : Nat
  g : ClientGlue
  addr : Addr
  inbox : Array Dgram

structure Slot where
  front : Addr
  back : Addr
  up : Array Bytes := #[]
  down : Array Bytes := #[]
  upF : Array Bool := #[]
  downF : Array Bool := #[]
  client : Option Cl := none

structure TW where
  g : ServerGlue
  serverAddr : Addr
  inbox : Array Dgram := #[]
  serverTime : Nat := 0
  key : Bytes
  timeoutS : Int
  expireS : Nat
  slots : Array Slot
  ids : List Nat := []
  evq : List String := []
  /-- number of client sockets / tokens made so far -/
  made : Nat := 0
  /-- memory of every channel (default 5 MiB) -/
  chanMem : Nat := 5 * 1024 * 1024

structure TWorld where
  w : Option TW := none
  dead : Bool := false

/-! ### constants of the model world -/
def frontAddr (k : Nat) : Addr := .v4 [10, 0, 0, 1] (1000 + k)
def backAddr (k : Nat) : Addr := .v4 [10, 0, 0, 2] (2000 + k)
def serverSock : Addr := .v4 [10, 0, 0, 3] 9000
def clientSock (n : Nat) : Addr := .v4 [10, 0, 0, 4] (3000 + n)

def pattern (n mul add : Nat) : Bytes := (List.range n).map fun i => UInt8.ofNat ((i * mul + add) % 256)

def privateKey : Bytes := pattern 32 37 11
def challengeKey : Bytes := pattern 32 5 1

/-- tp.rs `user_data_for` -/
def userDataFor (id : Nat) : Bytes := leBytes id 8 ++ (List.range 248).map fun i => UInt8.ofNat (((i + 8) * 3 + id) % 256)

def defaultChannels : List ChanCfg :=
  [ { id := 0, kind := .unreliable, maxMem := 5 * 1024 * 1024, resend := 0 },
    { id := 1, kind := .unordered, maxMem := 5 * 1024 * 1024, resend := 300000000 },
    { id := 2, kind := .ordered, maxMem := 5 * 1024 * 1024, resend := 300000000 } ]

/-- `RenetServer::new(ConnectionConfig::default())` -/
def defaultServer : Server := Server.new 60000 defaultChannels defaultChannels

/-- `ConnectionConfig::default()` with every channel's `max_memory_usage_bytes` set to `mem` (`t-new … <nslots> <chanmem>`) -/
def serverFor (mem : Nat) : Server :=
  let chans := defaultChannels.map fun c => { c with maxMem := mem }
  Server.new 60000 chans chans

/-! ### parsing (the `num!` macro of tp.rs: decimal digits, range of the Rust type) -/
def pNat (s : String) (bound : Nat) : Option Nat :=
  if s.isEmpty ∨ !s.all Char.isDigit then none else
  match s.toNat? with
  | some n => if n < bound then some n else none
  | none => none

def pU64 (s : String) : Option Nat := pNat s (2 ^ 64)
def pU8 (s : String) : Option Nat := pNat s 256
def pI32 := Netcode.Driver.pI32

inductive Who where
  | c (k : Nat)
  | s (id : Nat)

def pWho (s : String) : Option Who :=
  if s.startsWith "c" then (pU64 (s.drop 1).toString).map Who.c
  else if s.startsWith "s" then (pU64 (s.drop 1).toString).map Who.s
  else none

/-- `up` = 0, `down` = 1 -/
def pDir (s : String) : Option Bool :=
  if s = "up" then some false else if s = "down" then some true else none

/-- tp.rs `mutate` -/
def mutate (b : Bytes) (m : String) : Option Bytes :=
  match m.splitOn ":" with
  | ["flip", bit] => do
    let bit ← pU64 bit
    if b.isEmpty then pure b else
    let bit := bit % (b.length * 8)
    let i := bit / 8
    match b[i]? with
    | some x => pure (b.set i (x ^^^ (UInt8.ofNat (2 ^ (bit % 8)))))
    | none => pure b
  | ["trunc", n] => do
    let n ← pU64 n
    pure (b.take n)
  | _ => none

/-! ### world plumbing -/
def idsStr (l : List Nat) : String := "[" ++ ",".intercalate (l.map toString) ++ "]"

def sortNat (l : List Nat) : List Nat := l.mergeSort (· ≤ ·)

def setSlot (tw : TW) (k : Nat) (s : Slot) : TW := { tw with slots := tw.slots.set! k s }

/-- what the client of a slot sent: datagrams addressed to a front socket land in that slot's up queue -/
def routeUp (tw : TW) (out : Array Dgram) : TW :=
  out.foldl (fun tw (d : Dgram) =>
    match tw.slots.findIdx? (fun s => s.front = d.1) with
    | some j =>
      match tw.slots[j]? with
      | some s => setSlot tw j { s with up := s.up.push d.2, upF := s.upF.push false }
      | none => tw
    | none => tw) tw

/-- what the server sent: datagrams addressed to a back socket land in that slot's down queue -/
def routeDown (tw : TW) (out : Array Dgram) : TW :=
  out.foldl (fun tw (d : Dgram) =>
    match tw.slots.findIdx? (fun s => s.back = d.1) with
    | some j =>
      match tw.slots[j]? with
      | some s => setSlot tw j { s with down := s.down.push d.2, downF := s.downF.push false }
      | none => tw
    | none => tw) tw

/-- tp.rs `collect_events`: the maximal trailing run of `disconnected` events whose reason is not
    `Transport` is sorted by id -/
def collectEvents (tw : TW) : TW :=
  let evs := tw.g.renet.events
  let isTail : Event → Bool
    | .disconnected _ r => r ≠ .transport
    | .connected _ => false
  let tail := (evs.reverse.takeWhile isTail).reverse
  let head := evs.take (evs.length - tail.length)
  let key : Event → Nat
    | .disconnected id _ => id
    | .connected id => id
  let tail := tail.mergeSort (fun a b => key a ≤ key b)
  let strs := (head ++ tail).map fun e => RDriver.eventStr (some e)
  { tw with g := { tw.g with renet := { tw.g.renet with events := [] } }, evq := tw.evq ++ strs }

/-- tp.rs `make_client` -/
def makeClient (tw : TW) (k : Nat) (id : Nat) : Res Empty (Option TW) :=
  match tw.slots[k]? with
  | none => pure none
  | some slot =>
    let n := tw.made
    let c2s := pattern 32 7 (id * 13 + n * 29 + 1)
    let s2c := pattern 32 11 (id * 17 + n * 31 + 2)
    let xnonce := pattern 24 3 (id + n * 7)
    match ConnectToken.generate aead tw.serverTime PROTOCOL_ID tw.expireS id tw.timeoutS [slot.front] (userDataFor id)
            c2s s2c xnonce tw.key with
    | .panic m => .panic m
    | .err _ => pure none
    | .ok token =>
      match NetcodeClient.new tw.serverTime token with
      | .panic m => .panic m
      | .err _ => pure none
      | .ok nc =>
        let cl : Cl := { id, g := { netcode := nc, renet := (serverFor tw.chanMem).newClient }, addr := clientSock n, inbox := #[] }
        let tw := setSlot tw k { slot with client := some cl }
        pure (some { tw with made := n + 1, ids := if tw.ids.contains id then tw.ids else tw.ids ++ [id] })

/-- tp.rs `Inner::forward`; `dir` = down? -/
def forward (tw : TW) (dir : Bool) (k i : Nat) (m : Option String) : TW × String :=
  match tw.slots[k]? with
  | none => (tw, "bad-op")
  | some s =>
    match (if dir then s.down else s.up)[i]? with
    | none => (tw, "err:noitem")
    | some data =>
      let data? := match m with
        | none => some data
        | some m => mutate data m
      match data? with
      | none => (tw, "bad-op")
      | some data =>
        if !dir then
          let s := if m.isNone then { s with upF := s.upF.set! i true } else s
          (setSlot { tw with inbox := tw.inbox.push (s.back, data) } k s, "ok")
        else
          match s.client with
          | none => (tw, "err:noclient")
          | some c =>
            let s := { s with client := some { c with inbox := c.inbox.push (s.front, data) } }
            let s := if m.isNone then { s with downF := s.downF.set! i true } else s
            (setSlot tw k s, "ok")

/-- tp.rs `forward_new` -/
def forwardNew (tw : TW) (dir : Bool) (k : Nat) : TW × Nat :=
  match tw.slots[k]? with
  | none => (tw, 0)
  | some s =>
    let flags := if dir then s.downF else s.upF
    let todo := (List.range flags.size).filter fun i => !(flags[i]?.getD true)
    todo.foldl (fun (acc : TW × Nat) i =>
      let (tw, n) := acc
      let (tw', r) := forward tw dir k i none
      if r = "ok" then (tw', n + 1) else
      match tw.slots[k]? with
      | some s =>
        let s := if dir then { s with downF := s.downF.set! i true } else { s with upF := s.upF.set! i true }
        (setSlot tw k s, n)
      | none => (tw, n)) (tw, 0)

def statusStr (c : Conn) : String :=
  match c.status with
  | .connected => "connected"
  | .connecting => "connecting"
  | .disconnected r => "disc:" ++ r.name

def stateStr (tw : TW) : String :=
  let rc := sortNat tw.g.renet.clientsId
  let rd := sortNat tw.g.renet.disconnectionsId
  let ids := sortNat tw.ids
  let nc := ids.filter fun id => (tw.g.netcode.clientAddr id).isSome
  let bad := nc.filter fun id =>
    let addrOk := match tw.g.netcode.clientAddr id with
      | some a => tw.slots.any fun s => s.back = a
      | none => false
    let udOk := tw.g.netcode.userData id = some (userDataFor id)
    !addrOk || !udOk
  let head := s!"st rc={idsStr rc} rd={idsStr rd} nn={tw.g.netcode.connectedClients} nc={idsStr nc} bad={idsStr bad}"
  let cls := (List.range tw.slots.size).filterMap fun k =>
    match tw.slots[k]? with
    | some s => s.client.map fun c =>
        let nr := match c.g.netcode.disconnectReason with
          | none => "-"
          | some r => r.name
        s!" c{k}={c.id}:{statusStr c.g.renet}/{nr}"
    | none => none
  head ++ String.join cls

def resultStr : Except TransportError Unit → String
  | .ok _ => "ok"
  | .error e => "err:" ++ e.name

/-! ### ops -/
def die (w : TWorld) : TWorld × String := ({ w with dead := true }, "panic")

/-- run `f` on the world of a started case; a model panic kills the case -/
def withW (w : TWorld) (f : TW → Res Empty (TW × String)) : TWorld × String :=
  match w.w with
  | none => (w, "bad-op")
  | some tw =>
    match f tw with
    | .ok (tw', o) => ({ w with w := some tw' }, o)
    | .panic _ => die w

def bad (tw : TW) : Res Empty (TW × String) := pure (tw, "bad-op")

def getCl (tw : TW) (k : Nat) : Option (Slot × Cl) :=
  match tw.slots[k]? with
  | some s => s.client.map fun c => (s, c)
  | none => none

def setCl (tw : TW) (k : Nat) (s : Slot) (c : Cl) : TW := setSlot tw k { s with client := some c }

def tNew (n maxc : Nat) (timeoutS : Int) (expireS nslots : Nat) (chanMem : Nat := 5 * 1024 * 1024) : Res Empty (Option TW) := do
  if n > nslots ∨ nslots = 0 ∨ nslots > 16 ∨ maxc = 0 ∨ maxc > 64 ∨ chanMem < 1000 then return none
  let slots : Array Slot := ((List.range nslots).map fun k => ({ front := frontAddr k, back := backAddr k } : Slot)).toArray
  let ns ← NetcodeServer.new 0 maxc PROTOCOL_ID (slots.toList.map (·.front)) true privateKey challengeKey
  let tw : TW := { g := { netcode := ns, renet := serverFor chanMem }, serverAddr := serverSock, key := privateKey,
                   timeoutS, expireS, slots, chanMem }
  let rec mk (tw : TW) : List Nat → Res Empty (Option TW)
    | [] => pure (some tw)
    | k :: rest => do
      match ← makeClient tw k (100 + k) with
      | some tw => mk tw rest
      | none => pure none
  mk tw (List.range n)

/-- receive loop of `t-recv` / `t-recvall` on a client -/
partial def recvClient (c : Conn) (ch : Nat) (all : Bool) (acc : Array String) : Res Empty (Conn × Array String) := do
  let (c', m) ← c.receiveMessage ch
  match m with
  | none => pure (c', acc)
  | some m =>
    let acc := acc.push (toHex m)
    if !all ∨ acc.size ≥ 100000 then pure (c', acc) else recvClient c' ch all acc

partial def recvServer (s : Server) (id ch : Nat) (all : Bool) (acc : Array String) : Res Empty (Server × Array String) := do
  let (s', m) ← s.receiveMessage id ch
  match m with
  | none => pure (s', acc)
  | some m =>
    let acc := acc.push (toHex m)
    if !all ∨ acc.size ≥ 100000 then pure (s', acc) else recvServer s' id ch all acc

def recvOut (all : Bool) (got : Array String) : String :=
  if all then s!"msgs {got.size}" ++ String.join (got.toList.map fun g => " " ++ g)
  else match got.back? with
    | none => "none"
    | some g => "msg " ++ g

/-- engine E5b (harness/src/tpmax.rs): a bare netcode endpoint seals one payload of `len` bytes for a real
    transport; the transport's `recv_from` cuts the datagram to its buffer and the netcode layer opens it -/
def mxKey : Bytes := List.replicate 32 9

def mxStep (dir : String) (len : Nat) : String :=
  let cap := if dir = "s2c" then RenetVerif.C.TRANSPORT_CLIENT_BUFFER else RenetVerif.C.TRANSPORT_SERVER_BUFFER
  let payload : Bytes := List.replicate len 0x5A
  -- `generate_payload_packet`: `PayloadAboveLimit` before anything is written
  if len > Netcode.C.NETCODE_MAX_PAYLOAD_BYTES then "too-big" else
  match Netcode.Packet.encode aead (Netcode.Packet.payload payload) Netcode.C.NETCODE_MAX_PACKET_BYTES PROTOCOL_ID (some (1, mxKey)) with
  | .ok d =>
    match Netcode.Packet.decode aead (recvFrom cap (serverSock, d)).2 PROTOCOL_ID (some mxKey) none with
    | (.ok (_, Netcode.Packet.payload p), _) => if p == payload then "delivered" else "dropped"
    | _ => "dropped"
  | _ => "too-big"

def stepOp (w : TWorld) (toks : List String) : Option (TWorld × String) :=
  match toks with
  | "note" :: _ => some (w, "ok")
  | ["mxnew"] => some (w, "ok")
  | ["mx", dir, len] => some <|
    match pU64 len with
    | some n => if (dir = "s2c" || dir = "c2s") && 71 ≤ n && n < 16391 then (w, mxStep dir n) else (w, "bad-op")
    | none => (w, "bad-op")
  | "t-new" :: args => some <|
    let parsed : Option (Nat × Nat × Int × Nat × Nat × Nat) :=
      match args with
      | [n, maxc, t, e] => do
        let n ← pU64 n; let maxc ← pU64 maxc; let t ← pI32 t; let e ← pU64 e
        pure (n, maxc, t, e, n, 5 * 1024 * 1024)
      | [n, maxc, t, e, ns] => do
        let n ← pU64 n; let maxc ← pU64 maxc; let t ← pI32 t; let e ← pU64 e; let ns ← pU64 ns
        pure (n, maxc, t, e, ns, 5 * 1024 * 1024)
      | [n, maxc, t, e, ns, mem] => do
        let n ← pU64 n; let maxc ← pU64 maxc; let t ← pI32 t; let e ← pU64 e; let ns ← pU64 ns; let mem ← pU64 mem
        pure (n, maxc, t, e, ns, mem)
      | _ => none
    match parsed with
    | none => (w, "bad-op")
    | some (n, maxc, t, e, ns, mem) =>
      match tNew n maxc t e ns mem with
      | .ok (some tw) => ({ w with w := some tw }, "ok")
      | .ok none => (w, "bad-op")
      | .panic _ => die w
  | ["t-cnew", k, id] => some <|
    match pU64 k, pU64 id with
    | some k, some id => withW w fun tw => do
      if k ≥ tw.slots.size then return (tw, "bad-op")
      match ← makeClient tw k id with
      | some tw' => pure (tw', "ok")
      | none => pure (tw, "err:token")
    | _, _ => (w, "bad-op")
  | ["t-cupd", k, us] => some <|
    match pU64 k, pU64 us with
    | some k, some us => withW w fun tw =>
      match getCl tw k with
      | none => bad tw
      | some (s, c) => do
        let d := us * 1000
        let rc ← c.g.renet.update d
        let r ← clientUpdate aead { c.g with renet := rc } d (c.inbox.toList.map (recvFrom RenetVerif.C.TRANSPORT_CLIENT_BUFFER))
        let tw := setCl tw k s { c with g := r.g, inbox := r.rest.toArray }
        pure (routeUp tw r.out, resultStr r.result)
    | _, _ => (w, "bad-op")
  | ["t-csend", k] => some <|
    match pU64 k with
    | some k => withW w fun tw =>
      match getCl tw k with
      | none => bad tw
      | some (s, c) => do
        let (r, g, out) ← clientSendPackets aead c.g
        pure (routeUp (setCl tw k s { c with g }) out, resultStr r)
    | none => (w, "bad-op")
  | ["t-supd", us] => some <|
    match pU64 us with
    | some us => withW w fun tw => do
      let d := us * 1000
      let rs ← tw.g.renet.update d
      let (g, out) ← serverUpdate aead { tw.g with renet := rs } d (tw.inbox.toList.map (recvFrom RenetVerif.C.TRANSPORT_SERVER_BUFFER))
      let tw := collectEvents { tw with g, inbox := #[], serverTime := tw.serverTime + d }
      pure (routeDown tw out, "ok")
    | none => (w, "bad-op")
  | ["t-ssend"] => some <| withW w fun tw => do
      let (g, out) ← serverSendPackets aead tw.g
      pure (routeDown { tw with g } out, "ok")
  | ["t-q"] => some <| withW w fun tw =>
      let part (f : Slot → Nat) : String :=
        String.join ((List.range tw.slots.size).map fun k =>
          match tw.slots[k]? with
          | some s => s!" {k}:{f s}"
          | none => "")
      pure (tw, "up" ++ part (·.up.size) ++ " down" ++ part (·.down.size))
  | ["t-fwd", dir, k, i] => some <|
    match pDir dir, pU64 k, pU64 i with
    | some dir, some k, some i => withW w fun tw => pure (forward tw dir k i none)
    | _, _, _ => (w, "bad-op")
  | ["t-fwdm", dir, k, i, m] => some <|
    match pDir dir, pU64 k, pU64 i with
    | some dir, some k, some i => withW w fun tw => pure (forward tw dir k i (some m))
    | _, _, _ => (w, "bad-op")
  | ["t-fwdn", dir, k] => some <|
    match pDir dir, pU64 k with
    | some dir, some k => withW w fun tw =>
      if k ≥ tw.slots.size then bad tw else
      let (tw, n) := forwardNew tw dir k
      pure (tw, s!"ok {n}")
    | _, _ => (w, "bad-op")
  | ["t-fwdall", dir] => some <|
    match pDir dir with
    | some dir => withW w fun tw =>
      let (tw, n) := (List.range tw.slots.size).foldl (fun (acc : TW × Nat) k =>
        let (tw, n') := forwardNew acc.1 dir k
        (tw, acc.2 + n')) (tw, 0)
      pure (tw, s!"ok {n}")
    | none => (w, "bad-op")
  | ["t-mark"] => some <| withW w fun tw =>
      pure ({ tw with slots := tw.slots.map fun s =>
                { s with upF := s.upF.map fun _ => true, downF := s.downF.map fun _ => true } }, "ok")
  | ["t-send", who, ch, h] => some <|
    match pU8 ch with
    | none => (w, "bad-op")
    | some ch =>
      if ch > 2 then (w, "bad-op") else
      match fromHex h with
      | none => (w, "bad-op")
      | some m =>
        match pWho who with
        | some (.c k) => withW w fun tw =>
          match getCl tw k with
          | none => bad tw
          | some (s, c) =>
            if c.g.renet.isDisconnected then pure (tw, "disc") else do
            let rc ← c.g.renet.sendMessage ch m
            pure (setCl tw k s { c with g := { c.g with renet := rc } }, "ok")
        | some (.s id) => withW w fun tw =>
          match SMap.find? tw.g.renet.conns id with
          | some c =>
            if !c.isConnected then pure (tw, "noconn") else do
            let rs ← tw.g.renet.sendMessage id ch m
            pure ({ tw with g := { tw.g with renet := rs } }, "ok")
          | none => pure (tw, "noconn")
        | none => withW w bad
  | ["t-bcast", ch, h] => some <|
    match pU8 ch with
    | none => (w, "bad-op")
    | some ch =>
      if ch > 2 then (w, "bad-op") else
      match fromHex h with
      | none => (w, "bad-op")
      | some m => withW w fun tw => do
        let ids := sortNat tw.g.renet.clientsId
        let rs ← tw.g.renet.broadcast ch m
        let tw := { tw with g := { tw.g with renet := rs } }
        pure (tw, if ids.isEmpty then "ok -" else "ok " ++ ",".intercalate (ids.map toString))
  -- a junk datagram (zero bytes of the given length, 0 included) reaches the server socket: from the relay's back socket
  -- of slot k (`t-junk <k> <len>`) or from a stranger (`t-junk x <len>`)
  | ["t-junk", who, len] => some <|
    match pU64 len with
    | some len => withW w fun tw =>
      if len > 4000 then bad tw else
      let data : Bytes := List.replicate len 0
      if who = "x" then pure ({ tw with inbox := tw.inbox.push (.v4 [10, 0, 0, 9] 999, data) }, "ok") else
      match pU64 who with
      | some k =>
        match tw.slots[k]? with
        | some s => pure ({ tw with inbox := tw.inbox.push (s.back, data) }, "ok")
        | none => bad tw
      | none => bad tw
    | none => (w, "bad-op")
  -- a datagram of the slot's down queue reaches the client's socket from an address that is NOT its server's
  -- (the relay's back socket): `Discarded packet from unknown server`
  | ["t-stray", k, i] => some <|
    match pU64 k, pU64 i with
    | some k, some i => withW w fun tw =>
      match tw.slots[k]? with
      | none => bad tw
      | some s =>
        match s.down[i]? with
        | none => pure (tw, "err:noitem")
        | some data =>
          match s.client with
          | none => pure (tw, "err:noclient")
          | some c => pure (setSlot tw k { s with client := some { c with inbox := c.inbox.push (s.back, data) } }, "ok")
    | _, _ => (w, "bad-op")
  | [op, who, ch] =>
    if op ≠ "t-recv" ∧ op ≠ "t-recvall" then none else some <|
    let all := op = "t-recvall"
    match pU8 ch with
    | none => (w, "bad-op")
    | some ch =>
      if ch > 2 then (w, "bad-op") else
      match pWho who with
      | some (.c k) => withW w fun tw =>
        match getCl tw k with
        | none => bad tw
        | some (s, c) => do
          let (rc, got) ← recvClient c.g.renet ch all #[]
          pure (setCl tw k s { c with g := { c.g with renet := rc } }, recvOut all got)
      | some (.s id) => withW w fun tw => do
          let (rs, got) ← recvServer tw.g.renet id ch all #[]
          pure ({ tw with g := { tw.g with renet := rs } }, recvOut all got)
      | none => withW w bad
  | ["t-ev"] => some <| withW w fun tw =>
      match tw.evq with
      | [] => pure (tw, "none")
      | e :: rest => pure ({ tw with evq := rest }, e)
  | ["t-state"] => some <| withW w fun tw => pure (tw, stateStr tw)
  | ["t-cdisc", k] => some <|
    match pU64 k with
    | some k => withW w fun tw =>
      match getCl tw k with
      | none => bad tw
      | some (s, c) => pure (setCl tw k s { c with g := { c.g with renet := c.g.renet.disconnectWith .byClient } }, "ok")
    | none => (w, "bad-op")
  | ["t-ctdisc", k] => some <|
    match pU64 k with
    | some k => withW w fun tw =>
      match getCl tw k with
      | none => bad tw
      | some (s, c) => do
        let (g, out) ← clientDisconnect aead c.g
        pure (routeUp (setCl tw k s { c with g }) out, "ok")
    | none => (w, "bad-op")
  | ["t-sdisc", id] => some <|
    match pU64 id with
    | some id => withW w fun tw => pure ({ tw with g := { tw.g with renet := tw.g.renet.disconnect id } }, "ok")
    | none => (w, "bad-op")
  -- RenetServer::disconnect_all (the message layer's; the transport pushes it down at its next update)
  | ["t-rdiscall"] => some <| withW w fun tw => pure ({ tw with g := { tw.g with renet := tw.g.renet.disconnectAll } }, "ok")
  | ["t-sdiscall"] => some <| withW w fun tw => do
      let (g, out) ← serverDisconnectAll aead tw.g
      pure (routeDown (collectEvents { tw with g }) out, "ok")
  -- NetcodeServerTransport::set_max_clients
  | ["t-setmax", n] => some <|
    match pU64 n with
    | some n => withW w fun tw => pure ({ tw with g := { tw.g with netcode := tw.g.netcode.setMaxClients n } }, "ok")
    | none => (w, "bad-op")
  -- the accessors of both transports (tp.rs `t-acc`)
  | ["t-acc"] => some <| withW w fun tw => do
      let ns := tw.g.netcode
      let pubOk := ns.addresses = tw.slots.toList.map (·.front)
      let mut o := s!"acc max={ns.maxClients} pub={ns.addresses.length}:{if pubOk then 1 else 0}"
      for id in sortNat tw.ids do
        let idle ← ns.timeSinceLastReceivedPacket id
        o := o ++ s!" s{id}={match idle with | some t => toString t | none => "-"}"
      for k in List.range tw.slots.size do
        match tw.slots[k]? with
        | some s =>
          match s.client with
          | some c =>
            let idle ← c.g.netcode.timeSinceLastReceivedPacket
            o := o ++ s!" c{k}={c.g.netcode.clientId}:1:{idle}"
          | none => pure ()
        | none => pure ()
      pure (tw, o)
  | op :: _ => if op.startsWith "t-" then some (w, "bad-op") else none
  | [] => none

/-- one op; after a panic every further op of the case answers `dead` (done by Main) -/
def step (w : TWorld) (toks : List String) : Option (TWorld × String) := stepOp w toks

end RenetVerif.Transport.Driver
