/-
  renet_netcode/src/{server,client}.rs : the UDP transport glue between renetcode and renet.

  One def per glue fn.  The non-blocking `UdpSocket` is abstracted:
    * input  = the datagrams `(source address, bytes)` queued at the socket when the call starts, in
               arrival order (`recv_from` until `WouldBlock`);
    * output = the datagrams `(destination address, bytes)` handed to `send_to`, in call order.
  Socket errors (`send_to` failing, `recv_from` returning anything but a datagram or `WouldBlock`) are
  outside the model; `log::…` calls are dropped.  The AEAD is a parameter, as everywhere in the netcode model.
  `Res.panic` = the Rust code would unwind.
-/
import RenetVerif.Netcode.Server
import RenetVerif.Netcode.Client
import RenetVerif.Renet.Server
namespace RenetVerif.Transport
open RenetVerif RenetVerif.Netcode

abbrev Dgram := Addr × Bytes

/-- `NetcodeServerTransport` (socket and scratch buffer abstracted) together with the `RenetServer`
    every one of its methods takes by `&mut` -/
structure ServerGlue where
  netcode : NetcodeServer
  renet : Server

/-- `NetcodeClientTransport` together with its `RenetClient` -/
structure ClientGlue where
  netcode : NetcodeClient
  renet : Conn

/-- lib.rs `NetcodeTransportError` (the `IO` variant cannot arise without socket errors) -/
inductive TransportError where
  | netcode (e : NetcodeError)
  | renet (r : Reason)
  deriving Repr, DecidableEq

def TransportError.name : TransportError → String
  | .netcode e => "Netcode:" ++ e.name
  | .renet r => "Renet:" ++ r.name

/-! ### server.rs -/

/-- `handle_server_result` -/
def handleServerResult (r : ServerResult) (rs : Server) (out : Array Dgram) : Res Empty (Server × Array Dgram) :=
  match r with
  | .none => pure (rs, out)
  | .packetToSend addr payload => pure (rs, out.push (addr, payload))
  | .payload clientId payload => do
    -- `Err(ClientNotFound)` is only logged
    let (rs, _) ← rs.processPacketFrom payload clientId
    pure (rs, out)
  | .clientConnected clientId addr _ payload =>
    pure (rs.addConnection clientId, out.push (addr, payload))
  | .clientDisconnected clientId addr payload =>
    let rs := rs.removeConnection clientId
    match payload with
    | some p => pure (rs, out.push (addr, p))
    | none => pure (rs, out)

/-- `UdpSocket::recv_from(&mut self.buffer)`: a datagram longer than the buffer is cut to the buffer's size
    (the excess is discarded by the kernel); `cap` is the transport's buffer size as read from the source
    (`Generated/Consts`: `TRANSPORT_SERVER_BUFFER`, `TRANSPORT_CLIENT_BUFFER`) -/
def recvFrom (cap : Nat) (d : Dgram) : Dgram := (d.1, d.2.take cap)

/-- the `recv_from` loop of `update` -/
def serverRecvLoop (a : AEAD) (g : ServerGlue) : List Dgram → Array Dgram → Res Empty (ServerGlue × Array Dgram)
  | [], out => pure (g, out)
  | (addr, buf) :: rest, out => do
    let (r, ns) ← g.netcode.processPacket a addr buf
    let (rs, out) ← handleServerResult r g.renet out
    serverRecvLoop a { netcode := ns, renet := rs } rest out

/-- `for client_id in ids { handle_server_result(f(client_id)) }` -/
def serverIdLoop (f : NetcodeServer → Nat → Res Empty (ServerResult × NetcodeServer)) (g : ServerGlue) :
    List Nat → Array Dgram → Res Empty (ServerGlue × Array Dgram)
  | [], out => pure (g, out)
  | id :: rest, out => do
    let (r, ns) ← f g.netcode id
    let (rs, out) ← handleServerResult r g.renet out
    serverIdLoop f { netcode := ns, renet := rs } rest out

/-- `NetcodeServerTransport::update` (always `Ok(())` without socket errors) -/
def serverUpdate (a : AEAD) (g : ServerGlue) (duration : Nat) (inbox : List Dgram) : Res Empty (ServerGlue × Array Dgram) := do
  let ns ← g.netcode.update duration
  let g := { g with netcode := ns }
  let (g, out) ← serverRecvLoop a g inbox #[]
  let (g, out) ← serverIdLoop (fun ns id => ns.updateClient a id) g g.netcode.clientsId out
  serverIdLoop (fun ns id => ns.disconnect a id) g g.renet.disconnectionsId out

/-- the inner `for packet in packets` of `send_packets`; an error abandons the rest of this client -/
def serverSendClient (a : AEAD) (ns : NetcodeServer) (clientId : Nat) : List Bytes → Array Dgram → Res Empty (NetcodeServer × Array Dgram)
  | [], out => pure (ns, out)
  | p :: rest, out =>
    match ns.generatePayloadPacket a clientId p with
    | .panic m => .panic m
    | .err _ => pure (ns, out)
    | .ok ((addr, d), ns') => serverSendClient a ns' clientId rest (out.push (addr, d))

def serverSendLoop (a : AEAD) (g : ServerGlue) : List Nat → Array Dgram → Res Empty (ServerGlue × Array Dgram)
  | [], out => pure (g, out)
  | id :: rest, out => do
    let (rs, ps) ← g.renet.getPacketsToSend id
    match ps with
    | none => .panic "renet_netcode server.rs send_packets: get_packets_to_send(client_id).unwrap()"
    | some ps => do
      let (ns, out) ← serverSendClient a g.netcode id ps out
      serverSendLoop a { netcode := ns, renet := rs } rest out

/-- `NetcodeServerTransport::send_packets` -/
def serverSendPackets (a : AEAD) (g : ServerGlue) : Res Empty (ServerGlue × Array Dgram) :=
  serverSendLoop a g g.renet.clientsId #[]

/-- `NetcodeServerTransport::disconnect_all` -/
def serverDisconnectAll (a : AEAD) (g : ServerGlue) : Res Empty (ServerGlue × Array Dgram) :=
  serverIdLoop (fun ns id => ns.disconnect a id) g g.netcode.clientsId #[]

/-! ### client.rs -/

/-- result of a client glue call: the `Result<(), NetcodeTransportError>`, the new state, the datagrams
    sent and the datagrams still queued at the socket (an early return does not read the socket) -/
structure ClientOut where
  result : Except TransportError Unit
  g : ClientGlue
  out : Array Dgram
  rest : List Dgram

/-- the `recv_from` loop of `update` -/
def clientRecvLoop (a : AEAD) (g : ClientGlue) : List Dgram → Res Empty ClientGlue
  | [] => pure g
  | (addr, buf) :: rest =>
    if addr ≠ g.netcode.serverAddr then clientRecvLoop a g rest else do
    let (p, nc) ← g.netcode.processPacket a buf
    match p with
    | none => clientRecvLoop a { g with netcode := nc } rest
    | some p => do
      let rc ← g.renet.processPacket p
      clientRecvLoop a { netcode := nc, renet := rc } rest

/-- `NetcodeClientTransport::update` -/
def clientUpdate (a : AEAD) (g : ClientGlue) (duration : Nat) (inbox : List Dgram) : Res Empty ClientOut :=
  match g.netcode.disconnectReason with
  | some reason =>
    pure ⟨.error (.netcode (.disconnected reason)), { g with renet := g.renet.disconnectWith .transport }, #[], inbox⟩
  | none =>
  match g.renet.disconnectReason with
  | some error =>
    let (r, nc) := g.netcode.disconnect a
    let g := { g with netcode := nc }
    match r with
    | .panic m => .panic m
    | .err e => pure ⟨.error (.netcode e), g, #[], inbox⟩
    | .ok (addr, pkt) => pure ⟨.error (.renet error), g, #[(addr, pkt)], inbox⟩
  | none => do
    let rc := if g.netcode.isConnected then g.renet.setConnected
              else if g.netcode.isConnecting then g.renet.setConnecting else g.renet
    let g ← clientRecvLoop a { g with renet := rc } inbox
    let (o, nc) ← g.netcode.update a duration
    let g := { g with netcode := nc }
    match o with
    | some (pkt, addr) => pure ⟨.ok (), g, #[(addr, pkt)], []⟩
    | none => pure ⟨.ok (), g, #[], []⟩

def clientSendLoop (a : AEAD) (nc : NetcodeClient) : List Bytes → Array Dgram →
    Res Empty (Option NetcodeError × NetcodeClient × Array Dgram)
  | [], out => pure (none, nc, out)
  | p :: rest, out =>
    match nc.generatePayloadPacket a p with
    | .panic m => .panic m
    | .err e => pure (some e, nc, out)
    | .ok ((addr, d), nc') => clientSendLoop a nc' rest (out.push (addr, d))

/-- `NetcodeClientTransport::send_packets` (does not touch the receive queue) -/
def clientSendPackets (a : AEAD) (g : ClientGlue) : Res Empty (Except TransportError Unit × ClientGlue × Array Dgram) :=
  match g.netcode.disconnectReason with
  | some reason => pure (.error (.netcode (.disconnected reason)), g, #[])
  | none => do
    let (rc, packets) ← g.renet.getPacketsToSend
    let (e, nc, out) ← clientSendLoop a g.netcode packets #[]
    let g := { netcode := nc, renet := rc }
    match e with
    | some e => pure (.error (.netcode e), g, out)
    | none => pure (.ok (), g, out)

/-- `NetcodeClientTransport::disconnect` -/
def clientDisconnect (a : AEAD) (g : ClientGlue) : Res Empty (ClientGlue × Array Dgram) :=
  if g.netcode.isDisconnected then pure (g, #[]) else
  let (r, nc) := g.netcode.disconnect a
  let g := { g with netcode := nc }
  match r with
  | .panic m => .panic m
  | .err _ => pure (g, #[])
  | .ok (addr, pkt) => pure (g, #[(addr, pkt)])

end RenetVerif.Transport
