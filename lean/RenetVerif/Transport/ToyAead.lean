/-
  A toy AEAD for the E5 (full stack) correspondence: identity cipher, 16-byte tag made of two
  polynomial hashes (mod the Mersenne prime 2^61-1) of  key ‖ nonce ‖ aad ‖ text, each part prefixed by
  its length.  It is NOT a cipher; it only has to agree with ChaCha20-Poly1305 on accept/reject for the
  datagrams an on-path relay can produce from genuine ones in the harness:
    * any change of a single byte of the ciphertext, tag, nonce (sequence bytes) or aad (prefix byte,
      protocol id, …) changes the tag:  the hash difference is  δ·B^k  with 0 < |δ| < 256 < P and B ≠ 0 mod P;
    * truncation moves the tag window (and changes the hashed length);
    * a datagram sealed under another session's key is rejected (the key is hashed).
  The real World uses random keys and ChaCha; no datagram byte ever appears in an output line, so the two
  sides only have to agree on which datagrams are accepted.
-/
import RenetVerif.Netcode.Aead
namespace RenetVerif.Transport
open RenetVerif RenetVerif.Netcode

namespace Toy

def P : Nat := 2 ^ 61 - 1

/-- one absorption step of the polynomial hash with base `b` -/
@[inline] def absorb (b : Nat) (h : Nat) (x : UInt8) : Nat := (h * b + x.toNat + 1) % P

def absorbBytes (b : Nat) (h : Nat) (l : Bytes) : Nat := l.foldl (absorb b) h

def absorbPart (b : Nat) (h : Nat) (l : Bytes) : Nat :=
  absorbBytes b ((h * b + l.length + 1) % P) l

def hash (b : Nat) (key nonce aad text : Bytes) : Nat :=
  absorbPart b (absorbPart b (absorbPart b (absorbPart b 1 key) nonce) aad) text

def le8 : Nat → Nat → Bytes
  | 0, _ => []
  | k + 1, n => UInt8.ofNat (n % 256) :: le8 k (n / 256)

theorem le8_length (k n : Nat) : (le8 k n).length = k := by
  induction k generalizing n with
  | zero => rfl
  | succ k ih => simp [le8, ih]

def B1 : Nat := 1000003
def B2 : Nat := 998244353

/-- the 16-byte tag -/
def tag (key nonce aad text : Bytes) : Bytes :=
  le8 8 (hash B1 key nonce aad text) ++ le8 8 (hash B2 key nonce aad text)

theorem tag_length (k n ad p : Bytes) : (tag k n ad p).length = 16 := by
  simp [tag, le8_length]

def «seal» (k n ad p : Bytes) : Bytes := p ++ tag k n ad p

def «open» (k n ad c : Bytes) : Option Bytes :=
  if c.length < 16 then none
  else
    let p := c.take (c.length - 16)
    if c.drop (c.length - 16) = tag k n ad p then some p else none

theorem open_seal (k n ad p : Bytes) : «open» k n ad («seal» k n ad p) = some p := by
  have hl : (p ++ tag k n ad p).length - 16 = p.length := by
    simp [List.length_append, tag_length]
  have h16 : ¬ (p ++ tag k n ad p).length < 16 := by
    simp [List.length_append, tag_length]
  simp only [«open», «seal», h16, if_false, hl, List.take_left', List.drop_left']
  simp

theorem seal_length (k n ad p : Bytes) : («seal» k n ad p).length = p.length + 16 := by
  simp [«seal», List.length_append, tag_length]

theorem open_length (k n ad c p : Bytes) (h : «open» k n ad c = some p) : p.length + 16 = c.length := by
  unfold «open» at h
  by_cases hc : c.length < 16
  · simp [hc] at h
  · simp only [hc, if_false] at h
    split at h
    · cases h
      simp [List.length_take]
      omega
    · cases h

end Toy

/-- the AEAD instance of the transport driver (the 24-byte-nonce variant is the same function) -/
def toyAead : AEAD where
  «seal» := Toy.seal
  «open» := Toy.open
  xseal := Toy.seal
  xopen := Toy.open

theorem toyAead_laws : toyAead.Laws :=
  ⟨Toy.open_seal, Toy.seal_length, Toy.open_length, Toy.open_seal, Toy.seal_length, Toy.open_length⟩

end RenetVerif.Transport
