/-
  Res: the result of a modelled Rust operation.
  `ok a`     – returned normally (for `Result`-returning fns, `a` is itself an `Except`-like value or
               the function uses the `err` constructor)
  `err e`    – Rust `Err(e)` (the error is part of the normal control flow)
  `panic s`  – the Rust code would unwind at site `s` (index out of bounds, checked arithmetic in the
               debug profile, `unwrap` on `None`, `unreachable!`).
  "Never panics" is therefore an ordinary theorem about the model.
-/
namespace RenetVerif

abbrev Bytes := List UInt8

inductive Res (ε α : Type) where
  | ok (a : α)
  | err (e : ε)
  | panic (site : String)
  deriving Repr, DecidableEq

namespace Res
@[inline] def bind {ε α β} (x : Res ε α) (f : α → Res ε β) : Res ε β :=
  match x with
  | .ok a => f a
  | .err e => .err e
  | .panic s => .panic s

instance {ε} : Monad (Res ε) where
  pure := .ok
  bind := Res.bind

def isPanic {ε α} : Res ε α → Bool
  | .panic _ => true
  | _ => false

@[simp] theorem bind_ok {ε α β} (a : α) (f : α → Res ε β) : (Res.ok a >>= f) = f a := rfl
@[simp] theorem bind_err {ε α β} (e : ε) (f : α → Res ε β) : (Res.err e >>= f) = Res.err e := rfl
@[simp] theorem bind_panic {ε α β} (s : String) (f : α → Res ε β) : (Res.panic s >>= f) = Res.panic s := rfl
@[simp] theorem pure_eq {ε α} (a : α) : (pure a : Res ε α) = .ok a := rfl

/-- checked `usize`/`u64` subtraction (debug profile: overflow = panic) -/
@[inline] def csub {ε} (a b : Nat) (site : String) : Res ε Nat :=
  if b ≤ a then .ok (a - b) else .panic site
end Res

end RenetVerif
