/-
  SMap: association list keyed by Nat, kept sorted by key (stand-in for BTreeMap / HashMap / BTreeSet).
  Only the operations the modelled code uses.
-/
namespace RenetVerif

abbrev SMap (α : Type) := List (Nat × α)

namespace SMap
variable {α : Type}

def find? : SMap α → Nat → Option α
  | [], _ => none
  | (k', v) :: r, k => if k' = k then some v else find? r k

def contains (m : SMap α) (k : Nat) : Bool := (find? m k).isSome

/-- sorted insert, replacing an existing binding -/
def insert : SMap α → Nat → α → SMap α
  | [], k, v => [(k, v)]
  | (k', v') :: r, k, v =>
    if k < k' then (k, v) :: (k', v') :: r
    else if k = k' then (k, v) :: r
    else (k', v') :: insert r k v

def erase : SMap α → Nat → SMap α
  | [], _ => []
  | (k', v') :: r, k => if k' = k then r else (k', v') :: erase r k

def keys (m : SMap α) : List Nat := m.map (·.1)

end SMap
end RenetVerif
