/-
  RustSemCrypto: the RustCrypto interface (`chacha20poly1305` crate) that `renetcode/src/crypto.rs` is written against.

  Group NcCrypto of /verif/translator translates the four functions of `crypto.rs` from the Rust text
  (`Generated/Src/NcCrypto.lean`).  The crate calls they make are the crate interface; they are mapped to the
  primitives below, all defined from the abstract class `RustSem.Aead` of `Base/RustSem.lean`
  (argument order of the class: key nonce aad text; `seal` returns ciphertext ‖ tag, `open` takes ciphertext ‖ tag):

    `Key::from_slice(s)` / `Tag::from_slice(s)` / `XNonce::from_slice(s)`
        `GenericArray::<u8, N>::from_slice`: the same bytes; PANICS unless `s.len() == N` (N = 32 / 16 / 24)
    `Nonce::from(a)`      `From<[u8; 12]>`: the same bytes.  The array length is a static type in Rust; lists carry no
                          length, so the length 12 is checked here (a mismatch would be a compile error in Rust and is a
                          panic at the distinguished site of `Nonce.from` in the model)
    `ChaCha20Poly1305::new(key)` / `XChaCha20Poly1305::new(key)`      the cipher object = its key
    `cipher.encrypt_in_place_detached(nonce, aad, buffer) -> Result<Tag>`
        `s = seal key nonce aad buffer`; the buffer receives the first `buffer.len()` bytes of `s` (the ciphertext: a
        stream cipher keeps the length), the returned tag is the rest of `s` (16 bytes for every AEAD that satisfies the
        length law `|seal k n a p| = |p| + 16`, which is a hypothesis of the theorems that need it).  As in
        `Base/RustSem.lean`, encryption is assumed not to fail (the crate's only error is a message longer than 2^38
        bytes).
    `cipher.decrypt_in_place_detached(nonce, aad, buffer, tag) -> Result<()>`
        `open key nonce aad (buffer ‖ tag)`: `some p` ⇒ the buffer receives `p`, `Ok(())`; `none` ⇒ `Err`, the buffer is
        unchanged (the crate verifies the tag before it decrypts).

  Result convention of the translator for a `Result` fn with a `&mut` argument: `Res (E × state) (state × value)`.
  Nothing here is assumed about `seal` / `open`.
-/
import RenetVerif.Base.RustSem

namespace RenetVerif.RustSem

/-- `GenericArray::<u8, N>::from_slice(s)`: panics unless `s.len() == N` -/
def GenericArray.from_slice {ε : Type} (n : Nat) (s : List Nat) (site : String) : Res ε (List Nat) :=
  if s.length = n then .ok s else .panic site

/-- `Key::from_slice` (`Key = GenericArray<u8, U32>`) -/
def Key.from_slice {ε : Type} (s : List Nat) : Res ε (List Nat) :=
  GenericArray.from_slice 32 s "chacha20poly1305: Key::from_slice: slice length is not 32"

/-- `Tag::from_slice` (`Tag = GenericArray<u8, U16>`) -/
def Tag.from_slice {ε : Type} (s : List Nat) : Res ε (List Nat) :=
  GenericArray.from_slice 16 s "chacha20poly1305: Tag::from_slice: slice length is not 16"

/-- `XNonce::from_slice` (`XNonce = GenericArray<u8, U24>`) -/
def XNonce.from_slice {ε : Type} (s : List Nat) : Res ε (List Nat) :=
  GenericArray.from_slice 24 s "chacha20poly1305: XNonce::from_slice: slice length is not 24"

/-- `Nonce::from([u8; 12])` (`Nonce = GenericArray<u8, U12>`); the static array length is checked, see the header -/
def Nonce.«from» {ε : Type} (a : List Nat) : Res ε (List Nat) :=
  GenericArray.from_slice 12 a "chacha20poly1305: Nonce::from: array length is not 12"

/-- `ChaCha20Poly1305` (IETF variant, 12-byte nonce): the cipher object is its key -/
structure ChaCha20Poly1305 where
  key : List Nat
  deriving Repr, DecidableEq

/-- `XChaCha20Poly1305` (24-byte nonce): the cipher object is its key -/
structure XChaCha20Poly1305 where
  key : List Nat
  deriving Repr, DecidableEq

/-- `KeyInit::new(key)` -/
def ChaCha20Poly1305.new {ε : Type} (key : List Nat) : Res ε ChaCha20Poly1305 := .ok ⟨key⟩
def XChaCha20Poly1305.new {ε : Type} (key : List Nat) : Res ε XChaCha20Poly1305 := .ok ⟨key⟩

/-- `AeadInPlace::encrypt_in_place_detached(&self, nonce, aad, buffer) -> Result<Tag>` -/
def ChaCha20Poly1305.encrypt_in_place_detached [a : Aead] (c : ChaCha20Poly1305) (nonce aad buffer : List Nat) :
    Res (CryptoError × List Nat) (List Nat × List Nat) :=
  .ok ((a.seal c.key nonce aad buffer).take buffer.length, (a.seal c.key nonce aad buffer).drop buffer.length)

/-- `AeadInPlace::decrypt_in_place_detached(&self, nonce, aad, buffer, tag) -> Result<()>` -/
def ChaCha20Poly1305.decrypt_in_place_detached [a : Aead] (c : ChaCha20Poly1305) (nonce aad buffer tag : List Nat) :
    Res (CryptoError × List Nat) (List Nat × Unit) :=
  match a.open c.key nonce aad (buffer ++ tag) with
  | some p => .ok (p, ())
  | none => .err (.opaque, buffer)

def XChaCha20Poly1305.encrypt_in_place_detached [a : Aead] (c : XChaCha20Poly1305) (nonce aad buffer : List Nat) :
    Res (CryptoError × List Nat) (List Nat × List Nat) :=
  .ok ((a.xseal c.key nonce aad buffer).take buffer.length, (a.xseal c.key nonce aad buffer).drop buffer.length)

def XChaCha20Poly1305.decrypt_in_place_detached [a : Aead] (c : XChaCha20Poly1305) (nonce aad buffer tag : List Nat) :
    Res (CryptoError × List Nat) (List Nat × Unit) :=
  match a.xopen c.key nonce aad (buffer ++ tag) with
  | some p => .ok (p, ())
  | none => .err (.opaque, buffer)

end RenetVerif.RustSem
