/- hex <-> bytes and small parsing helpers for the driver's line protocol -/
import RenetVerif.Base.Res
namespace RenetVerif

def hexDigit (n : Nat) : Char :=
  if n < 10 then Char.ofNat (48 + n) else Char.ofNat (87 + n)

def toHex (b : Bytes) : String :=
  if b.isEmpty then "-" else
  String.ofList (b.foldr (fun x acc => hexDigit (x.toNat / 16) :: hexDigit (x.toNat % 16) :: acc) [])

def hexVal (c : Char) : Option Nat :=
  if '0' ≤ c ∧ c ≤ '9' then some (c.toNat - 48)
  else if 'a' ≤ c ∧ c ≤ 'f' then some (c.toNat - 87)
  else none

def fromHexAux : List Char → Option Bytes
  | [] => some []
  | [_] => none
  | a :: b :: r => do
    let x ← hexVal a
    let y ← hexVal b
    let rest ← fromHexAux r
    pure (UInt8.ofNat (x * 16 + y) :: rest)

def fromHex (s : String) : Option Bytes :=
  if s = "-" then some [] else fromHexAux s.toList

end RenetVerif
