/-
  RustSem: the semantic primitives that the GENERATED file `RenetVerif/Generated/Src/<Group>.lean` calls.
  `/verif/translator` turns the text of selected Rust functions (parsed with `syn`) into Lean
  definitions, expression by expression and statement by statement; every Rust construct it
  accepts is mapped to one of the definitions below (or to core Lean: `if`, `match`, tuples,
  structure literals / `{ s with f := v }`, `decide`, `&&`, `||`, `!`).

  TRUSTED BASE of the source tie (what is *not* proved, only stated here):
    * the definitions in this file say what the Rust operations do, for the build the harness uses:
      64-bit target (`usize` = 64 bit), overflow checks ON (debug profile) — so `+ - *` overflow,
      `/ %` by zero, shifts by ≥ width, out-of-range index / slice range, `copy_from_slice` with
      different lengths and `unwrap` on `None` are PANICS (`Res.panic "<file>:<fn>: <op>"`);
    * unsigned fixed-width integers (`u8 u16 u32 u64 usize`) are `Nat`s; a value of type `uN` is
      assumed `< 2^N` at function entry (stated as hypotheses of the equivalence theorems) and every
      primitive keeps results in range (or panics);  `as` casts between unsigned types are `% 2^N`;
    * `[T; N]`, `Vec<T>`, `&[T]`, `&mut [T]`, `bytes::Bytes` are `List T` (`u8` elements are `Nat`s);
      `&T` / `&mut T` / `*x` are transparent (the accepted subset has no aliasing: `&mut` is only
      accepted for `self`, for places passed to `std::mem::take`, and for by-value semantic models);
      allocation failure / capacity overflow of `vec![x; n]` / `resize` is not modelled;
    * `&mut self` methods (and functions with `&mut` cursor / integer parameters) return the new state paired with
      the result; when such a function returns `Result`, its `Err` ALSO carries the state the `&mut` references are
      left in: `Res (E × State) (State × T)` (`State` = `self`, then the `&mut` parameters).  At `callee(..)?` the
      places handed to the callee are updated from the callee's error state before the caller's own state is
      attached to the (converted) error.  The semantic-model methods fail before touching their cursor, except
      `write_all`, `read_exact` and `get_bytes_with_varint_length`, whose `Err` carries the changed cursor;
    * `Ok(v)` / `Err(e)` in return position of a `Result` fn become `.ok v` / `.err e` of `Res`;
    * statements that are `log::…!(…)` macro invocations are IGNORED (nothing is emitted for them;
      their arguments are formatting-only reads in the accepted sources);
    * `std::mem::take(&mut place)` yields the old value and leaves `Default::default()` in the place
      (`[]` for `Vec`, `0` for integers, `false`, `none`);  `x.into()` / `Bytes::from(x)` from `Vec<u8>` to
      `Bytes`, `.to_vec()`, `.clone()` on the supported types are the identity on the representation;
    * the `octets` cursor types `OctetsMut` / `Octets` and `std::ops::Range<u64>` are replaced by the by-value
      models of section "octets" below, written after octets-0.3.7 `src/lib.rs` (`put_u!`/`get_u!`/`peek_u!`
      macros, `put_varint_with_len`, `get_varint`, `get_bytes`, `put_bytes`, `varint_len`, `varint_parse_len`);
      a `&mut OctetsMut` / `&mut Octets` parameter is threaded through (returned with the result, also on `Err`);
    * `let x = &mut place;` makes `x` an ALIAS of the place: every later use of `x` re-reads / writes the
      place (sound because the borrow checker forbids any other access to the place while `x` is live);
      taking the reference evaluates the place once (index bounds check);
    * `while` loops run on explicit FUEL: the manifest gives, per loop, a Rust expression evaluated at loop
      entry; exhausting it is the distinguished panic site `"<file>:<fn>: fuel exhausted"`, which the
      equivalence theorems prove unreachable (so the fuel is not an assumption about the Rust code);
    * a struct VIEW (manifest) translates only the named fields of a struct; a selected method that touches any
      other field is rejected by the translator, so the omitted fields are provably irrelevant to it;
    * `slice.iter()` / `.iter().rev()` are lists consumed from the front (`next()` = head, keeps the tail);
    * `&mut impl io::Read` / `&mut impl io::Write` parameters are the cursor models `ReadCursor` / `WriteCursor` of
      section "io" below (`io::Cursor` over a byte slice — the only readers/writers the crate passes);
      `reader.read_exact(&mut dst)` reads `dst.len()` bytes; `io::Error::new(..)` is the one-point `IoError`;
      `const N: usize` generic parameters are explicit arguments; `i32` values are `Int`s that are only produced by
      `i32::from_le_bytes` and passed on;
    * `VecDeque<T>` is a `List T` (`push_back` appends, `pop_front` takes the head); `&mut uN` parameters are threaded
      through like the cursors (returned with the result; `*p` reads / writes the current value);
      `while let PAT = e { … }` evaluates `e` at the start of every round (fuelled like `while`);
    * `std::time::Duration` is a `Nat` of nanoseconds (`Duration::MAX`, `from_secs`, `from_millis` as in std;
      comparison, copy, checked `+` / `-`); `BTreeMap` / `HashMap` with integer keys are key-sorted association lists
      (section "BTreeMap" below; HashMap iteration is rejected), a `BTreeSet` of integers is the ascending list of its
      elements; `if let Entry::Vacant(e) = map.entry(k) { … e.insert(v) … }` is `if !map.contains_key(k) { … map.insert(k, v) … }`;
      `pop_first()` yields the first binding and keeps the rest; `e?` in a fn returning `Option` is `try_option`;
      `let x = map.entry(k).or_insert_with(|| e)` makes
      `x` an alias of the map entry, so does `let Some(x) = map.get_mut(&k) else { … }`;
      `for (&k, v) in btree.iter_mut()` is a loop over the positions `0..len` of the association list in which `k` is
      the key and `v` an alias of the value of the `i`-th binding (keys cannot change, so the order is preserved);
      a struct-variant pattern matched against such a `&mut` place binds aliases of the variant's fields: they are
      read through the generated partial accessor `E.V.f?` (`unwrap`: the variant was just matched) and written
      through the generated `E.V.set_f`;
      `continue` / `break` (also labelled) leave a loop body through its early-exit channel as a `LoopExit`
      (`whileFuel`, `forRangeExit`, `forEachExit`); a labelled jump out of an inner loop is the inner loop's
      `LoopExit.ret` carrying the outer loop's `LoopExit`;
      a `const` nested in a block is a `let`; `Option::expect(msg)` is `unwrap`; `let PAT = e else { … }` is a `match`;
      `std::net::SocketAddr` is the inductive `SocketAddr` whose `==` is structural; a `SocketAddrV4` / `SocketAddrV6`
      (bound by the patterns `SocketAddr::V4(a)` / `V6(a)`) is the `SocketAddr` itself, `Ipv4Addr` / `Ipv6Addr` are their
      octets, `IpAddr` is the inductive `IpAddr`, `SocketAddr::new(ip, port)` sets IPv6 flow info and scope id to 0;
      `iter().filter(p).count()` is the length of `List.filter`, `iter().flatten()` over `Option`s is `List.filterMap id`,
      `iter_mut().take(n)` visits the first `min n len` positions; an integer `match` with `const` patterns is the `if`
      chain of the comparisons in arm order; the initialiser of a `const` is evaluated with exact arithmetic (the
      compiler rejects overflow there); `Box<T>` is `T`;
      `==` / `!=` on byte arrays, table-mapped types and selected structs/enums is equality of the representation
      (their `PartialEq` impls are the derived / std structural ones);
    * IGNORED FIELDS (manifest `StructIgnore`, used for the statistics fields `stats` / `rtt` of `RenetClient`, which
      are floating point): the generated struct omits them; a statement that only writes them — an assignment to an
      ignored field, a method call on it, a `let` of a value computed from ignored fields or floats, an `if` whose
      condition reads them and whose branches contain only such statements without any effect — is dropped like a
      `log::…!` call, except that the translatable operands are still evaluated (so their panics are kept, e.g. the
      `Duration` subtraction in `(now - sent_at).as_secs_f64()`); every other read of an ignored field is rejected by
      the translator, so the translated state provably does not depend on them;
      the methods of the ignored fields themselves (`ConnectionStats::{update, sent_packets, received_packet,
      acked_packet}`) are NOT translated: they are assumed not to panic — their only panic sources are overflows of
      `u64` packet / byte counters and the subtraction `current_time - sent_at` in `acked_packet`, which the kept rtt
      statement of `process_packet` repeats (so that panic IS modelled);
    * `for v in hash_map.values_mut() { … }` is accepted only for the loops listed in the manifest
      (HASHMAP_VALUES_MUT_OK, with the justification "each iteration touches only its own value") and only if the
      translator finds that the body assigns nothing but (through) the loop variable and cannot leave early (no
      `break` / `continue` / `return` / `?`): the rounds then commute, and the generated loop visits the values of the
      key-sorted table front to back (which of several panicking rounds fires is the only order-dependent observation;
      panic sites are not compared); `btree.range(r)` for a `Range<u64>` value is the key-ordered list of the bindings
      with `r.start ≤ k < r.end` and panics when `r.start > r.end` (as std does);
    * HASHMAP ITERATION ORDER is unspecified in Rust; translated iteration uses KEY ORDER (the model's tables are
      key-sorted).  It is accepted only where the manifest lists the loop / chain, in two forms:
      (a) mutating loops `for v in map.values_mut()` / `for (k, v) in map.iter_mut()` (HASHMAP_VALUES_MUT_OK), under the
      translator's own check described above (a plain `continue` is allowed: it only ends its round) — the final state
      is order-independent;
      (b) read-only chains `map.iter().filter(..).map(..)` (HASHMAP_ITER_ORDER_OK): either the consumer does not depend
      on the order (`count()`), or the result exposes it (`RenetServer::clients_id`, `disconnections_id`) and then the
      equivalence theorems CLAIM THE RESULT ONLY UP TO A PERMUTATION (`List.Perm`);
      `impl Iterator<Item = T>` as a return type is the list of the items: adaptor chains are evaluated eagerly;
      `iter.filter(|pat| e)` whose `e` calls translated functions is `filterM` (the predicate runs on every element in
      order; the accepted closures cannot assign and contain no `return` / `?`, so laziness would only change which
      panic is seen first if a consumer stopped early — every translated consumer runs to the end);
    * a unit struct is the structure without fields; `x.clone()` on a translated struct / enum that has
      `#[derive(Clone)]` is the identity; a `&mut T` parameter of a translated struct type `T` is threaded through like
      the `&mut uN` parameters (disjoint from `self` and the other arguments by the borrow rules);
      `match map.get_mut(&k) { Some(x) => A, None => B }` is `if let Some(x) = map.get_mut(&k) { A } else { B }`;
      `x.into()` without a type annotation on a byte container keeps the value (all byte containers share one
      representation);
    * EXTERNAL AEAD: `renetcode/src/crypto.rs` is not translated; see section "the external AEAD" below for the mapping of
      its four functions to the abstract instance parameter `[RustSem.Aead]` that the generated definitions of the groups
      using them take (declared by `variable [RustSem.Aead]` in those files; Lean adds it exactly to the definitions that
      use it), for the in-place buffer convention and for what is assumed (encryption does not fail; nothing else);
      `chacha20poly1305::aead::Error` is the one-point `CryptoError`;
    * `&mut [u8]` / `&mut [u8; N]` parameters are threaded through like the other `&mut` parameters; an argument
      `&mut buf[a..b]` hands the callee the sub-slice (`slice`) and writes back what it returns (`splice`: same length —
      the callee only had a `&mut [T]`); `io::Cursor::new(x)` is a reader over `x`, or — when the cursor is passed to an
      `impl io::Write` parameter / written through — a writer whose writes land in the buffer `x` it was created over
      (`Cursor::new(&mut buf[..])`, `Cursor::new(&mut *buf)`, `Cursor::new(buf)` for a `&mut [u8]` parameter); the kind is
      taken from the callee's parameter type or from the later uses of the `let`-bound cursor; `position()` /
      `set_position(n)` read / set the offset;
    * a parameter of type `Option<&mut T>` is an optional reference: the generated function takes an `Option T` and
      returns it (possibly updated) with the result; `if let Some(x) = p` makes `x` an alias of the `T` behind it; call
      arguments are `Some(&mut place)` (written back), `None`, or such a parameter passed on.  Any other `&mut` nested in a
      parameter type, and every `&mut` in a return type, is REJECTED (it would silently become a copy);
    * `HashMap<SocketAddr, V>` is the association list `AMap` (unique keys, insertion order; `insert` replaces in
      place or appends, `remove` filters); its iteration order is as unspecified as the HashMap's and is never exposed:
      `values_mut()` / `iter_mut()` only under the manifest whitelist + the translator's check, `retain(|k, v| p)` only
      with a pure predicate on its own entry (`List.filter`);
      iterator adaptors with closures — `find`, `find_map`, `filter_map`, `any`, `position`, `Option::map`, `enumerate` —
      are the `List` functions when the closure body is a pure expression, else the monadic primitives `findM`,
      `find_mapM`, `filter_mapM`, `anyM`, `positionM` (same order; the searching ones stop at the first hit);
      `match x { P if g => a, rest.. }` (guards, on a variable / field scrutinee) is
      `match x { P => if g { a } else { match x { rest.. } }, rest.. }`;
      `Box<[T]>` is `[T]`; `mem::take` of a boxed slice leaves the empty slice; `into_vec()` / `into_boxed_slice()` are the
      identity; `Duration::as_secs()` is the number of whole seconds; a method named like a field of its struct gets a
      trailing `'` in Lean (`NetcodeServer.current_time'`);
      a struct / enum whose fields hold `&mut` references is REJECTED unless listed in the manifest (BORROWED_FIELDS_OK:
      `renetcode::ServerResult`, whose `&'s mut [u8]` payloads are slices of the server's scratch buffer built in return
      position — translated as the snapshot of those bytes at the return);
      a FINDER — a free fn whose whole body is `xs.iter_mut().flatten().find(|c| p)` (return type `Option<&mut T>`, `xs` a
      `&mut [Option<T>]` parameter; the shape is checked by the translator) — returns the POSITION of the first `Some`
      element satisfying `p` (`find_some_idx`); at the call site `if let Some(x) = finder(&mut place, ..)` makes `x` an
      alias of `place[i]`'s payload (every read / write of `x` goes through the index, `unwrap` of the slot included);
      a method returning a tuple with a `&[u8]` slice of `self`'s scratch buffer (manifest BORROWED_RETURN_OK:
      `NetcodeServer::generate_payload_packet`) returns the slice by value; `&mut buf[a..b]` as an rvalue that is only
      read afterwards is the snapshot `slice`; comparisons on `i32` are those of `Int`, `x as uW` for `x: i32` is
      `cast_i32 w` (two's complement); `if let Some(x) = &mut place` makes `x` an alias of the payload of `place`;
      `place.take()` on an `Option` place reads it and stores `None`;
      `generate_random_bytes()` (crypto.rs, external; manifest RANDOM_SOURCES) is an EXPLICIT parameter `rand<k> : List Nat`
      of the generated function — its k-th call site in textual order; sites inside loops / closures are rejected; a
      translated fn calling a fn with such parameters gets parameters of its own for them;
      `Box::new(x)` is `x`; `slice.contains(&x)` is `RustSem.contains` (`==` of the element type);
      `call(&mut place.., ..)?` where `place` lies behind an index / map entry / `Option` payload: on the callee's `Err`
      the state it reports for the argument is written back into that element (`List.set` / `insert` with the values the
      intermediate places had just before the call — the reads the argument evaluation performs anyway);
      `return call(..)` of a `Result` fn with the same error type leaves through the early-exit channel;
      a `Result` call with two components of `&mut` state that the caller inspects is `Exec.attempt2`;
      `vec.into_iter()` is the list of the elements (by value, same order); an or-pattern inside a tuple pattern
      (`(A, X | Y)`) is distributed (`(A, X) | (A, Y)`);
      (transports, `renet_netcode`) `std::net::UdpSocket` is the by-value model `UdpSocket` of section "io" below: `inbox`
      is a SCRIPT of what the next `recv_from` calls find (a datagram, cut to the buffer's size — the excess is discarded,
      as the kernel does — or an `io::Error`; no event = `WouldBlock`), `outbox` the log of the datagrams handed to
      `send_to` (which does NOT fail in the model), `set_nonblocking` succeeds; a `&UdpSocket` receiver / parameter is
      threaded through like `&mut` state (the socket's state changes behind the shared reference);
      `io::Error` has the kinds `WouldBlock`, `Interrupted`, `ConnectionReset` and one `opaque` error for every other kind
      (`e.kind()`, compared with `==`);
      `loop { … }` is `while true { … }`: it needs a manifest fuel expression, and the only fuel used is
      `self.socket.pending() + 1` — `pending()` is a MODEL-ONLY method (the length of the script; no Rust counterpart),
      sound because every round of the two receive loops consumes one event or leaves the loop, which the equivalence
      theorems prove (the fuel-exhaustion site is unreachable);
      a local closure `let f = |args| body;` that is only called is INLINED at its call sites (arguments bound by
      `let`, captured variables are the variables of the enclosing fn; a closure value that escapes is rejected);
      a `match` with guards on a call scrutinee evaluates the call ONCE into a fresh variable; consecutive guarded
      arms with the same pattern become one `if … else if …` chain in that arm (`ref` bindings are plain bindings);
      `let x = match … { P => { …; &mut place[a..b] }, Q => break, R => return … }` makes `x` an alias of the
      sub-slice `place[a..b]` (read with `slice`, a callee's changes written back with `splice`; the bounds are evaluated
      once, where the reference is taken);
      `x.into()` / `?`-conversion to a translated enum with `impl From<S> for E` selected in the manifest is the call
      of that impl (`E.from_<S>`); `Result::unwrap()` is `unwrap_ok` (panic on `Err`);
      `use` paths are resolved across the three crates (`renet::…`, `renetcode::…` from `renet_netcode`);
    * a type parameter `I: Into<T>` is `T` and `x.into()` the identity on it (what every caller in the crates passes:
      `u8` channel ids, `Bytes` / `Vec<u8>` messages); a `Result` call whose result the caller inspects
      (`if let Err(e) = f(..)`, `match f(..) { Ok(..) => .., Err(..) => .. }`) is `Exec.attempt`: the `&mut` state the
      callee leaves behind is written back in both cases and the result becomes an `Except` value;
    * a `type T = U;` alias (manifest `TypeAlias`) is `U`; `let x = map.get_mut(&k).unwrap()` makes `x` an alias of the
      map entry (panic when the key is missing); a `&mut self` method call on an alias / place with further
      `&mut` integer arguments (`channel.get_packets_to_send(&mut self.packet_sequence, &mut available, ..)`) writes
      the receiver and those places back from the callee's returned state; `v.append(&mut w)` appends `w` (a
      temporary that is dropped); `xs.iter().map(|pat| e).collect()` with a pure closure is `List.map`,
      `slice.last()` / `.first()` are `getLast?` / `head?`; `OctetsMut::with_slice(&mut buffer)` over a LOCAL buffer
      starts a cursor at offset 0 whose writes land in `buffer` (the buffer is re-read from the cursor after every
      statement that moves the cursor); a value-position `match` / `if` whose arms also assign outer variables
      returns them together with its value;
    * `std::io::Error` is the one-point type `IoError` (external types are mapped by a table in the
      translator's manifest; their content is never inspected by translated code);
    * the translator itself (that it emits the primitive that belongs to each construct) and
      `syn`'s parser.
  Everything else — that the generated definitions agree with the hand-written model — is proved in
  `Lemmas/SrcEquiv.lean` / `Props/SrcTie.lean` and re-checked whenever the Rust text changes.
-/
import RenetVerif.Base.Res
namespace RenetVerif.RustSem

/-- `std::io::Error`: an opaque value (its content is never inspected by translated code) -/
inductive IoError where
  | opaque
  | wouldBlock
  | interrupted
  | connectionReset
  deriving Repr, DecidableEq

/-- `std::io::ErrorKind` as far as translated code inspects it -/
inductive ErrorKind where
  | WouldBlock | Interrupted | ConnectionReset | Other
  deriving Repr, DecidableEq

/-- `e.kind()` -/
def IoError.kind : IoError → ErrorKind
  | .opaque => .Other
  | .wouldBlock => .WouldBlock
  | .interrupted => .Interrupted
  | .connectionReset => .ConnectionReset

/-! ### control flow: a statement either yields a value, `return`s early, `Err`s, or panics -/

/-- Outcome of running a piece of a Rust function body.
    `val a` – fell through with value `a`;  `ret r` – executed `return r` (or `return Ok(r)`);
    `err e` – executed `return Err(e)` / `?` on an `Err`;  `panic s` – unwound at site `s`. -/
inductive Exec (ε ρ α : Type) where
  | val (a : α)
  | ret (r : ρ)
  | err (e : ε)
  | panic (site : String)
  deriving Repr, DecidableEq

namespace Exec
variable {ε ρ α β : Type}

@[inline] def bind (x : Exec ε ρ α) (f : α → Exec ε ρ β) : Exec ε ρ β :=
  match x with
  | .val a => f a
  | .ret r => .ret r
  | .err e => .err e
  | .panic s => .panic s

instance : Monad (Exec ε ρ) where
  pure := .val
  bind := Exec.bind

/-- a function body: falling off the end with `r` and `return r` are the same thing -/
def run : Exec ε ρ ρ → Res ε ρ
  | .val r => .ok r
  | .ret r => .ok r
  | .err e => .err e
  | .panic s => .panic s

/-- call of another translated function (`f(x)` for a non-`Result` fn, `f(x)?` for a `Result` fn whose
    error type is the caller's) -/
def call : Res ε α → Exec ε ρ α
  | .ok a => .val a
  | .err e => .err e
  | .panic s => .panic s

/-- `f(x)?` where `From<ε'> for ε` is `conv` -/
def callMapErr {ε' : Type} (conv : ε' → ε) : Res ε' α → Exec ε ρ α
  | .ok a => .val a
  | .err e => .err (conv e)
  | .panic s => .panic s

/-- tail call of a `Result` fn in return position (`fn f() -> Result<..> { g() }`) -/
def tail : Res ε ρ → Exec ε ρ α
  | .ok r => .ret r
  | .err e => .err e
  | .panic s => .panic s

/-- `f(x)?` where the error is converted by a translated `impl From<ε'> for ε` (`conv`, itself a
    translated function, hence `Res`-valued) -/
def callFrom {ε' : Type} (conv : ε' → Res ε ε) : Res ε' α → Exec ε ρ α
  | .ok a => .val a
  | .err e =>
    match conv e with
    | .ok e' => .err e'
    | .err e' => .err e'
    | .panic s => .panic s
  | .panic s => .panic s

theorem pure_eq (a : α) : (pure a : Exec ε ρ α) = .val a := rfl
theorem bind_eq (x : Exec ε ρ α) (f : α → Exec ε ρ β) : (x >>= f) = x.bind f := rfl
theorem bind_val (a : α) (f : α → Exec ε ρ β) : (Exec.val a >>= f) = f a := rfl
theorem bind_ret (r : ρ) (f : α → Exec ε ρ β) : ((Exec.ret r : Exec ε ρ α) >>= f) = .ret r := rfl
theorem bind_err (e : ε) (f : α → Exec ε ρ β) : ((Exec.err e : Exec ε ρ α) >>= f) = .err e := rfl
theorem bind_panic (s : String) (f : α → Exec ε ρ β) : ((Exec.panic s : Exec ε ρ α) >>= f) = .panic s := rfl
theorem run_val (r : ρ) : (Exec.val r : Exec ε ρ ρ).run = .ok r := rfl
theorem run_ret (r : ρ) : (Exec.ret r : Exec ε ρ ρ).run = .ok r := rfl
theorem run_err (e : ε) : (Exec.err e : Exec ε ρ ρ).run = .err e := rfl
theorem run_panic (s : String) : (Exec.panic s : Exec ε ρ ρ).run = .panic s := rfl
theorem call_ok (a : α) : (call (.ok a) : Exec ε ρ α) = .val a := rfl
theorem call_err (e : ε) : (call (.err e : Res ε α) : Exec ε ρ α) = .err e := rfl
theorem call_panic (s : String) : (call (.panic s : Res ε α) : Exec ε ρ α) = .panic s := rfl

/-- a call whose `Result` the caller inspects (`if let Err(e) = f(..)`, `match f(..) { Ok(x) => .., Err(e) => .. }`) of a
    fn with `&mut` state: the state the callee leaves behind — after `Ok` and after `Err` — and the result as a value -/
def attempt {ε' σ : Type} (r : Res (ε' × σ) (σ × α)) : Exec ε ρ (σ × Except ε' α) :=
  match r with
  | .ok (s, a) => .val (s, .ok a)
  | .err (e, s) => .val (s, .error e)
  | .panic m => .panic m
/-- the same for a callee with two components of `&mut` state -/
def attempt2 {ε' σ₁ σ₂ : Type} (r : Res (ε' × (σ₁ × σ₂)) (σ₁ × σ₂ × α)) : Exec ε ρ ((σ₁ × σ₂) × Except ε' α) :=
  match r with
  | .ok (s₁, s₂, a) => .val ((s₁, s₂), .ok a)
  | .err (e, s) => .val (s, .error e)
  | .panic m => .panic m
/-- the same for a fn without `&mut` state -/
def attemptPure {ε' : Type} (r : Res ε' α) : Exec ε ρ (Except ε' α) :=
  match r with
  | .ok a => .val (.ok a)
  | .err e => .val (.error e)
  | .panic m => .panic m
end Exec

/-- `for i in lo..hi { body }`: `σ` is the tuple of variables declared outside and assigned inside
    the loop; the body maps the counter and the current tuple to the new tuple (or leaves early).
    An empty or reversed range runs zero times. -/
def forRange {ε ρ σ : Type} (lo hi : Nat) (init : σ) (body : Nat → σ → Exec ε ρ σ) : Exec ε ρ σ :=
  loop (hi - lo) lo init
where
  loop : Nat → Nat → σ → Exec ε ρ σ
    | 0, _, st => .val st
    | n + 1, i, st => (body i st).bind fun st' => loop n (i + 1) st'

/-- `iter.filter(|x| p(x))` where `p` calls translated functions: the predicate is run for every element in order
    (eagerly — the accepted closures cannot assign, so laziness is only observable through which panic comes first) -/
def filterM {ε ρ α : Type} (l : List α) (p : α → Exec ε ρ Bool) : Exec ε ρ (List α) :=
  match l with
  | [] => .val []
  | x :: r => (p x).bind fun b => (filterM r p).bind fun r' => .val (if b then x :: r' else r')

/-- `iter.find_map(f)`, `find(p)`, `any(p)`, `position(p)` with closures that call translated functions: elements are
    visited in order and the search STOPS at the first hit (later elements are not evaluated, as in Rust);
    `filter_map(f)` visits every element -/
def find_mapM {ε ρ α β : Type} (l : List α) (f : α → Exec ε ρ (Option β)) : Exec ε ρ (Option β) :=
  match l with
  | [] => .val none
  | x :: r => (f x).bind fun o => match o with
    | some b => .val (some b)
    | none => find_mapM r f
def findM {ε ρ α : Type} (l : List α) (p : α → Exec ε ρ Bool) : Exec ε ρ (Option α) :=
  match l with
  | [] => .val none
  | x :: r => (p x).bind fun b => if b then .val (some x) else findM r p
def anyM {ε ρ α : Type} (l : List α) (p : α → Exec ε ρ Bool) : Exec ε ρ Bool :=
  match l with
  | [] => .val false
  | x :: r => (p x).bind fun b => if b then .val true else anyM r p
def positionM {ε ρ α : Type} (l : List α) (p : α → Exec ε ρ Bool) : Exec ε ρ (Option Nat) := go 0 l
where
  go (i : Nat) : List α → Exec ε ρ (Option Nat)
    | [] => .val none
    | x :: r => (p x).bind fun b => if b then .val (some i) else go (i + 1) r
def filter_mapM {ε ρ α β : Type} (l : List α) (f : α → Exec ε ρ (Option β)) : Exec ε ρ (List β) :=
  match l with
  | [] => .val []
  | x :: r => (f x).bind fun o => (filter_mapM r f).bind fun r' => .val (match o with | some b => b :: r' | none => r')

/-- a "finder" (`fn f(xs: &mut [Option<T>], ..) -> Option<&mut T>` / `Option<(usize, &mut T)>` written as
    `xs.iter_mut().flatten().find(p)` / `xs.iter_mut().enumerate().find_map(..)`): the POSITION of the first `Some`
    element whose payload satisfies `p`; the returned `&mut T` is that slot (an alias at the call site) -/
def find_some_idx {α : Type} (l : List (Option α)) (p : α → Bool) : Option Nat := go 0 l
where
  go (i : Nat) : List (Option α) → Option Nat
    | [] => none
    | some x :: r => if p x then some i else go (i + 1) r
    | none :: r => go (i + 1) r

/-- how one run of a `while` body ended early: `return r` of the function, `continue`, `break`
    (both with the current values of the loop-carried variables) -/
inductive LoopExit (ρ σ : Type) where
  | ret (r : ρ)
  | cont (st : σ)
  | brk (st : σ)
  deriving Repr, DecidableEq

/-- `while cond { body }` with explicit fuel.  `body` is `if cond { …; (fall through) } else { break }`;
    it runs at most `fuel` times (the run whose condition fails included).  Running out of fuel is the
    distinguished panic `site` (`"<file>:<fn>: fuel exhausted"`): the fuel expression comes from the
    translator's manifest and the equivalence theorems prove that this site is never reached. -/
def whileFuel {ε ρ σ : Type} (fuel : Nat) (site : String) (st : σ) (body : σ → Exec ε (LoopExit ρ σ) σ) :
    Exec ε ρ σ :=
  match fuel with
  | 0 => .panic site
  | n + 1 =>
    match body st with
    | .val st' => whileFuel n site st' body
    | .ret (.cont st') => whileFuel n site st' body
    | .ret (.brk st') => .val st'
    | .ret (.ret r) => .ret r
    | .err e => .err e
    | .panic s => .panic s

/-- `for x in slice.iter()` / `for x in &vec` / `for x in vec` -/
def forEach {ε ρ σ α : Type} (l : List α) (init : σ) (body : α → σ → Exec ε ρ σ) : Exec ε ρ σ :=
  match l with
  | [] => .val init
  | x :: r => (body x init).bind fun st' => forEach r st' body

/-- `for i in lo..hi { body }` whose body contains a `continue` / `break` of this loop: as for `whileFuel`,
    the early-exit channel of the body carries a `LoopExit`.  `LoopExit.ret r` leaves the loop with `r`
    (a `return` of the function, or — inside a nested loop — a labelled `continue` / `break` of an
    enclosing loop, which is a `LoopExit` of that loop). -/
def forRangeExit {ε ρ σ : Type} (lo hi : Nat) (init : σ) (body : Nat → σ → Exec ε (LoopExit ρ σ) σ) : Exec ε ρ σ :=
  loop (hi - lo) lo init
where
  loop : Nat → Nat → σ → Exec ε ρ σ
    | 0, _, st => .val st
    | n + 1, i, st =>
      match body i st with
      | .val st' => loop n (i + 1) st'
      | .ret (.cont st') => loop n (i + 1) st'
      | .ret (.brk st') => .val st'
      | .ret (.ret r) => .ret r
      | .err e => .err e
      | .panic s => .panic s

/-- `for x in list { body }` whose body contains a `continue` / `break` of this loop (see `forRangeExit`) -/
def forEachExit {ε ρ σ α : Type} (l : List α) (init : σ) (body : α → σ → Exec ε (LoopExit ρ σ) σ) : Exec ε ρ σ :=
  match l with
  | [] => .val init
  | x :: r =>
    match body x init with
    | .val st' => forEachExit r st' body
    | .ret (.cont st') => forEachExit r st' body
    | .ret (.brk st') => .val st'
    | .ret (.ret r') => .ret r'
    | .err e => .err e
    | .panic s => .panic s

/-! ### unsigned fixed-width integers (`w` = bit width; `usize` is 64) -/

def MAX (w : Nat) : Nat := 2 ^ w - 1

variable {ε ρ : Type}

/-- `a + b` with overflow check -/
def add (w a b : Nat) (site : String) : Exec ε ρ Nat :=
  if a + b < 2 ^ w then .val (a + b) else .panic site
/-- `a - b` with overflow check -/
def sub (_w a b : Nat) (site : String) : Exec ε ρ Nat :=
  if b ≤ a then .val (a - b) else .panic site
/-- `a * b` with overflow check -/
def mul (w a b : Nat) (site : String) : Exec ε ρ Nat :=
  if a * b < 2 ^ w then .val (a * b) else .panic site
/-- `a / b` (panics on zero) -/
def div (_w a b : Nat) (site : String) : Exec ε ρ Nat :=
  if b = 0 then .panic site else .val (a / b)
/-- `a % b` (panics on zero) -/
def rem (_w a b : Nat) (site : String) : Exec ε ρ Nat :=
  if b = 0 then .panic site else .val (a % b)
/-- `a.div_ceil(b)` (panics on zero; no overflow: `a / b + (a % b > 0) as uW`) -/
def div_ceil (_w a b : Nat) (site : String) : Exec ε ρ Nat :=
  if b = 0 then .panic site else .val (a / b + (if a % b > 0 then 1 else 0))
/-- `a << n`: panics when `n ≥ w`; bits shifted out are dropped -/
def shl (w a n : Nat) (site : String) : Exec ε ρ Nat :=
  if n < w then .val ((a <<< n) % 2 ^ w) else .panic site
/-- `a >> n`: panics when `n ≥ w` -/
def shr (w a n : Nat) (site : String) : Exec ε ρ Nat :=
  if n < w then .val (a >>> n) else .panic site

/-- `a & b`, `a | b`, `a ^ b`, `!a` never panic -/
@[inline] def band (a b : Nat) : Nat := a &&& b
@[inline] def bor (a b : Nat) : Nat := a ||| b
@[inline] def bxor (a b : Nat) : Nat := a ^^^ b
@[inline] def bnot (w a : Nat) : Nat := 2 ^ w - 1 - a

/-- `x as uW` from an unsigned type: truncation when narrowing, identity otherwise -/
@[inline] def cast (w x : Nat) : Nat := x % 2 ^ w
/-- `b as uW` for `b : bool` -/
@[inline] def castBool (b : Bool) : Nat := if b then 1 else 0

def checked_add (w a b : Nat) : Option Nat := if a + b < 2 ^ w then some (a + b) else none
def checked_sub (_w a b : Nat) : Option Nat := if b ≤ a then some (a - b) else none
def checked_mul (w a b : Nat) : Option Nat := if a * b < 2 ^ w then some (a * b) else none
def wrapping_add (w a b : Nat) : Nat := (a + b) % 2 ^ w
def wrapping_sub (w a b : Nat) : Nat := (a + 2 ^ w - b) % 2 ^ w
def wrapping_mul (w a b : Nat) : Nat := (a * b) % 2 ^ w
def saturating_add (w a b : Nat) : Nat := if a + b < 2 ^ w then a + b else 2 ^ w - 1
def saturating_sub (_w a b : Nat) : Nat := a - b
def saturating_mul (w a b : Nat) : Nat := if a * b < 2 ^ w then a * b else 2 ^ w - 1

/-- `x.leading_zeros()` for `x : uW` -/
def leading_zeros (w x : Nat) : Nat := if x = 0 then w else w - 1 - Nat.log2 x
/-- `x.trailing_zeros()` for `x : uW` -/
def trailing_zeros (w x : Nat) : Nat := go w x
where
  go : Nat → Nat → Nat
    | 0, _ => 0
    | f + 1, x => if x % 2 = 1 then 0 else 1 + go f (x / 2)

/-- `n` little-endian bytes of `x` -/
def leBytes (x : Nat) : Nat → List Nat
  | 0 => []
  | k + 1 => x % 256 :: leBytes (x / 256) k
/-- `x.to_le_bytes()` for `x : uW` -/
def to_le_bytes (w x : Nat) : List Nat := leBytes x (w / 8)
/-- `x as uW` for `x : i32`: sign extension then truncation (`x` itself when `0 ≤ x`) -/
def cast_i32 (w : Nat) (x : Int) : Nat := (x % ((2 : Int) ^ w)).toNat
/-- `x.to_be_bytes()` for `x : uW` -/
def to_be_bytes (w x : Nat) : List Nat := (leBytes x (w / 8)).reverse
/-- `uW::from_le_bytes(b)` -/
def from_le_bytes : List Nat → Nat
  | [] => 0
  | b :: r => b + 256 * from_le_bytes r
/-- `i32::from_le_bytes(b)` (two's complement of the little-endian u32 value) -/
def i32_from_le_bytes (b : List Nat) : Int :=
  if from_le_bytes b < 2 ^ 31 then (from_le_bytes b : Int) else (from_le_bytes b : Int) - 2 ^ 32
/-- `x.to_le_bytes()` for `x : i32` (the little-endian bytes of the two's complement) -/
def i32_to_le_bytes (x : Int) : List Nat := leBytes (x % (2 ^ 32 : Int)).toNat 4
/-- `uW::from_be_bytes(b)` -/
def from_be_bytes (b : List Nat) : Nat := from_le_bytes b.reverse

/-! ### arrays, vectors, slices (all `List`) -/
section lists
variable {α : Type}

@[inline] def len (l : List α) : Nat := l.length
@[inline] def is_empty (l : List α) : Bool := l.isEmpty
/-- `[x; n]` and `vec![x; n]` -/
@[inline] def repeat_ (x : α) (n : Nat) : List α := List.replicate n x
/-- `l[i]` (read) -/
def index (l : List α) (i : Nat) (site : String) : Exec ε ρ α :=
  match l[i]? with
  | some x => .val x
  | none => .panic site
/-- `l.contains(&x)` (`==` of the element type) -/
def contains [DecidableEq α] (l : List α) (x : α) : Bool := l.any (fun y => decide (y = x))
/-- `l[i] = v` -/
def set (l : List α) (i : Nat) (v : α) (site : String) : Exec ε ρ (List α) :=
  if i < l.length then .val (l.set i v) else .panic site
/-- `&l[a..b]` -/
def slice (l : List α) (a b : Nat) (site : String) : Exec ε ρ (List α) :=
  if a ≤ b ∧ b ≤ l.length then .val ((l.take b).drop a) else .panic site
/-- `l[a..b].copy_from_slice(src)`: the range must be valid and as long as `src`; returns the new `l` -/
def copy_from_slice (l : List α) (a b : Nat) (src : List α) (site : String) : Exec ε ρ (List α) :=
  if a ≤ b ∧ b ≤ l.length ∧ src.length = b - a then .val (l.take a ++ src ++ l.drop b) else .panic site
/-- writing back what a callee left in the sub-slice `l[a..b]` it was given as `&mut [T]` (`v` has the length
    `b - a`: the callee could not change it) -/
def splice (l : List α) (a b : Nat) (v : List α) (site : String) : Exec ε ρ (List α) :=
  if a ≤ b ∧ b ≤ l.length then .val (l.take a ++ v ++ l.drop b) else .panic site
/-- `v.resize(n, x)` -/
def resize (l : List α) (n : Nat) (x : α) : List α := l.take n ++ List.replicate (n - l.length) x
/-- `v.push(x)` -/
@[inline] def push (l : List α) (x : α) : List α := l ++ [x]
/-- `v.extend_from_slice(s)` -/
@[inline] def extend_from_slice (l s : List α) : List α := l ++ s
/-- `v.insert(i, x)` (panics when `i > len`) -/
def vec_insert (l : List α) (i : Nat) (x : α) (site : String) : Exec ε ρ (List α) :=
  if i ≤ l.length then .val (l.take i ++ x :: l.drop i) else .panic site
/-- `v.remove(i);` (panics when `i ≥ len`; the removed element is not used) -/
def vec_remove (l : List α) (i : Nat) (site : String) : Exec ε ρ (List α) :=
  if i < l.length then .val (l.eraseIdx i) else .panic site
/-- `l.iter().enumerate()` -/
def enumerate (l : List α) : List (Nat × α) := go 0 l
where
  go (i : Nat) : List α → List (Nat × α)
    | [] => []
    | x :: r => (i, x) :: go (i + 1) r
/-- `assert!(c, ..)` -/
def assert (c : Bool) (site : String) : Exec ε ρ Unit := if c then .val () else .panic site
/-- `o?` in a fn returning `Option`: the value of `Some`, or `return None` (`r` is what the fn then returns) -/
def try_option (o : Option α) (r : ρ) : Exec ε ρ α :=
  match o with
  | some x => .val x
  | none => .ret r
/-- `o.unwrap()` -/
def unwrap (o : Option α) (site : String) : Exec ε ρ α :=
  match o with
  | some x => .val x
  | none => .panic site
/-- `r.unwrap()` on a `Result` -/
def unwrap_ok {ε' : Type} (r : Except ε' α) (site : String) : Exec ε ρ α :=
  match r with
  | .ok x => .val x
  | .error _ => .panic site
end lists


/-! ### octets (by-value model of octets-0.3.7) and `Range<u64>` -/

/-- `std::ops::Range<u64>` -/
structure Range where
  start : Nat
  «end» : Nat
  deriving Repr, DecidableEq

/-- `Range::contains(&x)` -/
def Range.contains (r : Range) (x : Nat) : Bool := decide (r.start ≤ x ∧ x < r.«end»)
/-- `Range::is_empty()` (`!(start < end)`) -/
def Range.is_empty (r : Range) : Bool := decide (¬ r.start < r.«end»)

/-! ### `BTreeMap<uN, V>` / `HashMap<uN, V>`: association lists sorted by key

A map is the list of its bindings in ascending key order (the invariant "strictly ascending keys" is maintained by
`insert` / `remove` and assumed by the equivalence theorems).  For a `BTreeMap` this is also its iteration order.
A `HashMap` is modelled the same way, but its iteration order is unspecified in Rust: the translator REJECTS `iter()`,
`keys()`, `values()`, `drain()` and `for … in` on a `HashMap` (translated code must not depend on that order). -/
abbrev Map (α : Type) := List (Nat × α)

namespace Map
variable {α : Type}
/-- `get(&k)` -/
def find? : Map α → Nat → Option α
  | [], _ => none
  | (k', v) :: r, k => if k' = k then some v else find? r k
/-- `contains_key(&k)` -/
def contains_key (m : Map α) (k : Nat) : Bool := (find? m k).isSome
/-- `insert(k, v)` (replaces an existing binding) -/
def insert : Map α → Nat → α → Map α
  | [], k, v => [(k, v)]
  | (k', v') :: r, k, v =>
    if k < k' then (k, v) :: (k', v') :: r
    else if k = k' then (k, v) :: r
    else (k', v') :: insert r k v
/-- `remove(&k)` (the map without the binding) -/
def remove : Map α → Nat → Map α
  | [], _ => []
  | (k', v') :: r, k => if k' = k then r else (k', v') :: remove r k
/-- reading through a reference into an entry that is known to exist (`entry(k).or_insert_with(..)`, `get_mut(k)`) -/
def index {ε ρ : Type} (m : Map α) (k : Nat) (site : String) : Exec ε ρ α :=
  match find? m k with
  | some v => .val v
  | none => .panic site
/-- `BTreeMap::range(r)` for a `Range<u64>`: the bindings with `r.start ≤ k < r.end` in key order;
    std panics ("range start is greater than range end in BTreeMap") when `r.start > r.end` -/
def range {ε ρ : Type} (m : Map α) (r : Range) (site : String) : Exec ε ρ (List (Nat × α)) :=
  if r.start > r.«end» then .panic site else .val (m.filter (fun kv => decide (r.start ≤ kv.1 ∧ kv.1 < r.«end»)))
/-- `first_key_value()` / the binding `pop_first()` returns: the one with the smallest key -/
def first? (m : Map α) : Option (Nat × α) := m.head?
/-- the map after `pop_first()` -/
def without_first (m : Map α) : Map α := m.tail
end Map

/-! ### `BTreeSet<uN>`: the ascending list of its elements -/
abbrev Set := List Nat

namespace Set
/-- `contains(&k)` -/
def contains (s : Set) (k : Nat) : Bool := s.elem k
/-- `insert(k)` (no effect when `k` is present) -/
def insert : Set → Nat → Set
  | [], k => [k]
  | k' :: r, k =>
    if k < k' then k :: k' :: r
    else if k = k' then k' :: r
    else k' :: insert r k
/-- `remove(&k)` -/
def remove : Set → Nat → Set
  | [], _ => []
  | k' :: r, k => if k' = k then r else k' :: remove r k
end Set

/-- a `HashMap` whose key is not an integer (`HashMap<SocketAddr, _>`): an association list with unique keys in
    insertion order.  Rust's iteration order is unspecified; translated code never exposes it (iteration only under the
    manifest whitelists, `retain` with a pure predicate on its own entry). -/
abbrev AMap (κ α : Type) := List (κ × α)
namespace AMap
variable {κ α : Type} [DecidableEq κ]
def find? : AMap κ α → κ → Option α
  | [], _ => none
  | (k', v) :: r, k => if k' = k then some v else find? r k
def contains_key (m : AMap κ α) (k : κ) : Bool := (find? m k).isSome
/-- `insert(k, v)`: replaces the binding of `k` in place, else appends -/
def insert : AMap κ α → κ → α → AMap κ α
  | [], k, v => [(k, v)]
  | (k', v') :: r, k, v => if k' = k then (k', v) :: r else (k', v') :: insert r k v
/-- `remove(&k)` -/
def remove (m : AMap κ α) (k : κ) : AMap κ α := m.filter fun p => decide (p.1 ≠ k)
def index {ε ρ : Type} (m : AMap κ α) (k : κ) (site : String) : Exec ε ρ α :=
  match find? m k with
  | some v => .val v
  | none => .panic site
end AMap

/-- `std::time::Duration` is its number of nanoseconds; `Duration::MAX` = `u64::MAX` s + 999_999_999 ns.
    Only comparison and copy are supported by the translator. -/
def Duration.MAX : Nat := 2 ^ 64 * 1000000000 - 1
/-- `Duration::from_secs(s)` / `from_millis(ms)` for `u64` arguments (always representable) -/
def Duration.from_secs (s : Nat) : Nat := s * 1000000000
def Duration.from_millis (ms : Nat) : Nat := ms * 1000000
/-- `d.as_secs()` (whole seconds; `< 2^64` for every representable duration) -/
def Duration.as_secs (d : Nat) : Nat := d / 1000000000
/-- `a + b` on Durations: panics on overflow -/
def Duration.add {ε ρ : Type} (a b : Nat) (site : String) : Exec ε ρ Nat :=
  if a + b ≤ Duration.MAX then .val (a + b) else .panic site
/-- `a - b` on Durations: panics on underflow -/
def Duration.sub {ε ρ : Type} (a b : Nat) (site : String) : Exec ε ρ Nat :=
  if b ≤ a then .val (a - b) else .panic site

/-- `std::net::SocketAddr`: `V4(ip, port)` / `V6(ip, port, flowinfo, scope_id)`; `==` is the derived
    structural equality of all components -/
inductive SocketAddr where
  | v4 (ip : List Nat) (port : Nat)
  | v6 (ip : List Nat) (port : Nat) (flowinfo : Nat) (scope_id : Nat)
  deriving Repr, DecidableEq

/-- `std::net::UdpSocket` (non-blocking).  `inbox` is a SCRIPT: what the next calls of `recv_from` find, in order — a
    datagram `(source, bytes)` or an `io::Error`; an empty script is `WouldBlock`.  `outbox` logs the datagrams handed to
    `send_to`, in call order (`send_to` does not fail in the model). -/
inductive RecvEvent where
  | dgram (addr : SocketAddr) (bytes : List Nat)
  | error (e : IoError)
  deriving Repr, DecidableEq

structure UdpSocket where
  inbox : List RecvEvent
  outbox : List (SocketAddr × List Nat)
  deriving Repr, DecidableEq

/-- `socket.recv_from(&mut buf)`: the datagram is copied to the front of `buf`, cut to `buf.len()` bytes (the excess is
    discarded, as the kernel does); returns the number of bytes copied and the source -/
def UdpSocket.recv_from (s : UdpSocket) (buf : List Nat) :
    Res (IoError × (UdpSocket × List Nat)) (UdpSocket × List Nat × (Nat × SocketAddr)) :=
  match s.inbox with
  | [] => .err (.wouldBlock, (s, buf))
  | .error e :: r => .err (e, ({ s with inbox := r }, buf))
  | .dgram addr d :: r =>
    let n := min d.length buf.length
    .ok ({ s with inbox := r }, d.take n ++ buf.drop n, (n, addr))
/-- `socket.send_to(buf, addr)` -/
def UdpSocket.send_to (s : UdpSocket) (buf : List Nat) (addr : SocketAddr) : Res (IoError × UdpSocket) (UdpSocket × Nat) :=
  .ok ({ s with outbox := s.outbox ++ [(addr, buf)] }, buf.length)
/-- `socket.set_nonblocking(b)` -/
def UdpSocket.set_nonblocking (s : UdpSocket) (_b : Bool) : Res (IoError × UdpSocket) (UdpSocket × Unit) := .ok (s, ())
/-- model only: the number of events still in the script (the fuel of a receive loop is `pending + 1`) -/
def UdpSocket.pending {ε : Type} (s : UdpSocket) : Res ε Nat := .ok s.inbox.length

/-- `std::net::SocketAddrV4` / `SocketAddrV6`: a `SocketAddr` known to be of that variant (what the patterns
    `SocketAddr::V4(a)` / `SocketAddr::V6(a)` bind) -/
abbrev SocketAddrV4 := SocketAddr
abbrev SocketAddrV6 := SocketAddr
/-- `std::net::IpAddr` over the octets of the `Ipv4Addr` / `Ipv6Addr` (`Ipv4Addr::from([u8; 4])`, `.octets()` are the identity) -/
inductive IpAddr where
  | v4 (octets : List Nat)
  | v6 (octets : List Nat)
  deriving Repr, DecidableEq
/-- `SocketAddr::new(ip, port)` (IPv6: flow info and scope id 0) -/
def SocketAddr.new : IpAddr → Nat → SocketAddr
  | .v4 o, p => .v4 o p
  | .v6 o, p => .v6 o p 0 0
/-- `addr.port()` -/
def SocketAddr.port : SocketAddr → Nat
  | .v4 _ p => p
  | .v6 _ p _ _ => p
/-- `a.ip().octets()` for `a : SocketAddrV4` / `SocketAddrV6` -/
def SocketAddr.ip_octets : SocketAddr → List Nat
  | .v4 o _ => o
  | .v6 o _ _ _ => o

/-- `octets::BufferTooShortError` -/
inductive BufferTooShortError where
  | mk
  deriving Repr, DecidableEq

/-- the `len` low bytes of `v`, most significant first (`<$ty>::to_be` + copy of the last `len` bytes) -/
def beBytes (v : Nat) : Nat → List Nat
  | 0 => []
  | k + 1 => v / 256 ^ k % 256 :: beBytes v k

/-- big-endian value of a byte list (`<$ty>::from_be`) -/
def beVal (l : List Nat) : Nat := l.foldl (fun acc x => acc * 256 + x) 0

/-- `octets::varint_len` -/
def varint_len {ε : Type} (v : Nat) : Res ε Nat :=
  if v ≤ 63 then .ok 1
  else if v ≤ 16383 then .ok 2
  else if v ≤ 1073741823 then .ok 4
  else if v ≤ 4611686018427387903 then .ok 8
  else .panic "octets::varint_len: unreachable!()"

/-- `octets::varint_parse_len` -/
def varint_parse_len {ε : Type} (first : Nat) : Res ε Nat :=
  match first >>> 6 with
  | 0 => .ok 1
  | 1 => .ok 2
  | 2 => .ok 4
  | 3 => .ok 8
  | _ => .panic "octets::varint_parse_len: unreachable!()"

/-- `octets::OctetsMut<'a>` : the whole buffer and the write offset (`off ≤ buf.len()`) -/
structure OctetsMut where
  buf : List Nat
  off : Nat
  deriving Repr, DecidableEq

namespace OctetsMut
/-- `OctetsMut::with_slice` -/
def with_slice (buf : List Nat) : OctetsMut := ⟨buf, 0⟩
def cap (b : OctetsMut) : Nat := b.buf.length - b.off
def len (b : OctetsMut) : Nat := b.buf.length
def is_empty (b : OctetsMut) : Bool := b.buf.length == 0
def to_vec (b : OctetsMut) : List Nat := b.buf.drop b.off

/-- `put_u!(self, ty, v, len)`: `BufferTooShortError` when `buf.len() < off + len`, else the bytes are
    written at `off` and `off += len` -/
def putBE (b : OctetsMut) (v len : Nat) : Res BufferTooShortError (OctetsMut × Unit) :=
  if b.buf.length < b.off + len then .err .mk
  else .ok ({ buf := b.buf.take b.off ++ beBytes v len ++ b.buf.drop (b.off + len), off := b.off + len }, ())

def put_u8 (b : OctetsMut) (v : Nat) := putBE b v 1
def put_u16 (b : OctetsMut) (v : Nat) := putBE b v 2
def put_u32 (b : OctetsMut) (v : Nat) := putBE b v 4
def put_u64 (b : OctetsMut) (v : Nat) := putBE b v 8

/-- `buf[0] |= m` on the slice returned by `put_u!` (it starts at the old offset `at`) -/
def orAt (b : OctetsMut) («at» m : Nat) : OctetsMut :=
  match b.buf[«at»]? with
  | some x => { b with buf := b.buf.set «at» (x ||| m) }
  | none => b

/-- `put_varint` = `put_varint_with_len(v, varint_len(v))` -/
def put_varint (b : OctetsMut) (v : Nat) : Res BufferTooShortError (OctetsMut × Unit) :=
  match (varint_len v : Res BufferTooShortError Nat) with
  | .panic s => .panic s
  | .err e => .err e
  | .ok len =>
    if b.cap < len then .err .mk
    else match len with
      | 1 => put_u8 b (v % 2 ^ 8)
      | 2 =>
        match put_u16 b (v % 2 ^ 16) with
        | .ok (b', _) => .ok (b'.orAt b.off 0x40, ())
        | .err e => .err e
        | .panic s => .panic s
      | 4 =>
        match put_u32 b (v % 2 ^ 32) with
        | .ok (b', _) => .ok (b'.orAt b.off 0x80, ())
        | .err e => .err e
        | .panic s => .panic s
      | 8 =>
        match put_u64 b v with
        | .ok (b', _) => .ok (b'.orAt b.off 0xc0, ())
        | .err e => .err e
        | .panic s => .panic s
      | _ => .panic "octets::put_varint_with_len: value is too large for varint"

/-- `put_bytes` -/
def put_bytes (b : OctetsMut) (v : List Nat) : Res BufferTooShortError (OctetsMut × Unit) :=
  if b.cap < v.length then .err .mk
  else if v.length = 0 then .ok (b, ())
  else .ok ({ buf := b.buf.take b.off ++ v ++ b.buf.drop (b.off + v.length), off := b.off + v.length }, ())
end OctetsMut

/-- `octets::Octets<'a>` : the whole buffer and the read offset -/
structure Octets where
  buf : List Nat
  off : Nat
  deriving Repr, DecidableEq

namespace Octets
/-- `Octets::with_slice` -/
def with_slice (buf : List Nat) : Octets := ⟨buf, 0⟩
def cap (b : Octets) : Nat := b.buf.length - b.off
def len (b : Octets) : Nat := b.buf.length
def is_empty (b : Octets) : Bool := b.buf.length == 0
def to_vec (b : Octets) : List Nat := b.buf.drop b.off

/-- `peek_u!`: the big-endian value of the next `len` bytes -/
def peekBE (b : Octets) (len : Nat) : Res BufferTooShortError Nat :=
  if (b.buf.drop b.off).length < len then .err .mk
  else .ok (beVal ((b.buf.drop b.off).take len))

/-- `get_u!` = `peek_u!` then `off += len` -/
def getBE (b : Octets) (len : Nat) : Res BufferTooShortError (Octets × Nat) :=
  match peekBE b len with
  | .ok v => .ok ({ b with off := b.off + len }, v)
  | .err e => .err e
  | .panic s => .panic s

def get_u8 (b : Octets) := getBE b 1
def get_u16 (b : Octets) := getBE b 2
def get_u32 (b : Octets) := getBE b 4
def get_u64 (b : Octets) := getBE b 8

/-- `get_varint` -/
def get_varint (b : Octets) : Res BufferTooShortError (Octets × Nat) :=
  match peekBE b 1 with
  | .err e => .err e
  | .panic s => .panic s
  | .ok first =>
    match (varint_parse_len first : Res BufferTooShortError Nat) with
    | .err e => .err e
    | .panic s => .panic s
    | .ok len =>
      if len > b.cap then .err .mk
      else match len with
        | 1 => get_u8 b
        | 2 =>
          match get_u16 b with
          | .ok (b', v) => .ok (b', v &&& 0x3fff)
          | .err e => .err e
          | .panic s => .panic s
        | 4 =>
          match get_u32 b with
          | .ok (b', v) => .ok (b', v &&& 0x3fffffff)
          | .err e => .err e
          | .panic s => .panic s
        | 8 =>
          match get_u64 b with
          | .ok (b', v) => .ok (b', v &&& 0x3fffffffffffffff)
          | .err e => .err e
          | .panic s => .panic s
        | _ => .panic "octets::get_varint: unreachable!()"

/-- `get_bytes(len)`: a sub-cursor over the next `len` bytes -/
def get_bytes (b : Octets) (len : Nat) : Res BufferTooShortError (Octets × Octets) :=
  if b.cap < len then .err .mk
  else .ok ({ b with off := b.off + len }, { buf := (b.buf.drop b.off).take len, off := 0 })

/-- `get_bytes_with_varint_length` -/
def get_bytes_with_varint_length (b : Octets) : Res (BufferTooShortError × Octets) (Octets × Octets) :=
  match get_varint b with
  | .ok (b', len) =>
    match get_bytes b' (len % 2 ^ 64) with
    | .ok r => .ok r
    | .err e => .err (e, b')      -- the length prefix has been consumed
    | .panic s => .panic s
  | .err e => .err (e, b)
  | .panic s => .panic s
end Octets


/-! ### `io::Read` / `io::Write` on `io::Cursor` over byte slices (by-value models)

The selected code takes `&mut impl io::Read` / `&mut impl io::Write`; every caller in the crate passes an
`io::Cursor<&[u8]>` / `io::Cursor<&mut [u8]>` (or `&mut [u8; N]`).  `io::Error` values are not distinguished. -/

/-! ### the external AEAD (`renetcode/src/crypto.rs`, chacha20poly1305 crate)

  `crypto.rs` is NOT translated: its four functions are mapped to the operations of an abstract AEAD that the generated
  definitions take as the instance parameter `[RustSem.Aead]` (argument order: key nonce aad text; `seal` returns
  ciphertext ‖ 16-byte tag, `open` takes ciphertext ‖ tag; `x…` = the 24-byte-nonce XChaCha variant):
    `encrypt_in_place(buffer, sequence, key, aad)`          ↦ `buffer := seal key (0⁴ ‖ le64 sequence) aad buffer[..len-16]`
    `dencrypted_in_place(buffer, sequence, key, aad)`       ↦ `open key (0⁴ ‖ le64 sequence) aad buffer`: `Some p` ⇒ `buffer := p ‖ buffer[len-16..]`
                                                              (the tag bytes stay), `None` ⇒ `Err(CryptoError)`, buffer unchanged
    `encrypt_in_place_xnonce(buffer, xnonce, key, aad)`     ↦ the same with `xseal key xnonce`
    `dencrypted_in_place_xnonce(buffer, xnonce, key, aad)`  ↦ the same with `xopen key xnonce`
  Buffer convention: in place, plaintext in `buffer[..len-16]`, the last 16 bytes receive / hold the tag;
  `buffer.len() - NETCODE_MAC_BYTES` underflows (panic) for a buffer shorter than 16 bytes.  Encryption is assumed not
  to fail (the crate's only error is a message longer than 2^38 bytes).  Nothing is assumed about `seal` / `open`
  here; the functional laws (lengths, `open ∘ seal`) are hypotheses of theorems that need them. -/

class Aead where
  «seal» : List Nat → List Nat → List Nat → List Nat → List Nat
  «open» : List Nat → List Nat → List Nat → List Nat → Option (List Nat)
  xseal : List Nat → List Nat → List Nat → List Nat → List Nat
  xopen : List Nat → List Nat → List Nat → List Nat → Option (List Nat)

/-- `chacha20poly1305::aead::Error` -/
inductive CryptoError where
  | opaque
  deriving Repr, DecidableEq

/-- the 12-byte nonce of `crypto.rs`: four zero bytes, then the sequence (little endian) -/
def crypto_nonce (sequence : Nat) : List Nat := [0, 0, 0, 0] ++ to_le_bytes 64 sequence

def encrypt_in_place [a : Aead] (buffer : List Nat) (sequence : Nat) (key aad : List Nat) :
    Res (CryptoError × List Nat) (List Nat × Unit) :=
  if buffer.length < 16 then .panic "renetcode/src/crypto.rs:encrypt_in_place: buffer.len() - NETCODE_MAC_BYTES"
  else .ok (a.seal key (crypto_nonce sequence) aad (buffer.take (buffer.length - 16)), ())

def dencrypted_in_place [a : Aead] (buffer : List Nat) (sequence : Nat) (key aad : List Nat) :
    Res (CryptoError × List Nat) (List Nat × Unit) :=
  if buffer.length < 16 then .panic "renetcode/src/crypto.rs:dencrypted_in_place: buffer.len() - NETCODE_MAC_BYTES"
  else match a.open key (crypto_nonce sequence) aad buffer with
    | some p => .ok (p ++ buffer.drop (buffer.length - 16), ())
    | none => .err (.opaque, buffer)

def encrypt_in_place_xnonce [a : Aead] (buffer : List Nat) (xnonce key aad : List Nat) :
    Res (CryptoError × List Nat) (List Nat × Unit) :=
  if buffer.length < 16 then .panic "renetcode/src/crypto.rs:encrypt_in_place_xnonce: buffer.len() - NETCODE_MAC_BYTES"
  else .ok (a.xseal key xnonce aad (buffer.take (buffer.length - 16)), ())

def dencrypted_in_place_xnonce [a : Aead] (buffer : List Nat) (xnonce key aad : List Nat) :
    Res (CryptoError × List Nat) (List Nat × Unit) :=
  if buffer.length < 16 then .panic "renetcode/src/crypto.rs:dencrypted_in_place_xnonce: buffer.len() - NETCODE_MAC_BYTES"
  else match a.xopen key xnonce aad buffer with
    | some p => .ok (p ++ buffer.drop (buffer.length - 16), ())
    | none => .err (.opaque, buffer)

/-- `io::Cursor<&[u8]>` used through `io::Read` -/
structure ReadCursor where
  buf : List Nat
  pos : Nat
  deriving Repr, DecidableEq

/-- `Cursor::new(slice)` -/
def ReadCursor.new (buf : List Nat) : ReadCursor := ⟨buf, 0⟩

/-- `read_exact(&mut dst)` with `dst.len() = n`: `UnexpectedEof` when fewer than `n` bytes remain (std then moves the
    cursor to the end; the contents of `dst` are unspecified and are not used by the translated code), else the next
    `n` bytes and the position advances -/
def ReadCursor.read_exact (c : ReadCursor) (n : Nat) : Res (IoError × ReadCursor) (ReadCursor × List Nat) :=
  if (c.buf.drop c.pos).length < n then .err (.opaque, { c with pos := c.buf.length })
  else .ok ({ c with pos := c.pos + n }, (c.buf.drop c.pos).take n)

/-- `Cursor::position()` / `set_position(pos)` (any `u64`; reads / writes past the end behave as at the end) -/
def ReadCursor.position (c : ReadCursor) : Nat := c.pos
def ReadCursor.set_position {ε : Type} (c : ReadCursor) (pos : Nat) : Res ε (ReadCursor × Unit) := .ok ({ c with pos := pos }, ())

/-- `io::Cursor<&mut [u8]>` used through `io::Write` -/
structure WriteCursor where
  buf : List Nat
  pos : Nat
  deriving Repr, DecidableEq

/-- `Cursor::new(slice)` -/
def WriteCursor.new (buf : List Nat) : WriteCursor := ⟨buf, 0⟩

def WriteCursor.position (c : WriteCursor) : Nat := c.pos
def WriteCursor.set_position {ε : Type} (c : WriteCursor) (pos : Nat) : Res ε (WriteCursor × Unit) := .ok ({ c with pos := pos }, ())

/-- `Write::write`: copies what fits (a short write is not an error) and returns the count -/
def WriteCursor.write (c : WriteCursor) (b : List Nat) : Res IoError (WriteCursor × Nat) :=
  let n := min b.length (c.buf.length - c.pos)
  .ok ({ buf := c.buf.take c.pos ++ b.take n ++ c.buf.drop (c.pos + n), pos := c.pos + n }, n)

/-- `Write::write_all`: `WriteZero` when the bytes do not fit; the error carries the cursor after the partial write
    (the buffer is filled to its end) -/
def WriteCursor.write_all (c : WriteCursor) (b : List Nat) : Res (IoError × WriteCursor) (WriteCursor × Unit) :=
  if b.length ≤ c.buf.length - c.pos then
    .ok ({ buf := c.buf.take c.pos ++ b ++ c.buf.drop (c.pos + b.length), pos := c.pos + b.length }, ())
  else .err (.opaque, { buf := c.buf.take c.pos ++ b.take (c.buf.length - c.pos), pos := max c.pos c.buf.length })

end RenetVerif.RustSem
