/-
  RustSem: the semantic primitives that the GENERATED file `RenetVerif/Generated/Src.lean` calls.
  `/verif/translator` turns the text of selected Rust functions (parsed with `syn`) into Lean
  definitions, expression by expression and statement by statement; every Rust construct it
  accepts is mapped to one of the definitions below (or to core Lean: `if`, `match`, tuples,
  structure literals / `{ s with f := v }`, `decide`, `&&`, `||`, `!`).

  TRUSTED BASE of the source tie (what is *not* proved, only stated here):
    * the definitions in this file say what the Rust operations do, for the build the harness uses:
      64-bit target (`usize` = 64 bit), overflow checks ON (debug profile) — so `+ - *` overflow,
      `/ %` by zero, shifts by ≥ width, out-of-range index / slice range, `copy_from_slice` with
      different lengths and `unwrap` on `None` are PANICS (`Res.panic "<file>:<fn>: <op>"`);
    * unsigned fixed-width integers (`u8 u16 u32 u64 usize`) are `Nat`s; a value of type `uN` is
      assumed `< 2^N` at function entry (stated as hypotheses of the equivalence theorems) and every
      primitive keeps results in range (or panics);  `as` casts between unsigned types are `% 2^N`;
    * `[T; N]`, `Vec<T>`, `&[T]`, `&mut [T]`, `bytes::Bytes` are `List T` (`u8` elements are `Nat`s);
      `&T` / `&mut T` / `*x` are transparent (the accepted subset has no aliasing: `&mut` is only
      accepted for `self`, for places passed to `std::mem::take`, and for by-value semantic models);
      allocation failure / capacity overflow of `vec![x; n]` / `resize` is not modelled;
    * `&mut self` methods return the new `self` paired with the result; a `Result`-returning `&mut self`
      method returns `Res.err e` WITHOUT a state: the translator rejects such a function when an
      `Err` return is textually preceded by a mutation of `self`;
    * `Ok(v)` / `Err(e)` in return position of a `Result` fn become `.ok v` / `.err e` of `Res`;
    * statements that are `log::…!(…)` macro invocations are IGNORED (nothing is emitted for them;
      their arguments are formatting-only reads in the accepted sources);
    * `std::mem::take(&mut place)` yields the old value and leaves `Default::default()` in the place
      (`[]` for `Vec`, `0` for integers, `false`, `none`);  `x.into()` / `Bytes::from(x)` from `Vec<u8>` to
      `Bytes`, `.to_vec()`, `.clone()` on the supported types are the identity on the representation;
    * `std::io::Error` is the one-point type `IoError` (external types are mapped by a table in the
      translator's manifest; their content is never inspected by translated code);
    * the translator itself (that it emits the primitive that belongs to each construct) and
      `syn`'s parser.
  Everything else — that the generated definitions agree with the hand-written model — is proved in
  `Lemmas/SrcEquiv.lean` / `Props/SrcTie.lean` and re-checked whenever the Rust text changes.
-/
import RenetVerif.Base.Res
namespace RenetVerif.RustSem

/-- `std::io::Error`: an opaque value (its content is never inspected by translated code) -/
inductive IoError where
  | opaque
  deriving Repr, DecidableEq

/-! ### control flow: a statement either yields a value, `return`s early, `Err`s, or panics -/

/-- Outcome of running a piece of a Rust function body.
    `val a` – fell through with value `a`;  `ret r` – executed `return r` (or `return Ok(r)`);
    `err e` – executed `return Err(e)` / `?` on an `Err`;  `panic s` – unwound at site `s`. -/
inductive Exec (ε ρ α : Type) where
  | val (a : α)
  | ret (r : ρ)
  | err (e : ε)
  | panic (site : String)
  deriving Repr, DecidableEq

namespace Exec
variable {ε ρ α β : Type}

@[inline] def bind (x : Exec ε ρ α) (f : α → Exec ε ρ β) : Exec ε ρ β :=
  match x with
  | .val a => f a
  | .ret r => .ret r
  | .err e => .err e
  | .panic s => .panic s

instance : Monad (Exec ε ρ) where
  pure := .val
  bind := Exec.bind

/-- a function body: falling off the end with `r` and `return r` are the same thing -/
def run : Exec ε ρ ρ → Res ε ρ
  | .val r => .ok r
  | .ret r => .ok r
  | .err e => .err e
  | .panic s => .panic s

/-- call of another translated function (`f(x)` for a non-`Result` fn, `f(x)?` for a `Result` fn whose
    error type is the caller's) -/
def call : Res ε α → Exec ε ρ α
  | .ok a => .val a
  | .err e => .err e
  | .panic s => .panic s

/-- `f(x)?` where `From<ε'> for ε` is `conv` -/
def callMapErr {ε' : Type} (conv : ε' → ε) : Res ε' α → Exec ε ρ α
  | .ok a => .val a
  | .err e => .err (conv e)
  | .panic s => .panic s

/-- tail call of a `Result` fn in return position (`fn f() -> Result<..> { g() }`) -/
def tail : Res ε ρ → Exec ε ρ α
  | .ok r => .ret r
  | .err e => .err e
  | .panic s => .panic s

theorem pure_eq (a : α) : (pure a : Exec ε ρ α) = .val a := rfl
theorem bind_eq (x : Exec ε ρ α) (f : α → Exec ε ρ β) : (x >>= f) = x.bind f := rfl
theorem bind_val (a : α) (f : α → Exec ε ρ β) : (Exec.val a >>= f) = f a := rfl
theorem bind_ret (r : ρ) (f : α → Exec ε ρ β) : ((Exec.ret r : Exec ε ρ α) >>= f) = .ret r := rfl
theorem bind_err (e : ε) (f : α → Exec ε ρ β) : ((Exec.err e : Exec ε ρ α) >>= f) = .err e := rfl
theorem bind_panic (s : String) (f : α → Exec ε ρ β) : ((Exec.panic s : Exec ε ρ α) >>= f) = .panic s := rfl
theorem run_val (r : ρ) : (Exec.val r : Exec ε ρ ρ).run = .ok r := rfl
theorem run_ret (r : ρ) : (Exec.ret r : Exec ε ρ ρ).run = .ok r := rfl
theorem run_err (e : ε) : (Exec.err e : Exec ε ρ ρ).run = .err e := rfl
theorem run_panic (s : String) : (Exec.panic s : Exec ε ρ ρ).run = .panic s := rfl
theorem call_ok (a : α) : (call (.ok a) : Exec ε ρ α) = .val a := rfl
theorem call_err (e : ε) : (call (.err e : Res ε α) : Exec ε ρ α) = .err e := rfl
theorem call_panic (s : String) : (call (.panic s : Res ε α) : Exec ε ρ α) = .panic s := rfl
end Exec

/-- `for i in lo..hi { body }`: `σ` is the tuple of variables declared outside and assigned inside
    the loop; the body maps the counter and the current tuple to the new tuple (or leaves early).
    An empty or reversed range runs zero times. -/
def forRange {ε ρ σ : Type} (lo hi : Nat) (init : σ) (body : Nat → σ → Exec ε ρ σ) : Exec ε ρ σ :=
  loop (hi - lo) lo init
where
  loop : Nat → Nat → σ → Exec ε ρ σ
    | 0, _, st => .val st
    | n + 1, i, st => (body i st).bind fun st' => loop n (i + 1) st'

/-- `for x in slice.iter()` / `for x in &vec` / `for x in vec` -/
def forEach {ε ρ σ α : Type} (l : List α) (init : σ) (body : α → σ → Exec ε ρ σ) : Exec ε ρ σ :=
  match l with
  | [] => .val init
  | x :: r => (body x init).bind fun st' => forEach r st' body

/-! ### unsigned fixed-width integers (`w` = bit width; `usize` is 64) -/

def MAX (w : Nat) : Nat := 2 ^ w - 1

variable {ε ρ : Type}

/-- `a + b` with overflow check -/
def add (w a b : Nat) (site : String) : Exec ε ρ Nat :=
  if a + b < 2 ^ w then .val (a + b) else .panic site
/-- `a - b` with overflow check -/
def sub (_w a b : Nat) (site : String) : Exec ε ρ Nat :=
  if b ≤ a then .val (a - b) else .panic site
/-- `a * b` with overflow check -/
def mul (w a b : Nat) (site : String) : Exec ε ρ Nat :=
  if a * b < 2 ^ w then .val (a * b) else .panic site
/-- `a / b` (panics on zero) -/
def div (_w a b : Nat) (site : String) : Exec ε ρ Nat :=
  if b = 0 then .panic site else .val (a / b)
/-- `a % b` (panics on zero) -/
def rem (_w a b : Nat) (site : String) : Exec ε ρ Nat :=
  if b = 0 then .panic site else .val (a % b)
/-- `a << n`: panics when `n ≥ w`; bits shifted out are dropped -/
def shl (w a n : Nat) (site : String) : Exec ε ρ Nat :=
  if n < w then .val ((a <<< n) % 2 ^ w) else .panic site
/-- `a >> n`: panics when `n ≥ w` -/
def shr (w a n : Nat) (site : String) : Exec ε ρ Nat :=
  if n < w then .val (a >>> n) else .panic site

/-- `a & b`, `a | b`, `a ^ b`, `!a` never panic -/
@[inline] def band (a b : Nat) : Nat := a &&& b
@[inline] def bor (a b : Nat) : Nat := a ||| b
@[inline] def bxor (a b : Nat) : Nat := a ^^^ b
@[inline] def bnot (w a : Nat) : Nat := 2 ^ w - 1 - a

/-- `x as uW` from an unsigned type: truncation when narrowing, identity otherwise -/
@[inline] def cast (w x : Nat) : Nat := x % 2 ^ w
/-- `b as uW` for `b : bool` -/
@[inline] def castBool (b : Bool) : Nat := if b then 1 else 0

def checked_add (w a b : Nat) : Option Nat := if a + b < 2 ^ w then some (a + b) else none
def checked_sub (_w a b : Nat) : Option Nat := if b ≤ a then some (a - b) else none
def checked_mul (w a b : Nat) : Option Nat := if a * b < 2 ^ w then some (a * b) else none
def wrapping_add (w a b : Nat) : Nat := (a + b) % 2 ^ w
def wrapping_sub (w a b : Nat) : Nat := (a + 2 ^ w - b) % 2 ^ w
def wrapping_mul (w a b : Nat) : Nat := (a * b) % 2 ^ w
def saturating_add (w a b : Nat) : Nat := if a + b < 2 ^ w then a + b else 2 ^ w - 1
def saturating_sub (_w a b : Nat) : Nat := a - b
def saturating_mul (w a b : Nat) : Nat := if a * b < 2 ^ w then a * b else 2 ^ w - 1

/-- `n` little-endian bytes of `x` -/
def leBytes (x : Nat) : Nat → List Nat
  | 0 => []
  | k + 1 => x % 256 :: leBytes (x / 256) k
/-- `x.to_le_bytes()` for `x : uW` -/
def to_le_bytes (w x : Nat) : List Nat := leBytes x (w / 8)
/-- `x.to_be_bytes()` for `x : uW` -/
def to_be_bytes (w x : Nat) : List Nat := (leBytes x (w / 8)).reverse
/-- `uW::from_le_bytes(b)` -/
def from_le_bytes : List Nat → Nat
  | [] => 0
  | b :: r => b + 256 * from_le_bytes r
/-- `uW::from_be_bytes(b)` -/
def from_be_bytes (b : List Nat) : Nat := from_le_bytes b.reverse

/-! ### arrays, vectors, slices (all `List`) -/
section lists
variable {α : Type}

@[inline] def len (l : List α) : Nat := l.length
@[inline] def is_empty (l : List α) : Bool := l.isEmpty
/-- `[x; n]` and `vec![x; n]` -/
@[inline] def repeat_ (x : α) (n : Nat) : List α := List.replicate n x
/-- `l[i]` (read) -/
def index (l : List α) (i : Nat) (site : String) : Exec ε ρ α :=
  match l[i]? with
  | some x => .val x
  | none => .panic site
/-- `l[i] = v` -/
def set (l : List α) (i : Nat) (v : α) (site : String) : Exec ε ρ (List α) :=
  if i < l.length then .val (l.set i v) else .panic site
/-- `&l[a..b]` -/
def slice (l : List α) (a b : Nat) (site : String) : Exec ε ρ (List α) :=
  if a ≤ b ∧ b ≤ l.length then .val ((l.take b).drop a) else .panic site
/-- `l[a..b].copy_from_slice(src)`: the range must be valid and as long as `src`; returns the new `l` -/
def copy_from_slice (l : List α) (a b : Nat) (src : List α) (site : String) : Exec ε ρ (List α) :=
  if a ≤ b ∧ b ≤ l.length ∧ src.length = b - a then .val (l.take a ++ src ++ l.drop b) else .panic site
/-- `v.resize(n, x)` -/
def resize (l : List α) (n : Nat) (x : α) : List α := l.take n ++ List.replicate (n - l.length) x
/-- `v.push(x)` -/
@[inline] def push (l : List α) (x : α) : List α := l ++ [x]
/-- `v.extend_from_slice(s)` -/
@[inline] def extend_from_slice (l s : List α) : List α := l ++ s
/-- `o.unwrap()` -/
def unwrap (o : Option α) (site : String) : Exec ε ρ α :=
  match o with
  | some x => .val x
  | none => .panic site
end lists

end RenetVerif.RustSem
