import RenetVerif.Lemmas.SendInvC
namespace RenetVerif
open C SMap

/-! ### acknowledgements (channel) -/

theorem count_set_true {l : List Bool} {i : Nat} (h : l[i]? = some false) :
    (l.set i true).count true = l.count true + 1 := by
  obtain ⟨hi, he⟩ := List.getElem?_eq_some_iff.mp h
  rw [List.count_set hi]; simp [he]

/-- releasing an entry: memory accounting cannot underflow, the invariant survives -/
theorem SendRel.Inv.release {s : SendRel} (h : s.Inv) {id : Nat} {u : Unacked} (hf : find? s.unacked id = some u) :
    u.msg.length ≤ s.mem ∧
    ({ s with unacked := erase s.unacked id, mem := s.mem - u.msg.length } : SendRel).Inv ∧
    s.Step { s with unacked := erase s.unacked id, mem := s.mem - u.msg.length } := by
  have hge := msum_ge hf
  have he := msum_erase hf
  have hm := h.mem
  have hb := h.bound
  refine ⟨by omega, ⟨sorted_erase _ h.sorted, fun x hx => h.keys x (mem_erase hx),
    fun x hx => h.entries x (mem_erase hx), by dsimp only; omega, by dsimp only; omega⟩,
    ⟨rfl, rfl, Nat.le_refl _, ?_⟩⟩
  intro id' u' _ hf'
  exact ⟨u', (find?_erase_some h.sorted hf').2, Unacked.Kin.refl _⟩

/-- replacing an entry by one of the same kind and payload -/
theorem SendRel.Inv.replace {s : SendRel} (h : s.Inv) {id : Nat} {u v : Unacked} (hf : find? s.unacked id = some u)
    (hk : u.Kin v) (hv : v.OK) :
    ({ s with unacked := SMap.insert s.unacked id v } : SendRel).Inv ∧
    s.Step { s with unacked := SMap.insert s.unacked id v } := by
  have hi := msum_insert_replace v h.sorted hf
  have hm := h.mem
  have hmsg := hk.msg
  refine ⟨⟨sorted_insert _ _ h.sorted, ?_, ?_, by dsimp only; rw [hmsg] at hi; omega, h.bound⟩,
    ⟨rfl, rfl, Nat.le_refl _, ?_⟩⟩
  · intro x hx
    rcases mem_insert hx with rfl | hx
    · exact h.find_lt hf
    · exact h.keys x hx
  · intro x hx
    rcases mem_insert hx with rfl | hx
    · exact hv
    · exact h.entries x hx
  · intro id' u' _ hf'
    dsimp only at hf'
    rw [find?_insert] at hf'
    by_cases c : id = id'
    · rw [if_pos c] at hf'; cases hf'; subst c; exact ⟨u, hf, hk⟩
    · rw [if_neg c] at hf'; exact ⟨u', hf', Unacked.Kin.refl _⟩

/-- `process_message_ack` on an id that is absent or bound to a small message never panics -/
theorem SendRel.processMessageAck_spec {s : SendRel} (h : s.Inv) (id : Nat)
    (hk : ∀ u, find? s.unacked id = some u → u.IsSmall) :
    ∃ s', s.processMessageAck id = .ok s' ∧ s'.Inv ∧ s.Step s' ∧
      ((find? s.unacked id = none ∧ s' = s) ∨
       ∃ m ls, find? s.unacked id = some (.small m ls) ∧ m.length ≤ s.mem ∧
         s' = { s with unacked := erase s.unacked id, mem := s.mem - m.length }) := by
  unfold SendRel.processMessageAck
  cases hf : find? s.unacked id with
  | none => exact ⟨s, rfl, h, SendRel.Step.refl _, Or.inl ⟨rfl, rfl⟩⟩
  | some u =>
    cases u with
    | sliced => exact (hk _ hf).elim
    | small m ls =>
      obtain ⟨r1, r2, r3⟩ := h.release hf
      simp only [Unacked.msg] at r1 r2 r3
      refine ⟨_, ?_, r2, r3, Or.inr ⟨m, ls, rfl, r1, rfl⟩⟩
      simp only [Res.csub, if_pos r1, Res.bind_ok, Res.pure_eq]

/-- `process_slice_ack` on an id that is absent or bound to a sliced message with `idx < n` never panics -/
theorem SendRel.processSliceAck_spec {s : SendRel} (h : s.Inv) (id idx : Nat)
    (hk : ∀ u, find? s.unacked id = some u → u.SliceIdx idx) :
    ∃ s', s.processSliceAck id idx = .ok s' ∧ s'.Inv ∧ s.Step s' ∧
      ((find? s.unacked id = none ∧ s' = s) ∨
       ∃ m n k nx acked ls, find? s.unacked id = some (.sliced m n k nx acked ls) ∧
         ((acked[idx]? = some true ∧ s' = s) ∨
          (acked[idx]? = some false ∧ k + 1 = n ∧ m.length ≤ s.mem ∧
             s' = { s with unacked := erase s.unacked id, mem := s.mem - m.length }) ∨
          (acked[idx]? = some false ∧ k + 1 ≠ n ∧
             s' = { s with unacked := SMap.insert s.unacked id (.sliced m n (k + 1) nx (acked.set idx true) ls) }))) := by
  unfold SendRel.processSliceAck
  cases hf : find? s.unacked id with
  | none => exact ⟨s, rfl, h, SendRel.Step.refl _, Or.inl ⟨rfl, rfl⟩⟩
  | some u =>
    cases u with
    | small => exact (hk _ hf).elim
    | sliced m n k nx acked ls =>
      have hidx : idx < n := hk _ hf
      obtain ⟨o1, o2, o3, o4, o5, o6⟩ := h.find_ok hf
      have hlt : idx < acked.length := by omega
      simp only
      cases hb : acked[idx]? with
      | none => rw [List.getElem?_eq_none_iff] at hb; omega
      | some b =>
        cases b with
        | true => exact ⟨s, rfl, h, SendRel.Step.refl _, Or.inr ⟨m, n, k, nx, acked, ls, rfl, Or.inl ⟨hb, rfl⟩⟩⟩
        | false =>
          simp only
          by_cases c : k + 1 = n
          · rw [if_pos c]
            obtain ⟨r1, r2, r3⟩ := h.release hf
            simp only [Unacked.msg] at r1 r2 r3
            refine ⟨_, ?_, r2, r3, Or.inr ⟨m, n, k, nx, acked, ls, rfl, Or.inr (Or.inl ⟨hb, c, r1, rfl⟩)⟩⟩
            simp only [Res.csub, if_pos r1, Res.bind_ok, Res.pure_eq]
          · rw [if_neg c]
            have hcnt := count_set_true hb
            have hle : (acked.set idx true).count true ≤ (acked.set idx true).length := List.count_le_length
            rw [List.length_set] at hle
            have hv : (Unacked.sliced m n (k + 1) nx (acked.set idx true) ls).OK :=
              ⟨o1, o2, by rw [List.length_set]; exact o3, o4, by omega, by omega⟩
            obtain ⟨r2, r3⟩ := h.replace hf (v := .sliced m n (k + 1) nx (acked.set idx true) ls) ⟨rfl, rfl⟩ hv
            exact ⟨_, rfl, r2, r3, Or.inr ⟨m, n, k, nx, acked, ls, rfl, Or.inr (Or.inr ⟨hb, c, rfl⟩)⟩⟩

/-! #### consequences used at connection level -/

/-- slice `i` of message `id` is stored and not yet acknowledged -/
def SendRel.Pending (s : SendRel) (id i : Nat) : Prop :=
  ∃ m n k nx acked ls, find? s.unacked id = some (.sliced m n k nx acked ls) ∧ acked[i]? = some false

/-- generic description of one acknowledgement step on message `id`:
    other ids untouched, memory never grows and shrinks only by releasing `id` -/
structure SendRel.AckStep (s s' : SendRel) (id : Nat) : Prop where
  others : ∀ id', id' ≠ id → find? s'.unacked id' = find? s.unacked id'
  memLe : s'.mem ≤ s.mem
  memLt : s'.mem < s.mem → (∃ u, find? s.unacked id = some u) ∧ find? s'.unacked id = none
  gone : ∀ id', find? s.unacked id' = none → find? s'.unacked id' = none

theorem SendRel.AckStep.refl (s : SendRel) (id : Nat) : s.AckStep s id :=
  ⟨fun _ _ => rfl, Nat.le_refl _, fun h => absurd h (Nat.lt_irrefl _), fun _ h => h⟩

theorem SendRel.ackStep_release {s : SendRel} (h : s.Inv) {id : Nat} {u : Unacked} (hf : find? s.unacked id = some u) :
    s.AckStep { s with unacked := erase s.unacked id, mem := s.mem - u.msg.length } id := by
  refine ⟨fun id' hne => find?_erase_ne _ (fun e => hne e.symm), by dsimp only; omega,
    fun _ => ⟨⟨u, hf⟩, find?_erase_self _ h.sorted⟩, ?_⟩
  intro id' hn
  dsimp only
  rw [find?_erase h.sorted]
  split
  · rfl
  · exact hn

theorem SendRel.processMessageAck_step {s s' : SendRel} (h : s.Inv) {id : Nat}
    (hk : ∀ u, find? s.unacked id = some u → u.IsSmall) (hr : s.processMessageAck id = .ok s') :
    s.AckStep s' id ∧ (∀ id' i, s.Pending id' i → s'.Pending id' i) := by
  obtain ⟨s2, e, -, -, hd⟩ := SendRel.processMessageAck_spec h id hk
  rw [e] at hr; cases hr
  rcases hd with ⟨-, rfl⟩ | ⟨m, ls, hf, -, rfl⟩
  · exact ⟨SendRel.AckStep.refl _ _, fun _ _ hp => hp⟩
  · refine ⟨SendRel.ackStep_release h hf, ?_⟩
    intro id' i ⟨m', n', k', nx', a', ls', hf', ha'⟩
    have hne : id ≠ id' := by
      intro e; subst e; rw [hf] at hf'; cases hf'
    exact ⟨m', n', k', nx', a', ls', by dsimp only; rw [find?_erase_ne _ hne]; exact hf', ha'⟩

theorem SendRel.processSliceAck_step {s s' : SendRel} (h : s.Inv) {id idx : Nat}
    (hk : ∀ u, find? s.unacked id = some u → u.SliceIdx idx) (hr : s.processSliceAck id idx = .ok s') :
    s.AckStep s' id ∧ (∀ id' i, s.Pending id' i → (id' = id ∧ i = idx) ∨ s'.Pending id' i) := by
  obtain ⟨s2, e, -, -, hd⟩ := SendRel.processSliceAck_spec h id idx hk
  rw [e] at hr; cases hr
  rcases hd with ⟨-, rfl⟩ | ⟨m, n, k, nx, acked, ls, hf, hd⟩
  · exact ⟨SendRel.AckStep.refl _ _, fun _ _ hp => Or.inr hp⟩
  · rcases hd with ⟨-, rfl⟩ | ⟨hb, hkn, -, rfl⟩ | ⟨hb, -, rfl⟩
    · exact ⟨SendRel.AckStep.refl _ _, fun _ _ hp => Or.inr hp⟩
    · refine ⟨SendRel.ackStep_release h hf, ?_⟩
      intro id' i ⟨m', n', k', nx', a', ls', hf', ha'⟩
      by_cases hne : id = id'
      · subst hne
        rw [hf] at hf'; cases hf'
        by_cases hi : i = idx
        · exact Or.inl ⟨rfl, hi⟩
        · -- all slices but `idx` are already acknowledged: `k + 1 = n`
          exfalso
          obtain ⟨o1, o2, o3, o4, o5, o6⟩ := h.find_ok hf
          have hcnt := count_set_true hb
          have hall : (acked.set idx true).count true = (acked.set idx true).length := by
            rw [List.length_set]; omega
          rw [List.count_eq_length] at hall
          have hi' : i < acked.length := (List.getElem?_eq_some_iff.mp ha').1
          have : (acked.set idx true)[i]? = some false := by
            rw [List.getElem?_set_ne (fun e => hi e.symm)]; exact ha'
          have hm := List.mem_of_getElem? this
          have := hall false hm
          cases this
      · exact Or.inr ⟨m', n', k', nx', a', ls', by dsimp only; rw [find?_erase_ne _ hne]; exact hf', ha'⟩
    · refine ⟨⟨?_, Nat.le_refl _, fun hlt => absurd hlt (Nat.lt_irrefl _), ?_⟩, ?_⟩
      · intro id' hne
        exact find?_insert_ne _ _ (fun e => hne e.symm)
      · intro id' hn
        dsimp only
        rw [find?_insert]
        split
        · rename_i e; subst e; rw [hf] at hn; cases hn
        · exact hn
      · intro id' i ⟨m', n', k', nx', a', ls', hf', ha'⟩
        by_cases hne : id = id'
        · subst hne
          rw [hf] at hf'; cases hf'
          by_cases hi : i = idx
          · exact Or.inl ⟨rfl, hi⟩
          · refine Or.inr ⟨m, n, k + 1, nx, acked.set idx true, ls, find?_insert_self _ _ _, ?_⟩
            rw [List.getElem?_set_ne (fun e => hi e.symm)]; exact ha'
        · exact Or.inr ⟨m', n', k', nx', a', ls', by dsimp only; rw [find?_insert_ne _ _ hne]; exact hf', ha'⟩

/-- sending and (re)transmitting never un-marks or drops a pending slice -/
theorem SendRel.sendMessage_pending {s s' : SendRel} {m : Bytes} (h : s.Inv) (hs : s.sendMessage m = .ok s')
    {id i : Nat} (hp : s.Pending id i) : s'.Pending id i := by
  obtain ⟨m', n', k', nx', a', ls', hf', ha'⟩ := hp
  obtain ⟨-, -, -, -, -, hfind⟩ := SendRel.sendMessage_spec h hs
  have : id ≠ s.nextId := by have := h.find_lt hf'; omega
  exact ⟨m', n', k', nx', a', ls', by rw [hfind id this]; exact hf', ha'⟩

theorem MapSim.pending {s s' : SendRel} (hsim : MapSim s.unacked s'.unacked) {id i : Nat} (hp : s.Pending id i) :
    s'.Pending id i := by
  obtain ⟨m', n', k', nx', a', ls', hf', ha'⟩ := hp
  rcases hsim.find id with ⟨h1, _⟩ | ⟨u, u', h1, h2, h3⟩
  · rw [hf'] at h1; cases h1
  · rw [hf'] at h1; cases h1
    cases u' with
    | small => exact h3.elim
    | sliced m2 n2 k2 nx2 a2 ls2 =>
      obtain ⟨rfl, rfl, rfl, rfl, -⟩ := h3
      exact ⟨_, _, _, _, _, _, h2, ha'⟩

/-- `unacked` keys only grow under send / get_packets -/
theorem MapSim.contains {a b : SMap Unacked} (hsim : MapSim a b) (id : Nat) : SMap.contains b id = SMap.contains a id := by
  unfold SMap.contains
  rcases hsim.find id with ⟨h1, h2⟩ | ⟨u, u', h1, h2, _⟩
  · rw [h1, h2]
  · rw [h1, h2]; rfl

end RenetVerif
