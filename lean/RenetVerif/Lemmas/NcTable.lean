/-
  Netcode server (renetcode/src/server.rs) : connection-table invariant, event discipline, handshake
  authentication facts, time-outs (properties C05, C10, C18).

  Part 0  what `Packet.decode` can return (proved locally, no dependency on the wire lemmas)
  Part 1  slot-table / pending-map / token-entry helpers
  Part 2  `NS.Inv`, preserved by every public operation; no operation unwinds under `Inv ∧ Headroom`
-/
import RenetVerif.Netcode.Server
import RenetVerif.Netcode.Client
namespace RenetVerif.Netcode
namespace NS
open RenetVerif

/-! ## Part 0 : `Packet.decode` -/

theorem io?_ok {α} {o : Option α} {x : α} (h : io? o = .ok x) : o = some x := by
  cases o with
  | none => simp [io?] at h
  | some y => simp only [io?, Res.ok.injEq] at h; rw [h]

theorem io?_ne_panic {α} (o : Option α) (m : String) : io? o ≠ .panic m := by
  cases o <;> simp [io?]

theorem readN_some {n : Nat} {src b r : Bytes} (h : readN n src = some (b, r)) :
    b = src.take n ∧ r = src.drop n ∧ n ≤ src.length ∧ b.length = n := by
  unfold readN at h
  split at h
  · cases h
  · simp only [Option.some.injEq, Prod.mk.injEq] at h
    obtain ⟨rfl, rfl⟩ := h
    refine ⟨rfl, rfl, by omega, ?_⟩
    simp [List.length_take]; omega

theorem readU_some {n : Nat} {src r : Bytes} {v : Nat} (h : readU n src = some (v, r)) :
    v = leVal (src.take n) ∧ r = src.drop n ∧ n ≤ src.length := by
  unfold readU at h
  cases hn : readN n src with
  | none => rw [hn] at h; cases h
  | some p =>
    obtain ⟨b, r'⟩ := p
    rw [hn] at h
    simp only [Option.some.injEq, Prod.mk.injEq] at h
    obtain ⟨h1, h2, h3, _⟩ := readN_some hn
    subst h1 h2
    exact ⟨h.1.symm, h.2.symm, h3⟩

/-- the shapes `Packet.read` produces -/
theorem read_ok {ty : PacketType} {src : Bytes} {p : Packet} (h : Packet.read ty src = .ok p) :
    p.packetType = ty ∧
    (∀ v pid e x d, p = .connectionRequest v pid e x d →
        d.length = C.NETCODE_CONNECT_TOKEN_PRIVATE_BYTES ∧ x.length = C.NETCODE_CONNECT_TOKEN_XNONCE_BYTES) ∧
    (∀ s d, p = .response s d → d.length = C.NETCODE_CHALLENGE_TOKEN_BYTES) ∧
    (∀ s d, p = .challenge s d → d.length = C.NETCODE_CHALLENGE_TOKEN_BYTES) := by
  unfold Packet.read at h
  split at h
  · rename_i hty
    cases h; subst hty
    refine ⟨rfl, ?_, ?_, ?_⟩ <;> intros <;> rename_i hh <;> cases hh
  · cases ty with
    | payload => simp at *
    | connectionDenied => simp only [Res.ok.injEq] at h; subst h; simp [Packet.packetType]
    | disconnect => simp only [Res.ok.injEq] at h; subst h; simp [Packet.packetType]
    | connectionRequest =>
      simp only at h
      have h := io?_ok h
      simp only [Option.bind_eq_bind, Option.bind_eq_some_iff, Option.pure_def, Option.some.injEq,
        Prod.exists] at h
      obtain ⟨v, r1, h1, pid, r2, h2, e, r3, h3, x, r4, h4, d, r5, h5, rfl⟩ := h
      refine ⟨rfl, ?_, ?_, ?_⟩
      · intro v' pid' e' x' d' hh
        cases hh
        exact ⟨(readN_some h5).2.2.2, (readN_some h4).2.2.2⟩
      · intro s d hh; cases hh
      · intro s d hh; cases hh
    | challenge =>
      simp only at h
      have h := io?_ok h
      simp only [Option.bind_eq_bind, Option.bind_eq_some_iff, Option.pure_def, Option.some.injEq,
        Prod.exists] at h
      obtain ⟨s, r1, h1, d, r2, h2, rfl⟩ := h
      refine ⟨rfl, ?_, ?_, ?_⟩
      · intro v' pid' e' x' d' hh; cases hh
      · intro s d hh; cases hh
      · intro s' d' hh; cases hh; exact (readN_some h2).2.2.2
    | response =>
      simp only at h
      have h := io?_ok h
      simp only [Option.bind_eq_bind, Option.bind_eq_some_iff, Option.pure_def, Option.some.injEq,
        Prod.exists] at h
      obtain ⟨s, r1, h1, d, r2, h2, rfl⟩ := h
      refine ⟨rfl, ?_, ?_, ?_⟩
      · intro v' pid' e' x' d' hh; cases hh
      · intro s' d' hh; cases hh; exact (readN_some h2).2.2.2
      · intro s d hh; cases hh
    | keepAlive =>
      simp only at h
      have h := io?_ok h
      simp only [Option.bind_eq_bind, Option.bind_eq_some_iff, Option.pure_def, Option.some.injEq,
        Prod.exists] at h
      obtain ⟨i, r1, h1, m, r2, h2, rfl⟩ := h
      refine ⟨rfl, ?_, ?_, ?_⟩ <;> intros <;> rename_i hh <;> cases hh

theorem read_ne_panic (ty : PacketType) (src : Bytes) (m : String) : Packet.read ty src ≠ .panic m := by
  unfold Packet.read
  split
  · simp
  · cases ty <;> simp_all [io?_ne_panic]

theorem fromU8_ne_panic (v : Nat) (m : String) : PacketType.fromU8 v ≠ .panic m := by
  unfold PacketType.fromU8; split <;> simp

theorem readSequence_some {src body : Bytes} {len sq : Nat} (h : Packet.readSequence src len = some (sq, body)) :
    len ≤ 8 ∧ len ≤ src.length ∧ body = src.drop len ∧ sq = leVal (src.take len) := by
  unfold Packet.readSequence at h
  split at h
  · cases h
  · cases hn : readN len src with
    | none => rw [hn] at h; cases h
    | some p =>
      obtain ⟨b, r⟩ := p
      rw [hn] at h
      simp only [Option.some.injEq, Prod.mk.injEq] at h
      obtain ⟨h1, h2, h3, _⟩ := readN_some hn
      subst h1 h2
      exact ⟨by omega, h3, h.2.symm, h.1.symm⟩

/-- what the replay window becomes when a protected packet is accepted -/
def rpAfter (rp : Option RP) (ty : PacketType) (sq : Nat) : Option RP :=
  match rp with
  | some w => if ty.applyReplayProtection then some (w.advance sq) else some w
  | none => none

/-- the duplicate test of `Packet.decode` -/
def dupCheck (rp : Option RP) (ty : PacketType) (sq : Nat) : Bool :=
  match rp with
  | some w => ty.applyReplayProtection && w.alreadyReceived sq
  | none => false

/-- `Packet.decode` with the two window computations named -/
theorem decode_eq (a : AEAD) (buffer : Bytes) (pid : Nat) (key : Option Bytes) (rp : Option RP) :
    Packet.decode a buffer pid key rp =
    if buffer.length < 2 + C.NETCODE_MAC_BYTES then (.err .packetTooSmall, rp) else
    match buffer with
    | [] => (.panic "packet.rs decode: buffer[0]", rp)
    | pfx :: rest =>
      match PacketType.fromU8 (pfx.toNat % 16) with
      | .err e => (.err e, rp)
      | .panic s => (.panic s, rp)
      | .ok ty =>
        if ty = .connectionRequest then
          (do let p ← Packet.read .connectionRequest rest; pure (0, p), rp)
        else match key with
        | none => (.err .unavailablePrivateKey, rp)
        | some key =>
          match Packet.readSequence rest (pfx.toNat / 16) with
          | none => (.err .ioError, rp)
          | some (sequence, body) =>
            if buffer.length < 1 + pfx.toNat / 16 + C.NETCODE_MAC_BYTES then (.err .packetTooSmall, rp) else
            if dupCheck rp ty sequence then (.err .duplicatedSequence, rp) else
            match Packet.openBody a key sequence (Packet.additionalData pfx pid) body with
            | .err e => (.err e, rp)
            | .panic s => (.panic s, rp)
            | .ok plain => (do let p ← Packet.read ty plain; pure (sequence, p), rpAfter rp ty sequence) := by
  unfold Packet.decode dupCheck rpAfter Packet.decodePrefix
  rfl

/-- Everything a successful `Packet.decode` tells: either an (unauthenticated) connection request, or a packet of
    another kind whose body opened under the given key with nonce = its sequence and AAD = version‖protocol‖prefix,
    and, for the replay-protected kinds, whose sequence the window had not seen. -/
theorem decode_ok {a : AEAD} {buffer : Bytes} {pid : Nat} {key : Option Bytes} {rp rp' : Option RP} {sq : Nat}
    {p : Packet} (h : Packet.decode a buffer pid key rp = (.ok (sq, p), rp')) :
    ∃ pfx rest, buffer = pfx :: rest ∧
      ((∃ v pi e x d, p = .connectionRequest v pi e x d ∧ sq = 0 ∧ rp' = rp ∧
          Packet.read .connectionRequest rest = .ok p ∧
          d.length = C.NETCODE_CONNECT_TOKEN_PRIVATE_BYTES) ∨
       (∃ ty k body plain, p.packetType = ty ∧ ty ≠ .connectionRequest ∧ key = some k ∧
          PacketType.fromU8 (pfx.toNat % 16) = .ok ty ∧
          Packet.readSequence rest (pfx.toNat / 16) = some (sq, body) ∧
          (∀ w, rp = some w → ty.applyReplayProtection = true → w.alreadyReceived sq = false) ∧
          a.open k (Packet.nonce sq) (Packet.additionalData pfx pid) body = some plain ∧
          rp' = rpAfter rp ty sq ∧ Packet.read ty plain = .ok p)) := by
  rw [decode_eq] at h
  split at h
  · cases h
  · cases buffer with
    | nil => cases h
    | cons pfx rest =>
      refine ⟨pfx, rest, rfl, ?_⟩
      simp only at h
      cases hty : PacketType.fromU8 (pfx.toNat % 16) with
      | err e => rw [hty] at h; cases h
      | panic m => rw [hty] at h; cases h
      | ok ty =>
        rw [hty] at h
        simp only at h
        split at h
        · -- connection request
          left
          simp only [Prod.mk.injEq] at h
          obtain ⟨h1, h2⟩ := h
          cases hr : Packet.read .connectionRequest rest with
          | err e => rw [hr] at h1; cases h1
          | panic m => rw [hr] at h1; cases h1
          | ok q =>
            rw [hr] at h1
            simp only [Res.bind_ok, Res.pure_eq, Res.ok.injEq, Prod.mk.injEq] at h1
            obtain ⟨rfl, rfl⟩ := h1
            have hq := read_ok hr
            cases q with
            | connectionRequest v pi e x d =>
              exact ⟨v, pi, e, x, d, rfl, rfl, h2.symm, rfl, (hq.2.1 v pi e x d rfl).1⟩
            | _ => simp [Packet.packetType] at hq
        · rename_i hne
          right
          cases key with
          | none => cases h
          | some k =>
            simp only at h
            cases hs : Packet.readSequence rest (pfx.toNat / 16) with
            | none => rw [hs] at h; cases h
            | some sb =>
              obtain ⟨sq0, body⟩ := sb
              rw [hs] at h
              simp only at h
              split at h
              · cases h
              · split at h
                · cases h
                · rename_i hdup
                  cases ho : Packet.openBody a k sq0 (Packet.additionalData pfx pid) body with
                  | err e => rw [ho] at h; cases h
                  | panic m => rw [ho] at h; cases h
                  | ok plain =>
                    rw [ho] at h
                    simp only [Prod.mk.injEq] at h
                    obtain ⟨h1, h2⟩ := h
                    cases hr : Packet.read ty plain with
                    | err e => rw [hr] at h1; cases h1
                    | panic m => rw [hr] at h1; cases h1
                    | ok q =>
                      rw [hr] at h1
                      simp only [Res.bind_ok, Res.pure_eq, Res.ok.injEq, Prod.mk.injEq] at h1
                      obtain ⟨rfl, rfl⟩ := h1
                      refine ⟨ty, k, body, plain, (read_ok hr).1, hne, rfl, rfl, rfl, ?_, ?_, ?_, hr⟩
                      · intro w hw hap
                        subst hw
                        simp only [dupCheck, hap, Bool.true_and] at hdup
                        simpa using hdup
                      · unfold Packet.openBody at ho
                        split at ho
                        · cases ho
                        · split at ho
                          · cases ho; assumption
                          · cases ho
                      · exact h2.symm

/-- `Packet.decode` never unwinds (the two unchecked subtractions are guarded by the length tests before them) -/
theorem decode_ne_panic (a : AEAD) (buffer : Bytes) (pid : Nat) (key : Option Bytes) (rp : Option RP) (m : String) :
    (Packet.decode a buffer pid key rp).1 ≠ .panic m := by
  rw [decode_eq]
  split
  · simp
  · rename_i hlen
    cases buffer with
    | nil => simp [C.NETCODE_MAC_BYTES, RenetVerif.C.NETCODE_MAC_BYTES] at hlen
    | cons pfx rest =>
      simp only
      cases hty : PacketType.fromU8 (pfx.toNat % 16) with
      | err e => simp
      | panic m' => exact absurd hty (fromU8_ne_panic _ _)
      | ok ty =>
        simp only
        split
        · cases hr : Packet.read .connectionRequest rest with
          | err e => simp
          | panic m' => exact absurd hr (read_ne_panic _ _ _)
          | ok q => simp
        · cases key with
          | none => simp
          | some k =>
            simp only
            cases hs : Packet.readSequence rest (pfx.toNat / 16) with
            | none => simp
            | some sb =>
              obtain ⟨sq0, body⟩ := sb
              simp only
              split
              · simp
              · rename_i hl2
                split
                · simp
                · have hb := readSequence_some hs
                  have hbl : ¬ body.length < C.NETCODE_MAC_BYTES := by
                    rw [hb.2.2.1, List.length_drop]
                    simp only [List.length_cons] at hl2
                    omega
                  unfold Packet.openBody
                  rw [if_neg hbl]
                  cases a.open k (Packet.nonce sq0) (Packet.additionalData pfx pid) body with
                  | none => simp
                  | some plain =>
                    simp only
                    cases hr : Packet.read ty plain with
                    | err e => simp
                    | panic m' => exact absurd hr (read_ne_panic _ _ _)
                    | ok q => simp

/-- the window is only ever replaced by a window -/
theorem decode_rp_some (a : AEAD) (buffer : Bytes) (pid : Nat) (key : Option Bytes) (w : RP) :
    ∃ w', (Packet.decode a buffer pid key (some w)).2 = some w' := by
  rw [decode_eq]
  split
  · exact ⟨w, rfl⟩
  · cases buffer with
    | nil => exact ⟨w, rfl⟩
    | cons pfx rest =>
      simp only
      cases PacketType.fromU8 (pfx.toNat % 16) with
      | err e => exact ⟨w, rfl⟩
      | panic m' => exact ⟨w, rfl⟩
      | ok ty =>
        simp only
        split
        · exact ⟨w, rfl⟩
        · cases key with
          | none => exact ⟨w, rfl⟩
          | some k =>
            simp only
            cases Packet.readSequence rest (pfx.toNat / 16) with
            | none => exact ⟨w, rfl⟩
            | some sb =>
              obtain ⟨sq0, body⟩ := sb
              simp only
              split
              · exact ⟨w, rfl⟩
              · split
                · exact ⟨w, rfl⟩
                · cases Packet.openBody a k sq0 (Packet.additionalData pfx pid) body with
                  | err e => exact ⟨w, rfl⟩
                  | panic m' => exact ⟨w, rfl⟩
                  | ok plain =>
                    simp only [rpAfter]
                    split <;> exact ⟨_, rfl⟩

/-- without a key only a connection request decodes -/
theorem decode_nokey_ok {a : AEAD} {buffer : Bytes} {pid : Nat} {rp rp' : Option RP} {sq : Nat} {p : Packet}
    (h : Packet.decode a buffer pid none rp = (.ok (sq, p), rp')) :
    ∃ v pi e x d, p = .connectionRequest v pi e x d ∧ d.length = C.NETCODE_CONNECT_TOKEN_PRIVATE_BYTES := by
  obtain ⟨pfx, rest, _, h | h⟩ := decode_ok h
  · obtain ⟨v, pi, e, x, d, hp, _, _, _, hd⟩ := h
    exact ⟨v, pi, e, x, d, hp, hd⟩
  · obtain ⟨ty, k, body, plain, _, _, hk, _⟩ := h
    cases hk

/-! ## Part 1 : slot table, pending map, token-entry table -/

abbrev Slots := List (Option Connection)

/-- slot `i` holds connection `c` -/
def At (cl : Slots) (i : Nat) (c : Connection) : Prop := cl[i]? = some (some c)

@[simp] theorem at_nil {i : Nat} {c : Connection} : At [] i c ↔ False := by simp [At]
@[simp] theorem at_cons_zero {x : Option Connection} {cl : Slots} {c : Connection} :
    At (x :: cl) 0 c ↔ x = some c := by simp [At]
@[simp] theorem at_cons_succ {x : Option Connection} {cl : Slots} {i : Nat} {c : Connection} :
    At (x :: cl) (i + 1) c ↔ At cl i c := by simp [At]
theorem at_set {cl : Slots} {i j : Nat} {x : Option Connection} {c : Connection} :
    At (cl.set i x) j c ↔ if i = j then (i < cl.length ∧ x = some c) else At cl j c := by
  unfold At; rw [List.getElem?_set]
  by_cases h : i = j
  · subst h
    by_cases h' : i < cl.length
    · simp [h']
    · simp [h']
  · simp [h]
theorem at_set_none {cl : Slots} {i j : Nat} {c : Connection} (h : At (cl.set i none) j c) :
    At cl j c ∧ i ≠ j := by
  rw [at_set] at h
  split at h
  · exact absurd h.2 (by simp)
  · exact ⟨h, by assumption⟩
theorem at_set_some {cl : Slots} {i j : Nat} {c c' : Connection} (h : At (cl.set i (some c')) j c) :
    (i = j ∧ c = c') ∨ (i ≠ j ∧ At cl j c) := by
  rw [at_set] at h
  split at h
  · left; refine ⟨by assumption, ?_⟩; have := h.2; simp at this; exact this.symm
  · right; exact ⟨by assumption, h⟩
theorem at_set_of_ne {cl : Slots} {i j : Nat} {x : Option Connection} {c : Connection} (hne : i ≠ j)
    (h : At cl j c) : At (cl.set i x) j c := by
  rw [at_set, if_neg hne]; exact h
theorem at_set_self {cl : Slots} {i : Nat} {c : Connection} (h : i < cl.length) : At (cl.set i (some c)) i c := by
  rw [at_set, if_pos rfl]; exact ⟨h, rfl⟩
theorem at_lt {cl : Slots} {i : Nat} {c : Connection} (h : At cl i c) : i < cl.length :=
  (List.getElem?_eq_some_iff.mp h).1
theorem at_inj {cl : Slots} {i : Nat} {c c' : Connection} (h : At cl i c) (h' : At cl i c') : c = c' := by
  unfold At at h h'; rw [h] at h'; simpa using h'
theorem at_mem {cl : Slots} {i : Nat} {c : Connection} (h : At cl i c) : some c ∈ cl :=
  List.mem_iff_getElem?.mpr ⟨i, h⟩
theorem mem_at {cl : Slots} {c : Connection} (h : some c ∈ cl) : ∃ i, At cl i c :=
  List.mem_iff_getElem?.mp h

theorem findById_go : ∀ (cl : Slots) (id : Nat),
    (∀ c, findClientById cl id = some c → c.clientId = id ∧ ∃ i, At cl i c) ∧
    (findClientById cl id = none ↔ ∀ i c, At cl i c → c.clientId ≠ id)
  | [], id => by simp [findClientById]
  | none :: rest, id => by
    have ih := findById_go rest id
    simp only [findClientById]
    constructor
    · intro c h
      obtain ⟨h1, i, h2⟩ := ih.1 c h
      exact ⟨h1, i + 1, by simpa using h2⟩
    · rw [ih.2]
      constructor
      · intro h i c hc
        cases i with
        | zero => simp at hc
        | succ i => exact h i c (by simpa using hc)
      · intro h i c hc
        exact h (i + 1) c (by simpa using hc)
  | some c0 :: rest, id => by
    have ih := findById_go rest id
    simp only [findClientById]
    split
    · rename_i heq
      constructor
      · intro c h; cases h; exact ⟨heq, 0, by simp⟩
      · simp only [reduceCtorEq, false_iff]
        intro h; exact h 0 c0 (by simp) heq
    · rename_i hne
      constructor
      · intro c h
        obtain ⟨h1, i, h2⟩ := ih.1 c h
        exact ⟨h1, i + 1, by simpa using h2⟩
      · rw [ih.2]
        constructor
        · intro h i c hc
          cases i with
          | zero => simp at hc; subst hc; exact hne
          | succ i => exact h i c (by simpa using hc)
        · intro h i c hc
          exact h (i + 1) c (by simpa using hc)

theorem findById_some {cl : Slots} {id : Nat} {c : Connection} (h : findClientById cl id = some c) :
    c.clientId = id ∧ ∃ i, At cl i c := (findById_go cl id).1 c h

theorem findById_none {cl : Slots} {id : Nat} :
    findClientById cl id = none ↔ ∀ i c, At cl i c → c.clientId ≠ id := (findById_go cl id).2

theorem findSlot_go : ∀ (cl : Slots) (id k : Nat),
    (∀ i, findClientSlotById.go id cl k = some i → ∃ j c, i = k + j ∧ At cl j c ∧ c.clientId = id ∧
        findClientById cl id = some c) ∧
    (findClientSlotById.go id cl k = none ↔ findClientById cl id = none)
  | [], id, k => by simp [findClientSlotById.go, findClientById]
  | none :: rest, id, k => by
    have ih := findSlot_go rest id (k + 1)
    simp only [findClientSlotById.go, findClientById]
    refine ⟨?_, ih.2⟩
    intro i h
    obtain ⟨j, c, h1, h2, h3, h4⟩ := ih.1 i h
    exact ⟨j + 1, c, by omega, by simpa using h2, h3, h4⟩
  | some c0 :: rest, id, k => by
    have ih := findSlot_go rest id (k + 1)
    simp only [findClientSlotById.go, findClientById]
    split
    · rename_i heq
      constructor
      · intro i h; cases h; exact ⟨0, c0, rfl, by simp, heq, rfl⟩
      · simp
    · refine ⟨?_, ih.2⟩
      intro i h
      obtain ⟨j, c, h1, h2, h3, h4⟩ := ih.1 i h
      exact ⟨j + 1, c, by omega, by simpa using h2, h3, h4⟩

theorem findSlot_some {cl : Slots} {id i : Nat} (h : findClientSlotById cl id = some i) :
    ∃ c, At cl i c ∧ c.clientId = id ∧ findClientById cl id = some c := by
  obtain ⟨j, c, h1, h2, h3, h4⟩ := (findSlot_go cl id 0).1 i h
  have : i = j := by omega
  subst this
  exact ⟨c, h2, h3, h4⟩

theorem findSlot_none {cl : Slots} {id : Nat} :
    findClientSlotById cl id = none ↔ findClientById cl id = none := (findSlot_go cl id 0).2

theorem findSlot_isSome {cl : Slots} {id : Nat} :
    (findClientSlotById cl id).isSome = (findClientById cl id).isSome := by
  cases h : findClientSlotById cl id with
  | none => rw [findSlot_none.mp h]; rfl
  | some i => obtain ⟨c, _, _, h4⟩ := findSlot_some h; rw [h4]; rfl

theorem findAddr_go : ∀ (cl : Slots) (ad : Addr) (k : Nat),
    (∀ i c, findClientByAddr.go ad cl k = some (i, c) → ∃ j, i = k + j ∧ At cl j c ∧ c.addr = ad) ∧
    (findClientByAddr.go ad cl k = none ↔ ∀ i c, At cl i c → c.addr ≠ ad)
  | [], ad, k => by simp [findClientByAddr.go]
  | none :: rest, ad, k => by
    have ih := findAddr_go rest ad (k + 1)
    simp only [findClientByAddr.go]
    constructor
    · intro i c h
      obtain ⟨j, h1, h2, h3⟩ := ih.1 i c h
      exact ⟨j + 1, by omega, by simpa using h2, h3⟩
    · rw [ih.2]
      constructor
      · intro h i c hc
        cases i with
        | zero => simp at hc
        | succ i => exact h i c (by simpa using hc)
      · intro h i c hc
        exact h (i + 1) c (by simpa using hc)
  | some c0 :: rest, ad, k => by
    have ih := findAddr_go rest ad (k + 1)
    simp only [findClientByAddr.go]
    split
    · rename_i heq
      constructor
      · intro i c h
        simp only [Option.some.injEq, Prod.mk.injEq] at h
        obtain ⟨rfl, rfl⟩ := h
        exact ⟨0, rfl, by simp, heq⟩
      · simp only [reduceCtorEq, false_iff]
        intro h; exact h 0 c0 (by simp) heq
    · rename_i hne
      constructor
      · intro i c h
        obtain ⟨j, h1, h2, h3⟩ := ih.1 i c h
        exact ⟨j + 1, by omega, by simpa using h2, h3⟩
      · rw [ih.2]
        constructor
        · intro h i c hc
          cases i with
          | zero => simp at hc; subst hc; exact hne
          | succ i => exact h i c (by simpa using hc)
        · intro h i c hc
          exact h (i + 1) c (by simpa using hc)

theorem findAddr_some {cl : Slots} {ad : Addr} {i : Nat} {c : Connection}
    (h : findClientByAddr cl ad = some (i, c)) : At cl i c ∧ c.addr = ad := by
  obtain ⟨j, h1, h2, h3⟩ := (findAddr_go cl ad 0).1 i c h
  have : i = j := by omega
  subst this
  exact ⟨h2, h3⟩

theorem findAddr_none {cl : Slots} {ad : Addr} :
    findClientByAddr cl ad = none ↔ ∀ i c, At cl i c → c.addr ≠ ad := (findAddr_go cl ad 0).2

theorem firstFree_go : ∀ (cl : Slots) (k : Nat),
    (∀ i, firstFreeSlot.go cl k = some i → ∃ j : Nat, i = k + j ∧ cl[j]? = some none) ∧
    (firstFreeSlot.go cl k = none ↔ ∀ i : Nat, cl[i]? ≠ some none)
  | [], k => by simp [firstFreeSlot.go]
  | none :: rest, k => by
    simp only [firstFreeSlot.go]
    constructor
    · intro i h; cases h; exact ⟨0, rfl, by simp⟩
    · simp only [reduceCtorEq, false_iff]
      intro h; exact h 0 (by simp)
  | some c0 :: rest, k => by
    have ih := firstFree_go rest (k + 1)
    simp only [firstFreeSlot.go]
    constructor
    · intro i h
      obtain ⟨j, h1, h2⟩ := ih.1 i h
      exact ⟨j + 1, by omega, by simpa using h2⟩
    · rw [ih.2]
      constructor
      · intro h i
        cases i with
        | zero => simp
        | succ i => simpa using h i
      · intro h i
        simpa using h (i + 1)

theorem firstFree_some {cl : Slots} {i : Nat} (h : firstFreeSlot cl = some i) : cl[i]? = some none := by
  obtain ⟨j, h1, h2⟩ := (firstFree_go cl 0).1 i h
  have : i = j := by omega
  subst this; exact h2

theorem firstFree_none {cl : Slots} : firstFreeSlot cl = none ↔ ∀ i : Nat, cl[i]? ≠ some none := (firstFree_go cl 0).2

/-- no free slot ⇔ every slot is taken -/
theorem firstFree_none_count {cl : Slots} : firstFreeSlot cl = none ↔ countConnected cl = cl.length := by
  rw [firstFree_none]
  unfold countConnected
  induction cl with
  | nil => simp
  | cons x rest ih =>
    cases x with
    | none =>
      simp only [List.filter_cons, Option.isSome_none, Bool.false_eq_true, if_false, List.length_cons]
      have := List.length_filter_le Option.isSome rest
      constructor
      · intro h; exact absurd (by simp) (h 0)
      · intro h; omega
    | some c =>
      simp only [List.filter_cons, Option.isSome_some, if_true, List.length_cons, Nat.add_right_cancel_iff]
      rw [← ih]
      constructor
      · intro h i; simpa using h (i + 1)
      · intro h i
        cases i with
        | zero => simp
        | succ i => simpa using h i

theorem count_le_length (cl : Slots) : countConnected cl ≤ cl.length := List.length_filter_le _ _

/-- the slot-table part of the invariant: connected sessions have pairwise distinct ids and pairwise distinct
    addresses, and every occupied slot is in state `Connected` -/
structure SlotsOK (cl : Slots) : Prop where
  ids : ∀ i j ci cj, At cl i ci → At cl j cj → ci.clientId = cj.clientId → i = j
  addrs : ∀ i j ci cj, At cl i ci → At cl j cj → ci.addr = cj.addr → i = j
  conn : ∀ i c, At cl i c → c.state = .connected

theorem SlotsOK.replicate (n : Nat) : SlotsOK (List.replicate n none) := by
  have : ∀ i c, ¬ At (List.replicate n none) i c := by
    intro i c h; unfold At at h; rw [List.getElem?_replicate] at h; split at h <;> simp at h
  constructor
  · intro i j ci cj h; exact absurd h (this _ _)
  · intro i j ci cj h; exact absurd h (this _ _)
  · intro i c h; exact absurd h (this _ _)

theorem SlotsOK.set_none {cl : Slots} (h : SlotsOK cl) (i : Nat) : SlotsOK (cl.set i none) := by
  obtain ⟨h1, h2, h3⟩ := h
  constructor
  · intro a b ca cb ha hb; exact h1 a b ca cb (at_set_none ha).1 (at_set_none hb).1
  · intro a b ca cb ha hb; exact h2 a b ca cb (at_set_none ha).1 (at_set_none hb).1
  · intro a c ha; exact h3 a c (at_set_none ha).1

/-- replacing a session by one with the same id, address and state -/
theorem SlotsOK.set_same {cl : Slots} (h : SlotsOK cl) {i : Nat} {c c' : Connection} (hc : At cl i c)
    (hid : c'.clientId = c.clientId) (had : c'.addr = c.addr) (hst : c'.state = .connected) :
    SlotsOK (cl.set i (some c')) := by
  obtain ⟨h1, h2, h3⟩ := h
  constructor
  · intro a b ca cb ha hb he
    rcases at_set_some ha with ⟨e1, rfl⟩ | ⟨e1, ha'⟩ <;> rcases at_set_some hb with ⟨e2, rfl⟩ | ⟨e2, hb'⟩
    · omega
    · subst e1; exact h1 i b c cb hc hb' (by rw [← hid]; exact he)
    · subst e2; exact h1 a i ca c ha' hc (by rw [← hid]; exact he)
    · exact h1 a b ca cb ha' hb' he
  · intro a b ca cb ha hb he
    rcases at_set_some ha with ⟨e1, rfl⟩ | ⟨e1, ha'⟩ <;> rcases at_set_some hb with ⟨e2, rfl⟩ | ⟨e2, hb'⟩
    · omega
    · subst e1; exact h2 i b c cb hc hb' (by rw [← had]; exact he)
    · subst e2; exact h2 a i ca c ha' hc (by rw [← had]; exact he)
    · exact h2 a b ca cb ha' hb' he
  · intro a ca ha
    rcases at_set_some ha with ⟨e1, rfl⟩ | ⟨e1, ha'⟩
    · exact hst
    · exact h3 a ca ha'

/-- placing a new session whose id and address are not in the table -/
theorem SlotsOK.set_new {cl : Slots} (h : SlotsOK cl) {i : Nat} {c : Connection}
    (hid : ∀ j cj, At cl j cj → cj.clientId ≠ c.clientId) (had : ∀ j cj, At cl j cj → cj.addr ≠ c.addr)
    (hst : c.state = .connected) : SlotsOK (cl.set i (some c)) := by
  obtain ⟨h1, h2, h3⟩ := h
  constructor
  · intro a b ca cb ha hb he
    rcases at_set_some ha with ⟨e1, rfl⟩ | ⟨e1, ha'⟩ <;> rcases at_set_some hb with ⟨e2, rfl⟩ | ⟨e2, hb'⟩
    · omega
    · exact absurd he.symm (hid b cb hb')
    · exact absurd he (hid a ca ha')
    · exact h1 a b ca cb ha' hb' he
  · intro a b ca cb ha hb he
    rcases at_set_some ha with ⟨e1, rfl⟩ | ⟨e1, ha'⟩ <;> rcases at_set_some hb with ⟨e2, rfl⟩ | ⟨e2, hb'⟩
    · omega
    · exact absurd he.symm (had b cb hb')
    · exact absurd he (had a ca ha')
    · exact h2 a b ca cb ha' hb' he
  · intro a ca ha
    rcases at_set_some ha with ⟨e1, rfl⟩ | ⟨e1, ha'⟩
    · exact hst
    · exact h3 a ca ha'

theorem at_append_none {cl : Slots} {n i : Nat} {c : Connection} :
    At (cl ++ List.replicate n none) i c ↔ At cl i c := by
  unfold At
  rw [List.getElem?_append]
  split
  · rfl
  · rename_i h
    simp only [List.getElem?_replicate]
    constructor
    · intro h'; split at h' <;> cases h'
    · intro h'
      have := (List.getElem?_eq_some_iff.mp h').1
      omega

theorem SlotsOK.append_none {cl : Slots} (h : SlotsOK cl) (n : Nat) : SlotsOK (cl ++ List.replicate n none) := by
  obtain ⟨h1, h2, h3⟩ := h
  constructor
  · intro a b ca cb ha hb; exact h1 a b ca cb (at_append_none.mp ha) (at_append_none.mp hb)
  · intro a b ca cb ha hb; exact h2 a b ca cb (at_append_none.mp ha) (at_append_none.mp hb)
  · intro a c ha; exact h3 a c (at_append_none.mp ha)

/-- under `SlotsOK` the lookups find *the* session with that id / address -/
theorem SlotsOK.findById_iff {cl : Slots} (h : SlotsOK cl) {id : Nat} {c : Connection} :
    findClientById cl id = some c ↔ c.clientId = id ∧ ∃ i, At cl i c := by
  constructor
  · exact findById_some
  · rintro ⟨hid, i, hi⟩
    cases hf : findClientById cl id with
    | none => exact absurd hid (findById_none.mp hf i c hi)
    | some c' =>
      obtain ⟨h1, j, hj⟩ := findById_some hf
      have : j = i := h.ids j i c' c hj hi (by rw [h1, hid])
      subst this
      unfold At at hi hj
      rw [hi] at hj
      simp only [Option.some.injEq] at hj
      rw [hj]

theorem SlotsOK.findAddr_iff {cl : Slots} (h : SlotsOK cl) {ad : Addr} {i : Nat} {c : Connection} :
    findClientByAddr cl ad = some (i, c) ↔ c.addr = ad ∧ At cl i c := by
  constructor
  · intro hf; exact ⟨(findAddr_some hf).2, (findAddr_some hf).1⟩
  · rintro ⟨had, hi⟩
    cases hf : findClientByAddr cl ad with
    | none => exact absurd had (findAddr_none.mp hf i c hi)
    | some p =>
      obtain ⟨j, c'⟩ := p
      obtain ⟨hj, h1⟩ := findAddr_some hf
      have : j = i := h.addrs j i c' c hj hi (by rw [h1, had])
      subst this
      unfold At at hi hj
      rw [hi] at hj
      simp only [Option.some.injEq] at hj
      rw [hj]

theorem SlotsOK.findSlot_iff {cl : Slots} (h : SlotsOK cl) {id i : Nat} :
    findClientSlotById cl id = some i ↔ ∃ c, At cl i c ∧ c.clientId = id := by
  constructor
  · intro hf; obtain ⟨c, h1, h2, _⟩ := findSlot_some hf; exact ⟨c, h1, h2⟩
  · rintro ⟨c, hi, hid⟩
    cases hf : findClientSlotById cl id with
    | none => exact absurd hid (findById_none.mp (findSlot_none.mp hf) i c hi)
    | some j =>
      obtain ⟨c', h1, h2, _⟩ := findSlot_some hf
      rw [h.ids j i c' c h1 hi (by rw [h2, hid])]

/-! ### pending map -/

abbrev Pending := List (Addr × Connection)

theorem pendingFind_mem : ∀ {m : Pending} {ad : Addr} {c : Connection}, pendingFind m ad = some c → (ad, c) ∈ m
  | [], _, _, h => by simp [pendingFind] at h
  | (a0, c0) :: rest, ad, c, h => by
    simp only [pendingFind] at h
    split at h
    · rename_i he; cases h; subst he; simp
    · exact List.mem_cons_of_mem _ (pendingFind_mem h)

theorem pendingFind_none : ∀ {m : Pending} {ad : Addr}, pendingFind m ad = none ↔ ∀ p ∈ m, p.1 ≠ ad
  | [], _ => by simp [pendingFind]
  | (a0, c0) :: rest, ad => by
    simp only [pendingFind]
    split
    · rename_i he
      simp only [reduceCtorEq, false_iff]
      intro h; exact h (a0, c0) (by simp) he
    · rename_i hne
      rw [pendingFind_none (m := rest)]
      simp only [List.mem_cons, forall_eq_or_imp]
      exact ⟨fun h => ⟨hne, h⟩, fun h => h.2⟩

theorem mem_pendingSet : ∀ {m : Pending} {ad : Addr} {c : Connection} {p : Addr × Connection},
    p ∈ pendingSet m ad c → p = (ad, c) ∨ (p ∈ m ∧ p.1 ≠ ad) ∨ (p ∈ m ∧ ∃ q ∈ m, q.1 = ad)
  | [], ad, c, p, h => by simp [pendingSet] at h; exact Or.inl h
  | (a0, c0) :: rest, ad, c, p, h => by
    simp only [pendingSet] at h
    split at h
    · rename_i he
      simp only [List.mem_cons] at h
      rcases h with h | h
      · left; rw [h, he]
      · right; right; exact ⟨List.mem_cons_of_mem _ h, (a0, c0), by simp, he⟩
    · rename_i hne
      simp only [List.mem_cons] at h
      rcases h with h | h
      · right; left; subst h; exact ⟨by simp, hne⟩
      · rcases mem_pendingSet h with h | ⟨h, h'⟩ | ⟨h, q, hq, hq'⟩
        · exact Or.inl h
        · exact Or.inr (Or.inl ⟨List.mem_cons_of_mem _ h, h'⟩)
        · exact Or.inr (Or.inr ⟨List.mem_cons_of_mem _ h, q, List.mem_cons_of_mem _ hq, hq'⟩)

theorem mem_pendingSet' {m : Pending} {ad : Addr} {c : Connection} {p : Addr × Connection}
    (h : p ∈ pendingSet m ad c) : p = (ad, c) ∨ p ∈ m := by
  rcases mem_pendingSet h with h | h | h
  · exact Or.inl h
  · exact Or.inr h.1
  · exact Or.inr h.1

theorem keys_pendingSet : ∀ (m : Pending) (ad : Addr) (c : Connection),
    (pendingSet m ad c).map (·.1) = if ad ∈ m.map (·.1) then m.map (·.1) else m.map (·.1) ++ [ad]
  | [], ad, c => by simp [pendingSet]
  | (a0, c0) :: rest, ad, c => by
    simp only [pendingSet]
    split
    · rename_i he; subst he; simp
    · rename_i hne
      have ih := keys_pendingSet rest ad c
      simp only [List.map_cons, ih, List.mem_cons]
      have : ¬ ad = a0 := fun e => hne e.symm
      simp only [this, false_or]
      split <;> simp

theorem pendingFind_set (m : Pending) (ad : Addr) (c : Connection) (x : Addr) :
    pendingFind (pendingSet m ad c) x = if x = ad then some c else pendingFind m x := by
  induction m with
  | nil =>
    simp only [pendingSet, pendingFind]
    by_cases h : x = ad
    · simp [h]
    · have : ¬ ad = x := fun e => h e.symm
      simp [h, this]
  | cons p rest ih =>
    obtain ⟨a0, c0⟩ := p
    simp only [pendingSet]
    split
    · rename_i he; subst he
      simp only [pendingFind]
      by_cases h : x = a0
      · subst h; simp
      · have : ¬ a0 = x := fun e => h e.symm
        simp [h, this]
    · rename_i hne
      simp only [pendingFind, ih]
      by_cases h : a0 = x
      · subst h; simp [hne]
      · simp [h]

theorem pendingFind_filter_ne (m : Pending) (ad x : Addr) :
    pendingFind (pendingRemove m ad) x = if x = ad then none else pendingFind m x := by
  unfold pendingRemove
  induction m with
  | nil => simp [pendingFind]
  | cons p rest ih =>
    obtain ⟨a0, c0⟩ := p
    simp only [List.filter_cons]
    by_cases h0 : a0 = ad
    · subst h0
      simp only [ne_eq, not_true_eq_false, decide_false, Bool.false_eq_true, if_false, ih, pendingFind]
      by_cases h : x = a0
      · simp [h]
      · have : ¬ a0 = x := fun e => h e.symm
        simp [h, this]
    · simp only [ne_eq, h0, not_false_eq_true, decide_true, if_true, pendingFind, ih]
      by_cases h : a0 = x
      · subst h; simp [h0]
      · simp [h]

theorem mem_pendingRemove {m : Pending} {ad : Addr} {p : Addr × Connection} :
    p ∈ pendingRemove m ad ↔ p ∈ m ∧ p.1 ≠ ad := by
  unfold pendingRemove; simp

theorem pendingSet_length_le (m : Pending) (ad : Addr) (c : Connection) :
    (pendingSet m ad c).length = if (pendingFind m ad).isSome then m.length else m.length + 1 := by
  induction m with
  | nil => simp [pendingSet, pendingFind]
  | cons p rest ih =>
    obtain ⟨a0, c0⟩ := p
    simp only [pendingSet, pendingFind]
    split
    · simp
    · simp only [List.length_cons, ih]; split <;> rfl

/-! ### token-entry table -/

abbrev Entries := List (Option ConnectTokenEntry)

/-- the MACs recorded in the table are pairwise distinct (an entry is only written when no entry has its MAC) -/
def EntriesOK (es : Entries) : Prop :=
  ∀ (i j : Nat) ei ej, es[i]? = some (some ei) → es[j]? = some (some ej) → ei.mac = ej.mac → i = j

theorem scanEntries_spec (mac : Bytes) : ∀ (es : Entries) (k : Nat) (st : NetcodeServer.EntryScan),
    (∀ e, (NetcodeServer.scanEntries mac es k st).matchingEntry = some e →
        st.matchingEntry = some e ∨ (some e ∈ es ∧ e.mac = mac)) ∧
    ((NetcodeServer.scanEntries mac es k st).matchingEntry = none →
        st.matchingEntry = none ∧ ∀ e, some e ∈ es → e.mac ≠ mac)
  | [], k, st => by simp [NetcodeServer.scanEntries]
  | none :: rest, k, st => by
    have ih := scanEntries_spec mac rest (k + 1)
    simp only [NetcodeServer.scanEntries]
    split
    · have ih := ih { st with emptyEntry := true, oldestEntry := k }
      refine ⟨fun e he => ?_, fun hn => ?_⟩
      · rcases ih.1 e he with h | h
        · exact Or.inl h
        · exact Or.inr ⟨List.mem_cons_of_mem _ h.1, h.2⟩
      · obtain ⟨h1, h2⟩ := ih.2 hn
        exact ⟨h1, fun e he => by simp at he; exact h2 e he⟩
    · have ih := ih st
      refine ⟨fun e he => ?_, fun hn => ?_⟩
      · rcases ih.1 e he with h | h
        · exact Or.inl h
        · exact Or.inr ⟨List.mem_cons_of_mem _ h.1, h.2⟩
      · obtain ⟨h1, h2⟩ := ih.2 hn
        exact ⟨h1, fun e he => by simp at he; exact h2 e he⟩
  | some e0 :: rest, k, st => by
    have ih := scanEntries_spec mac rest (k + 1)
    simp only [NetcodeServer.scanEntries]
    by_cases hm : e0.mac = mac
    · simp only [hm, if_true]
      split
      · have ih := ih { st with matchingEntry := some e0, oldestEntry := k, min := e0.time }
        refine ⟨fun e he => ?_, fun hn => ?_⟩
        · rcases ih.1 e he with h | h
          · simp only [Option.some.injEq] at h; subst h; exact Or.inr ⟨by simp, hm⟩
          · exact Or.inr ⟨List.mem_cons_of_mem _ h.1, h.2⟩
        · exact absurd (ih.2 hn).1 (by simp)
      · have ih := ih { st with matchingEntry := some e0 }
        refine ⟨fun e he => ?_, fun hn => ?_⟩
        · rcases ih.1 e he with h | h
          · simp only [Option.some.injEq] at h; subst h; exact Or.inr ⟨by simp, hm⟩
          · exact Or.inr ⟨List.mem_cons_of_mem _ h.1, h.2⟩
        · exact absurd (ih.2 hn).1 (by simp)
    · simp only [hm, if_false]
      split
      · have ih := ih { st with oldestEntry := k, min := e0.time }
        refine ⟨fun e he => ?_, fun hn => ?_⟩
        · rcases ih.1 e he with h | h
          · exact Or.inl h
          · exact Or.inr ⟨List.mem_cons_of_mem _ h.1, h.2⟩
        · obtain ⟨h1, h2⟩ := ih.2 hn
          refine ⟨h1, fun e he => ?_⟩
          simp only [List.mem_cons, Option.some.injEq] at he
          rcases he with rfl | he
          · exact hm
          · exact h2 e he
      · have ih := ih st
        refine ⟨fun e he => ?_, fun hn => ?_⟩
        · rcases ih.1 e he with h | h
          · exact Or.inl h
          · exact Or.inr ⟨List.mem_cons_of_mem _ h.1, h.2⟩
        · obtain ⟨h1, h2⟩ := ih.2 hn
          refine ⟨h1, fun e he => ?_⟩
          simp only [List.mem_cons, Option.some.injEq] at he
          rcases he with rfl | he
          · exact hm
          · exact h2 e he

/-- `find_or_add_connect_token_entry`: either an entry with this MAC exists (table untouched; the answer is whether its
    address is the caller's), or none exists and the new entry is written over some index (answer `true`). -/
theorem findOrAdd_spec (s : NetcodeServer) (ne : ConnectTokenEntry) :
    (∃ e, some e ∈ s.connectTokenEntries ∧ e.mac = ne.mac ∧
        s.findOrAddConnectTokenEntry ne = (s, decide (e.address = ne.address))) ∨
    ((∀ e, some e ∈ s.connectTokenEntries → e.mac ≠ ne.mac) ∧
      ∃ k, s.findOrAddConnectTokenEntry ne = ({ s with connectTokenEntries := s.connectTokenEntries.set k (some ne) }, true)) := by
  have hs := scanEntries_spec ne.mac s.connectTokenEntries 0 ⟨DURATION_MAX, 0, false, none⟩
  unfold NetcodeServer.findOrAddConnectTokenEntry
  simp only
  cases hm : (NetcodeServer.scanEntries ne.mac s.connectTokenEntries 0 ⟨DURATION_MAX, 0, false, none⟩).matchingEntry with
  | some e =>
    left
    rcases hs.1 e hm with h | h
    · cases h
    · exact ⟨e, h.1, h.2, rfl⟩
  | none =>
    right
    exact ⟨(hs.2 hm).2, _, rfl⟩

theorem EntriesOK.set {es : Entries} (h : EntriesOK es) {ne : ConnectTokenEntry} (k : Nat)
    (hn : ∀ e, some e ∈ es → e.mac ≠ ne.mac) : EntriesOK (es.set k (some ne)) := by
  intro i j ei ej hi hj he
  rw [List.getElem?_set] at hi hj
  by_cases e1 : k = i <;> by_cases e2 : k = j
  · omega
  · rw [if_pos e1] at hi; rw [if_neg e2] at hj
    split at hi
    · cases hi
      exact absurd he.symm (hn ej (List.mem_iff_getElem?.mpr ⟨j, hj⟩))
    · cases hi
  · rw [if_neg e1] at hi; rw [if_pos e2] at hj
    split at hj
    · cases hj
      exact absurd he (hn ei (List.mem_iff_getElem?.mpr ⟨i, hi⟩))
    · cases hj
  · rw [if_neg e1] at hi; rw [if_neg e2] at hj
    exact h i j ei ej hi hj he

theorem EntriesOK.replicate (n : Nat) : EntriesOK (List.replicate n none) := by
  intro i j ei ej hi
  rw [List.getElem?_replicate] at hi
  split at hi <;> simp at hi

/-- under `EntriesOK`, a recorded MAC with another address makes the check fail -/
theorem findOrAdd_other_addr {s : NetcodeServer} (h : EntriesOK s.connectTokenEntries) {ne e : ConnectTokenEntry}
    (he : some e ∈ s.connectTokenEntries) (hm : e.mac = ne.mac) (ha : e.address ≠ ne.address) :
    s.findOrAddConnectTokenEntry ne = (s, false) := by
  rcases findOrAdd_spec s ne with ⟨e', he', hm', heq⟩ | ⟨hn, _⟩
  · obtain ⟨i, hi⟩ := List.mem_iff_getElem?.mp he
    obtain ⟨j, hj⟩ := List.mem_iff_getElem?.mp he'
    have : i = j := h i j e e' hi hj (by rw [hm, hm'])
    subst this
    rw [hi] at hj
    simp only [Option.some.injEq] at hj
    subst hj
    rw [heq]; simp [ha]
  · exact absurd hm (hn e he)

/-! ## Part 2 : the server invariant -/

/-- what identifies a session: everything fixed at the handshake (all of it sealed in the connect token, except the
    address the request came from) -/
structure Ident where
  clientId : Nat
  addr : Addr
  userData : Bytes
  sendKey : Bytes
  receiveKey : Bytes
  timeoutSeconds : Int
  expireTimestamp : Nat
  deriving DecidableEq, Repr

def ident (c : Connection) : Ident :=
  ⟨c.clientId, c.addr, c.userData, c.sendKey, c.receiveKey, c.timeoutSeconds, c.expireTimestamp⟩

/-- the sessions of a slot table (slot order) -/
def sessions (cl : Slots) : List (Option Ident) := cl.map (Option.map ident)

/-- timer sanity of one connection: its timers are not in the future, its timeout fits an `i32` -/
structure ConnOK (now : Nat) (c : Connection) : Prop where
  recv : c.lastPacketReceivedTime ≤ now
  send : c.lastPacketSendTime ≤ now
  tmo : c.timeoutSeconds < 2 ^ 31

theorem ConnOK.mono {now now' : Nat} {c : Connection} (h : ConnOK now c) (hle : now ≤ now') : ConnOK now' c :=
  ⟨Nat.le_trans h.recv hle, Nat.le_trans h.send hle, h.tmo⟩

/-- what holds of one half-open session stored under key `ad` -/
structure PendOK (cl : Slots) (now : Nat) (ad : Addr) (c : Connection) : Prop where
  key : c.addr = ad
  state : c.state = .pendingResponse
  seq : c.sequence = 0
  ok : ConnOK now c
  fresh : ∀ i c', At cl i c' → c'.addr ≠ ad

/-- The connection-table invariant of `NetcodeServer`. -/
structure ServerInv (s : NetcodeServer) : Prop where
  /-- connected sessions: pairwise distinct ids, pairwise distinct addresses, all in state `Connected` -/
  slots : SlotsOK s.clients
  slotsOK : ∀ i c, At s.clients i c → ConnOK s.currentTime c
  /-- half-open sessions: keyed by their own address, in state `PendingResponse`, never a connected address -/
  pend : ∀ p ∈ s.pendingClients, PendOK s.clients s.currentTime p.1 p.2
  /-- the association list is a map -/
  pendKeys : (s.pendingClients.map (·.1)).Nodup
  pendLen : s.pendingClients.length ≤ C.NETCODE_MAX_PENDING_CLIENTS
  /-- the token-entry table is not empty (`NetcodeServer::new` makes it `NETCODE_TOKEN_ENTRIES` long and no operation
      changes its length: `TableLen`, `step_tableLen`) -/
  entriesPos : 0 < s.connectTokenEntries.length
  entries : EntriesOK s.connectTokenEntries
  /-- `set_max_clients` may grow the slot list, it never shrinks it -/
  maxLe : s.maxClients ≤ s.clients.length
  lenLe : s.clients.length ≤ C.NETCODE_MAX_CLIENTS

/-- Room left in the counters the debug build checks: the three kinds of `u64` sequence numbers and the clock. -/
structure Headroom (s : NetcodeServer) : Prop where
  global : s.globalSequence < U64_MAX
  challenge : s.challengeSequence < U64_MAX
  seqs : ∀ i c, At s.clients i c → c.sequence < U64_MAX
  clock : s.currentTime + fromSecs (2 ^ 31) ≤ DURATION_MAX

/-- `ServerInv` only reads five fields -/
theorem ServerInv.congr {s s' : NetcodeServer} (h : ServerInv s) (e1 : s'.clients = s.clients)
    (e2 : s'.pendingClients = s.pendingClients) (e3 : s'.connectTokenEntries = s.connectTokenEntries)
    (e4 : s'.maxClients = s.maxClients) (e5 : s'.currentTime = s.currentTime) : ServerInv s' := by
  obtain ⟨h1, h2, h3, h4, h5, h6, h7, h8, h9⟩ := h
  constructor
  · rw [e1]; exact h1
  · rw [e1, e5]; exact h2
  · rw [e1, e2, e5]; exact h3
  · rw [e2]; exact h4
  · rw [e2]; exact h5
  · rw [e3]; exact h6
  · rw [e3]; exact h7
  · rw [e1, e4]; exact h8
  · rw [e1]; exact h9

theorem at_sessions {cl cl' : Slots} (h : sessions cl' = sessions cl) {i : Nat} {c' : Connection}
    (hc : At cl' i c') : ∃ c, At cl i c ∧ ident c = ident c' := by
  unfold At at hc
  have h1 : (sessions cl')[i]? = some (some (ident c')) := by simp [sessions, hc]
  rw [h] at h1
  simp only [sessions, List.getElem?_map, Option.map_eq_some_iff] at h1
  obtain ⟨x, hx, hx'⟩ := h1
  cases x with
  | none => simp at hx'
  | some c => simp at hx'; exact ⟨c, hx, hx'⟩

theorem ident_id {c c' : Connection} (h : ident c = ident c') : c.clientId = c'.clientId := by
  simp only [ident, Ident.mk.injEq] at h; exact h.1
theorem ident_addr {c c' : Connection} (h : ident c = ident c') : c.addr = c'.addr := by
  simp only [ident, Ident.mk.injEq] at h; exact h.2.1
theorem ident_tmo {c c' : Connection} (h : ident c = ident c') : c.timeoutSeconds = c'.timeoutSeconds := by
  simp only [ident, Ident.mk.injEq] at h; exact h.2.2.2.2.2.1

theorem sessions_set (cl : Slots) (i : Nat) (x : Option Connection) :
    sessions (cl.set i x) = (sessions cl).set i (x.map ident) := by
  simp [sessions, List.map_set]

/-- overwriting a slot with a connection of the same identity leaves the sessions as they are -/
theorem sessions_set_same {cl : Slots} {i : Nat} {c c' : Connection} (hc : At cl i c) (hi : ident c' = ident c) :
    sessions (cl.set i (some c')) = sessions cl := by
  rw [sessions_set]
  apply List.ext_getElem?
  intro j
  rw [List.getElem?_set]
  split
  · rename_i e; subst e
    have : (sessions cl)[i]? = some (some (ident c)) := by
      unfold At at hc; simp [sessions, hc]
    rw [this, if_pos (List.getElem?_eq_some_iff.mp this).1, Option.map_some, hi]
  · rfl

theorem sessions_length (cl : Slots) : (sessions cl).length = cl.length := by simp [sessions]

/-- replace the connection in an occupied slot by one with the same identity -/
theorem ServerInv.refreshSlot {s : NetcodeServer} (h : ServerInv s) {i : Nat} {c c' : Connection}
    (hc : At s.clients i c) (hi : ident c' = ident c) (hst : c'.state = .connected)
    (hok : ConnOK s.currentTime c') : ServerInv { s with clients := s.clients.set i (some c') } := by
  obtain ⟨h1, h2, h3, h4, h5, h6, h7, h8, h9⟩ := h
  constructor
  · exact h1.set_same hc (ident_id hi) (ident_addr hi) hst
  · intro j cj hj
    rcases at_set_some hj with ⟨_, rfl⟩ | ⟨_, hj'⟩
    · exact hok
    · exact h2 j cj hj'
  · intro p hp
    obtain ⟨a1, a2, a3, a4, a5⟩ := h3 p hp
    refine ⟨a1, a2, a3, a4, ?_⟩
    intro j cj hj
    rcases at_set_some hj with ⟨_, rfl⟩ | ⟨_, hj'⟩
    · rw [ident_addr hi]; exact a5 i c hc
    · exact a5 j cj hj'
  · exact h4
  · exact h5
  · exact h6
  · exact h7
  · show s.maxClients ≤ (s.clients.set i (some c')).length
    rw [List.length_set]; exact h8
  · show (s.clients.set i (some c')).length ≤ _
    rw [List.length_set]; exact h9

/-- free a slot -/
theorem ServerInv.dropSlot {s : NetcodeServer} (h : ServerInv s) (i : Nat) :
    ServerInv { s with clients := s.clients.set i none } := by
  obtain ⟨h1, h2, h3, h4, h5, h6, h7, h8, h9⟩ := h
  constructor
  · exact h1.set_none i
  · intro j cj hj; exact h2 j cj (at_set_none hj).1
  · intro p hp
    obtain ⟨a1, a2, a3, a4, a5⟩ := h3 p hp
    exact ⟨a1, a2, a3, a4, fun j cj hj => a5 j cj (at_set_none hj).1⟩
  · exact h4
  · exact h5
  · exact h6
  · exact h7
  · show s.maxClients ≤ (s.clients.set i none).length
    rw [List.length_set]; exact h8
  · show (s.clients.set i none).length ≤ _
    rw [List.length_set]; exact h9

theorem nodup_keys_pendingSet {m : Pending} (h : (m.map (·.1)).Nodup) (ad : Addr) (c : Connection) :
    ((pendingSet m ad c).map (·.1)).Nodup := by
  rw [keys_pendingSet]
  split
  · exact h
  · rename_i hn
    rw [List.nodup_append]
    refine ⟨h, by simp, ?_⟩
    intro a ha b hb
    simp only [List.mem_singleton] at hb
    subst hb
    intro e; subst e; exact hn ha

theorem pendingFind_isSome_iff {m : Pending} {ad : Addr} : (pendingFind m ad).isSome ↔ ad ∈ m.map (·.1) := by
  cases h : pendingFind m ad with
  | none =>
    simp only [Option.isSome_none, Bool.false_eq_true, false_iff, List.mem_map, not_exists, not_and]
    intro p hp; exact pendingFind_none.mp h p hp
  | some c =>
    simp only [Option.isSome_some, true_iff, List.mem_map]
    exact ⟨(ad, c), pendingFind_mem h, rfl⟩

/-- insert / replace a half-open session -/
theorem ServerInv.setPending {s : NetcodeServer} (h : ServerInv s) {ad : Addr} {c : Connection}
    (hc : PendOK s.clients s.currentTime ad c)
    (hroom : (pendingFind s.pendingClients ad).isSome ∨ s.pendingClients.length < C.NETCODE_MAX_PENDING_CLIENTS) :
    ServerInv { s with pendingClients := pendingSet s.pendingClients ad c } := by
  obtain ⟨h1, h2, h3, h4, h5, h6, h7, h8, h9⟩ := h
  refine ⟨h1, h2, ?_, nodup_keys_pendingSet h4 ad c, ?_, h6, h7, h8, h9⟩
  · intro p hp
    rcases mem_pendingSet' hp with rfl | hp
    · exact hc
    · exact h3 p hp
  · show (pendingSet s.pendingClients ad c).length ≤ _
    rw [pendingSet_length_le]
    split
    · exact h5
    · rename_i hn
      rcases hroom with h | h
      · exact absurd h hn
      · omega

theorem nodup_keys_filter {m : Pending} (h : (m.map (·.1)).Nodup) (f : Addr × Connection → Bool) :
    ((m.filter f).map (·.1)).Nodup := by
  induction m with
  | nil => simp
  | cons p rest ih =>
    simp only [List.map_cons, List.nodup_cons] at h
    simp only [List.filter_cons]
    split
    · simp only [List.map_cons, List.nodup_cons]
      refine ⟨?_, ih h.2⟩
      intro hm
      apply h.1
      simp only [List.mem_map, List.mem_filter] at hm ⊢
      obtain ⟨q, ⟨hq, _⟩, e⟩ := hm
      exact ⟨q, hq, e⟩
    · exact ih h.2

/-- drop half-open sessions (by address, or by expiry) -/
theorem ServerInv.filterPending {s : NetcodeServer} (h : ServerInv s) (f : Addr × Connection → Bool) :
    ServerInv { s with pendingClients := s.pendingClients.filter f } := by
  obtain ⟨h1, h2, h3, h4, h5, h6, h7, h8, h9⟩ := h
  refine ⟨h1, h2, ?_, nodup_keys_filter h4 f, ?_, h6, h7, h8, h9⟩
  · intro p hp
    exact h3 p (List.mem_filter.mp hp).1
  · exact Nat.le_trans (List.length_filter_le _ _) h5

theorem ServerInv.removePending {s : NetcodeServer} (h : ServerInv s) (ad : Addr) :
    ServerInv { s with pendingClients := pendingRemove s.pendingClients ad } := ServerInv.filterPending h _

/-- write a token entry whose MAC is not in the table -/
theorem ServerInv.setEntry {s : NetcodeServer} (h : ServerInv s) (k : Nat) {ne : ConnectTokenEntry}
    (hn : ∀ e, some e ∈ s.connectTokenEntries → e.mac ≠ ne.mac) :
    ServerInv { s with connectTokenEntries := s.connectTokenEntries.set k (some ne) } := by
  obtain ⟨h1, h2, h3, h4, h5, h6, h7, h8, h9⟩ := h
  refine ⟨h1, h2, h3, h4, h5, ?_, h7.set k hn, h8, h9⟩
  show 0 < (s.connectTokenEntries.set k (some ne)).length
  rw [List.length_set]; exact h6

/-- the half-open session of `ad` becomes connected in slot `i` -/
theorem ServerInv.connect {s : NetcodeServer} (h : ServerInv s) {ad : Addr} {i : Nat} {c : Connection}
    (hid : ∀ j cj, At s.clients j cj → cj.clientId ≠ c.clientId)
    (had : ∀ j cj, At s.clients j cj → cj.addr ≠ ad) (hca : c.addr = ad) (hst : c.state = .connected)
    (hok : ConnOK s.currentTime c) :
    ServerInv { s with pendingClients := pendingRemove s.pendingClients ad, clients := s.clients.set i (some c) } := by
  obtain ⟨h1, h2, h3, h4, h5, h6, h7, h8, h9⟩ := h
  constructor
  · exact h1.set_new hid (by rw [hca]; exact had) hst
  · intro j cj hj
    rcases at_set_some hj with ⟨_, rfl⟩ | ⟨_, hj'⟩
    · exact hok
    · exact h2 j cj hj'
  · intro p hp
    obtain ⟨hp1, hp2⟩ := mem_pendingRemove.mp hp
    obtain ⟨a1, a2, a3, a4, a5⟩ := h3 p hp1
    refine ⟨a1, a2, a3, a4, ?_⟩
    intro j cj hj
    rcases at_set_some hj with ⟨_, rfl⟩ | ⟨_, hj'⟩
    · rw [hca]; exact fun e => hp2 e.symm
    · exact a5 j cj hj'
  · exact nodup_keys_filter h4 _
  · exact Nat.le_trans (List.length_filter_le _ _) h5
  · exact h6
  · exact h7
  · show s.maxClients ≤ (s.clients.set i (some c)).length
    rw [List.length_set]; exact h8
  · show (s.clients.set i (some c)).length ≤ _
    rw [List.length_set]; exact h9

/-! ### the operations other than `process_packet` -/

/-- `Res.bind_ok` / `Res.pure_eq` as ordinary rewrite rules.  (The originals are `rfl`-lemmas; `simp` then leaves the
    step to the kernel's definitional unfolding, which may run into `incU64 x …` / `x + 250000000` and unfold the
    literal in unary.) -/
theorem bind_ok' {ε α β} (a : α) (f : α → Res ε β) : (Res.ok a >>= f) = f a := Res.bind_ok a f
theorem pure_eq' {ε α} (a : α) : (pure a : Res ε α) = .ok a := Res.pure_eq a
theorem bind_err' {ε α β} (e : ε) (f : α → Res ε β) : (Res.err e >>= f) = Res.err e := Res.bind_err e f
theorem bind_panic' {ε α β} (m : String) (f : α → Res ε β) : (Res.panic m >>= f) = Res.panic m := Res.bind_panic m f

theorem bind_ne_panic {ε α β} {x : Res ε α} {f : α → Res ε β} {m : String}
    (hx : x ≠ .panic m) (hf : ∀ a, f a ≠ .panic m) : (x >>= f) ≠ .panic m := by
  cases x with
  | ok a => exact hf a
  | err e => simp
  | panic m' => intro h; simp only [bind_panic', Res.panic.injEq] at h; subst h; exact hx rfl

/-- `Packet::encode` never unwinds -/
theorem encode_ne_panic (a : AEAD) (p : Packet) (cap pid : Nat) (crypto : Option (Nat × Bytes)) (m : String) :
    p.encode a cap pid crypto ≠ .panic m := by
  unfold Packet.encode
  split
  · refine bind_ne_panic (io?_ne_panic _ _) fun w => bind_ne_panic (io?_ne_panic _ _) fun w' => by simp
  · split
    · simp
    · refine bind_ne_panic (io?_ne_panic _ _) fun w => ?_
      simp only
      refine bind_ne_panic (io?_ne_panic _ _) fun w' => ?_
      split <;> simp

theorem incU64_ok {ε} {x : Nat} (site : String) (h : x < U64_MAX) : (incU64 x site : Res ε Nat) = .ok (x + 1) := by
  unfold incU64; rw [if_pos (by omega)]

theorem incU64_eq_ok {ε} {x y : Nat} {site : String} (h : (incU64 x site : Res ε Nat) = .ok y) : y = x + 1 := by
  unfold incU64 at h; split at h <;> cases h; rfl

theorem durAdd_ok {ε} {x y : Nat} (site : String) (h : x + y ≤ DURATION_MAX) :
    (durAdd x y site : Res ε Nat) = .ok (x + y) := by
  unfold durAdd; rw [if_pos h]

theorem durAdd_eq_ok {ε} {x y z : Nat} {site : String} (h : (durAdd x y site : Res ε Nat) = .ok z) : z = x + y := by
  unfold durAdd at h; split at h <;> cases h; rfl

/-- a server without sessions: every slot free (as many slots as the limit), nothing half-open, an empty token-entry
    table — the state `NetcodeServer::new` returns -/
structure EmptyServer (s : NetcodeServer) : Prop where
  clients : s.clients = List.replicate s.maxClients none
  max : s.maxClients ≤ C.NETCODE_MAX_CLIENTS
  pending : s.pendingClients = []
  entries : ∃ k, 0 < k ∧ s.connectTokenEntries = List.replicate k none

theorem EmptyServer.inv {s : NetcodeServer} (h : EmptyServer s) : ServerInv s := by
  obtain ⟨h1, h2, h3, k, hk, h4⟩ := h
  refine ⟨?_, ?_, ?_, ?_, ?_, ?_, ?_, ?_, ?_⟩
  · rw [h1]; exact SlotsOK.replicate _
  · intro i c hc
    rw [h1] at hc
    exact absurd hc (by unfold At; rw [List.getElem?_replicate]; split <;> simp)
  · intro p hp; rw [h3] at hp; cases hp
  · rw [h3]; exact List.nodup_nil
  · rw [h3]; exact Nat.zero_le _
  · rw [h4, List.length_replicate]; exact hk
  · rw [h4]; exact EntriesOK.replicate _
  · rw [h1, List.length_replicate]; exact Nat.le_refl _
  · rw [h1, List.length_replicate]; exact h2

/-- the token-entry table has the length `NetcodeServer::new` gives it -/
def TableLen (s : NetcodeServer) : Prop := s.connectTokenEntries.length = C.NETCODE_TOKEN_ENTRIES

/-- `NetcodeServer::new` returns an empty server (hence establishes the invariant) with as many slots as the limit
    and a token-entry table of `NETCODE_TOKEN_ENTRIES` entries -/
theorem new_inv {t m pid : Nat} {pa : List Addr} {sec : Bool} {k ck : Bytes} {s : NetcodeServer}
    (h : NetcodeServer.new t m pid pa sec k ck = .ok s) :
    ServerInv s ∧ s.clients = List.replicate m none ∧ s.maxClients = m ∧ s.pendingClients = [] ∧ s.currentTime = t ∧
    EmptyServer s ∧ TableLen s := by
  unfold NetcodeServer.new at h
  split at h
  · cases h
  · rename_i hm
    cases h
    refine ⟨?_, rfl, rfl, rfl, rfl, ?_, List.length_replicate⟩
    · exact EmptyServer.inv ⟨rfl, Nat.le_of_not_lt hm, rfl, C.NETCODE_TOKEN_ENTRIES, by decide, rfl⟩
    · exact ⟨rfl, Nat.le_of_not_lt hm, rfl, C.NETCODE_TOKEN_ENTRIES, by decide, rfl⟩

theorem new_ne_panic {t m pid : Nat} {pa : List Addr} {sec : Bool} {k ck : Bytes} (hm : m ≤ C.NETCODE_MAX_CLIENTS) :
    ∃ s, NetcodeServer.new t m pid pa sec k ck = .ok s := by
  unfold NetcodeServer.new
  rw [if_neg (by omega)]
  exact ⟨_, rfl⟩

/-- `set_max_clients`: the slot list grows to the new limit if that is larger, it never shrinks -/
theorem setMaxClients_eq (s : NetcodeServer) (m : Nat) :
    (s.setMaxClients m).maxClients = min m C.NETCODE_MAX_CLIENTS ∧
    (s.setMaxClients m).clients =
      s.clients ++ List.replicate (min m C.NETCODE_MAX_CLIENTS - s.clients.length) none ∧
    (s.setMaxClients m).pendingClients = s.pendingClients ∧
    (s.setMaxClients m).connectTokenEntries = s.connectTokenEntries ∧
    (s.setMaxClients m).currentTime = s.currentTime := by
  unfold NetcodeServer.setMaxClients
  refine ⟨rfl, ?_, rfl, rfl, rfl⟩
  simp only
  split
  · rfl
  · rename_i h
    have : min m C.NETCODE_MAX_CLIENTS - s.clients.length = 0 := by omega
    rw [this]; simp

theorem setMaxClients_inv {s : NetcodeServer} (h : ServerInv s) (m : Nat) : ServerInv (s.setMaxClients m) := by
  obtain ⟨e1, e2, e3, e4, e5⟩ := setMaxClients_eq s m
  obtain ⟨h1, h2, h3, h4, h5, h6, h7, h8, h9⟩ := h
  constructor
  · rw [e2]; exact h1.append_none _
  · rw [e2, e5]; intro i c hc; exact h2 i c (at_append_none.mp hc)
  · rw [e2, e3, e5]
    intro p hp
    obtain ⟨a1, a2, a3, a4, a5⟩ := h3 p hp
    exact ⟨a1, a2, a3, a4, fun j cj hj => a5 j cj (at_append_none.mp hj)⟩
  · rw [e3]; exact h4
  · rw [e3]; exact h5
  · rw [e4]; exact h6
  · rw [e4]; exact h7
  · rw [e1, e2, List.length_append, List.length_replicate]; omega
  · rw [e2, List.length_append, List.length_replicate]; omega

/-- `update`: the clock advances, half-open sessions whose token has expired are dropped, nothing else changes -/
theorem update_ok {s s' : NetcodeServer} {d : Nat} (h : s.update d = .ok s') :
    s' = { s with currentTime := s.currentTime + d
                  pendingClients := s.pendingClients.filter fun p => !(asSecs (s.currentTime + d) > p.2.expireTimestamp) } := by
  unfold NetcodeServer.update at h
  cases hd : (durAdd s.currentTime d "server.rs update: current_time += duration" : Res Empty Nat) with
  | ok now =>
    rw [hd] at h
    simp only [bind_ok', pure_eq', Res.ok.injEq] at h
    rw [durAdd_eq_ok hd] at h
    exact h.symm
  | err e => exact e.elim
  | panic m => rw [hd] at h; cases h

theorem update_inv {s s' : NetcodeServer} {d : Nat} (h : ServerInv s) (hu : s.update d = .ok s') : ServerInv s' := by
  rw [update_ok hu]
  have h' := ServerInv.filterPending h fun p => !(asSecs (s.currentTime + d) > p.2.expireTimestamp)
  obtain ⟨h1, h2, h3, h4, h5, h6, h7, h8, h9⟩ := h'
  refine ⟨h1, ?_, ?_, h4, h5, h6, h7, h8, h9⟩
  · intro i c hc; exact (h2 i c hc).mono (Nat.le_add_right _ _)
  · intro p hp
    obtain ⟨a1, a2, a3, a4, a5⟩ := h3 p hp
    exact ⟨a1, a2, a3, a4.mono (Nat.le_add_right _ _), a5⟩

theorem update_ne_panic {s : NetcodeServer} {d : Nat} (h : s.currentTime + d ≤ DURATION_MAX) :
    ∃ s', s.update d = .ok s' := by
  unfold NetcodeServer.update
  rw [durAdd_ok _ h]
  exact ⟨_, rfl⟩

theorem getD_of_at {cl : Slots} {i : Nat} {c : Connection} (h : At cl i c) : cl.getD i none = some c := by
  unfold At at h
  rw [List.getD_eq_getElem?_getD, h]; rfl

/-- `disconnect`: either the id is not connected (nothing happens) or its slot is freed and reported -/
theorem disconnect_spec (a : AEAD) (s : NetcodeServer) (id : Nat) :
    (findClientSlotById s.clients id = none ∧ s.disconnect a id = .ok (.none, s)) ∨
    (∃ i c o, findClientSlotById s.clients id = some i ∧ At s.clients i c ∧ c.clientId = id ∧
      s.disconnect a id = .ok (.clientDisconnected id c.addr o, { s with clients := s.clients.set i none })) := by
  unfold NetcodeServer.disconnect
  cases hf : findClientSlotById s.clients id with
  | none => left; exact ⟨rfl, rfl⟩
  | some i =>
    right
    obtain ⟨c, hc, hid, _⟩ := findSlot_some hf
    simp only [getD_of_at hc]
    cases he : Packet.disconnect.encode a C.NETCODE_MAX_PACKET_BYTES s.protocolId (some (c.sequence, c.sendKey)) with
    | ok out => exact ⟨i, c, some out, rfl, hc, hid, rfl⟩
    | err e => exact ⟨i, c, none, rfl, hc, hid, rfl⟩
    | panic m => exact absurd he (encode_ne_panic _ _ _ _ _ _)

theorem disconnect_inv {a : AEAD} {s s' : NetcodeServer} {id : Nat} {r : ServerResult} (h : ServerInv s)
    (hd : s.disconnect a id = .ok (r, s')) : ServerInv s' := by
  rcases disconnect_spec a s id with ⟨_, e⟩ | ⟨i, c, o, _, _, _, e⟩
  · rw [e] at hd; cases hd; exact h
  · rw [e] at hd; cases hd; exact h.dropSlot i

/-- the time-out test of `update_client` -/
def TimedOut (c : Connection) (now : Nat) : Prop :=
  c.timeoutSeconds > 0 ∧ c.lastPacketReceivedTime + fromSecs c.timeoutSeconds.toNat < now

instance (c : Connection) (now : Nat) : Decidable (TimedOut c now) := by unfold TimedOut; infer_instance

theorem durAdd_out {ε} {x y : Nat} {site : String} {X : Res ε Nat} (h : (durAdd x y site : Res ε Nat) = X) :
    X = .ok (x + y) ∨ (X = .panic site ∧ ¬ x + y ≤ DURATION_MAX) := by
  unfold durAdd at h
  split at h
  · left; exact h.symm
  · right; exact ⟨h.symm, by assumption⟩

theorem incU64_out {ε} {x : Nat} {site : String} {X : Res ε Nat} (h : (incU64 x site : Res ε Nat) = X) :
    X = .ok (x + 1) ∨ (X = .panic site ∧ ¬ x < U64_MAX) := by
  unfold incU64 at h
  split at h
  · left; exact h.symm
  · right; exact ⟨h.symm, by omega⟩

/-- the part of `update_client` after the time-out test -/
def ucTail (a : AEAD) (s : NetcodeServer) (clientId slot : Nat) (client : Connection) (timedOut : Bool) :
    Res Empty (ServerResult × NetcodeServer) :=
  let client := if timedOut then { client with state := .disconnected } else client
  if client.state = .disconnected then
    let s := { s with clients := s.clients.set slot none }
    match Packet.disconnect.encode a C.NETCODE_MAX_PACKET_BYTES s.protocolId (some (client.sequence, client.sendKey)) with
    | .panic m => .panic m
    | .err _ => pure (.clientDisconnected clientId client.addr none, s)
    | .ok out => pure (.clientDisconnected clientId client.addr (some out), s)
  else do
    let due ← durAdd client.lastPacketSendTime C.NETCODE_SEND_RATE_NS "server.rs update_client: last_packet_send_time + SEND_RATE"
    if due ≤ s.currentTime then
      let packet := Packet.keepAlive (slot % 2 ^ 32) (s.maxClients % 2 ^ 32)
      match packet.encode a C.NETCODE_MAX_PACKET_BYTES s.protocolId (some (client.sequence, client.sendKey)) with
      | .panic m => .panic m
      | .err _ => pure (.none, s)
      | .ok out =>
        let sq ← incU64 client.sequence "server.rs update_client: client.sequence += 1"
        let client := { client with sequence := sq, lastPacketSendTime := s.currentTime }
        pure (.packetToSend client.addr out, { s with clients := s.clients.set slot (some client) })
    else pure (.none, s)

theorem updateClient_eq (a : AEAD) {s : NetcodeServer} {id i : Nat} {c : Connection}
    (hf : findClientSlotById s.clients id = some i) (hc : At s.clients i c) :
    s.updateClient a id =
      ((if c.timeoutSeconds > 0 then do
          let deadline ← durAdd c.lastPacketReceivedTime (fromSecs c.timeoutSeconds.toNat)
                           "server.rs update_client: last_packet_received_time + timeout"
          pure (decide (deadline < s.currentTime))
        else pure false : Res Empty Bool) >>= ucTail a s id i c) := by
  unfold NetcodeServer.updateClient
  simp only [hf, getD_of_at hc]
  rfl

/-- the session after a keep-alive was sent -/
abbrev sentKeepAlive (c : Connection) (now : Nat) : Connection :=
  { c with sequence := c.sequence + 1, lastPacketSendTime := now }

/-- The outcomes of `update_client` for a connected id (slot `i`, session `c`):
    * timed out ⇒ the slot is freed and `ClientDisconnected` reported (with a Disconnect packet if it encodes);
    * otherwise the session stays; a keep-alive goes out when the send timer is due;
    * it unwinds only when the clock or the session's sequence number is about to overflow. -/
def UCOut (a : AEAD) (s : NetcodeServer) (id i : Nat) (c : Connection) (R : Res Empty (ServerResult × NetcodeServer)) :
    Prop :=
  (TimedOut c s.currentTime ∧ ∃ o, R = .ok (.clientDisconnected id c.addr o, { s with clients := s.clients.set i none })) ∨
  (¬ TimedOut c s.currentTime ∧
    (R = .ok (.none, s) ∨
     ∃ out, c.lastPacketSendTime + C.NETCODE_SEND_RATE_NS ≤ s.currentTime ∧
       (Packet.keepAlive (i % 2 ^ 32) (s.maxClients % 2 ^ 32)).encode a C.NETCODE_MAX_PACKET_BYTES s.protocolId
          (some (c.sequence, c.sendKey)) = .ok out ∧
       R = .ok (.packetToSend c.addr out, { s with clients := s.clients.set i (some (sentKeepAlive c s.currentTime)) }))) ∨
  ((∃ m, R = .panic m) ∧ ¬ (s.currentTime + fromSecs (2 ^ 31) ≤ DURATION_MAX ∧ c.sequence < U64_MAX))

theorem ucTail_true (a : AEAD) (s : NetcodeServer) (id i : Nat) (c : Connection) :
    ∃ o, ucTail a s id i c true = .ok (.clientDisconnected id c.addr o, { s with clients := s.clients.set i none }) := by
  unfold ucTail
  simp only [if_true]
  cases he : Packet.disconnect.encode a C.NETCODE_MAX_PACKET_BYTES s.protocolId (some (c.sequence, c.sendKey)) with
  | ok out => exact ⟨some out, rfl⟩
  | err e => exact ⟨none, rfl⟩
  | panic m => exact absurd he (encode_ne_panic _ _ _ _ _ _)

theorem ucTail_false (a : AEAD) (s : NetcodeServer) (id i : Nat) {c : Connection} (hst : c.state = .connected)
    (hsend : c.lastPacketSendTime ≤ s.currentTime) :
    (ucTail a s id i c false = .ok (.none, s) ∨
     ∃ out, c.lastPacketSendTime + C.NETCODE_SEND_RATE_NS ≤ s.currentTime ∧
       (Packet.keepAlive (i % 2 ^ 32) (s.maxClients % 2 ^ 32)).encode a C.NETCODE_MAX_PACKET_BYTES s.protocolId
          (some (c.sequence, c.sendKey)) = .ok out ∧
       ucTail a s id i c false =
         .ok (.packetToSend c.addr out, { s with clients := s.clients.set i (some (sentKeepAlive c s.currentTime)) })) ∨
    ((∃ m, ucTail a s id i c false = .panic m) ∧
      ¬ (s.currentTime + fromSecs (2 ^ 31) ≤ DURATION_MAX ∧ c.sequence < U64_MAX)) := by
  have hsr : C.NETCODE_SEND_RATE_NS ≤ fromSecs (2 ^ 31) := by decide
  have hnd : ¬ c.state = .disconnected := by rw [hst]; simp
  unfold ucTail
  simp only [Bool.false_eq_true, if_false]
  rw [if_neg hnd]
  generalize hd : (durAdd c.lastPacketSendTime C.NETCODE_SEND_RATE_NS _ : Res Empty Nat) = X
  rcases durAdd_out hd with rfl | ⟨rfl, hn⟩
  · simp only [bind_ok']
    split
    · rename_i hdue
      cases he : (Packet.keepAlive (i % 2 ^ 32) (s.maxClients % 2 ^ 32)).encode a C.NETCODE_MAX_PACKET_BYTES
          s.protocolId (some (c.sequence, c.sendKey)) with
      | ok out =>
        simp only
        generalize hq : (incU64 c.sequence _ : Res Empty Nat) = Y
        rcases incU64_out hq with rfl | ⟨rfl, hn⟩
        · left; right
          simp only [bind_ok', pure_eq']
          exact ⟨out, hdue, rfl, rfl⟩
        · right; exact ⟨⟨_, rfl⟩, fun h => hn h.2⟩
      | err e => left; left; rfl
      | panic m => exact absurd he (encode_ne_panic _ _ _ _ _ _)
    · left; left; rfl
  · right
    refine ⟨⟨_, rfl⟩, fun h => hn ?_⟩
    have := h.1
    omega

theorem updateClient_spec (a : AEAD) {s : NetcodeServer} {id i : Nat} {c : Connection} (hi : ServerInv s)
    (hf : findClientSlotById s.clients id = some i) (hc : At s.clients i c) :
    UCOut a s id i c (s.updateClient a id) := by
  have hok := hi.slotsOK i c hc
  have hst := hi.slots.conn i c hc
  have hns : fromSecs c.timeoutSeconds.toNat ≤ fromSecs (2 ^ 31) := by
    unfold fromSecs
    apply Nat.mul_le_mul_right
    have := hok.tmo
    omega
  have h1 := hok.recv
  rw [updateClient_eq a hf hc]
  unfold UCOut
  by_cases ht1 : c.timeoutSeconds > 0
  · rw [if_pos ht1]
    generalize hd : (durAdd c.lastPacketReceivedTime (fromSecs c.timeoutSeconds.toNat) _ : Res Empty Nat) = X
    rcases durAdd_out hd with rfl | ⟨rfl, hn⟩
    · simp only [bind_ok', pure_eq']
      by_cases ht2 : c.lastPacketReceivedTime + fromSecs c.timeoutSeconds.toNat < s.currentTime
      · left
        rw [decide_eq_true ht2]
        exact ⟨⟨ht1, ht2⟩, ucTail_true a s id i c⟩
      · right
        rw [decide_eq_false ht2]
        rcases ucTail_false a s id i hst hok.send with h | h
        · exact Or.inl ⟨fun h' => ht2 h'.2, h⟩
        · exact Or.inr h
    · right; right
      refine ⟨⟨_, rfl⟩, fun h => hn ?_⟩
      have := h.1
      omega
  · rw [if_neg ht1]
    simp only [pure_eq', bind_ok']
    right
    rcases ucTail_false a s id i hst hok.send with h | h
    · exact Or.inl ⟨fun h' => ht1 h'.1, h⟩
    · exact Or.inr h

theorem updateClient_absent (a : AEAD) {s : NetcodeServer} {id : Nat} (hf : findClientSlotById s.clients id = none) :
    s.updateClient a id = .ok (.none, s) := by
  unfold NetcodeServer.updateClient; rw [hf]

theorem updateClient_inv {a : AEAD} {s s' : NetcodeServer} {id : Nat} {r : ServerResult} (h : ServerInv s)
    (hu : s.updateClient a id = .ok (r, s')) : ServerInv s' := by
  cases hf : findClientSlotById s.clients id with
  | none => rw [updateClient_absent a hf] at hu; cases hu; exact h
  | some i =>
    obtain ⟨c, hc, _, _⟩ := findSlot_some hf
    rcases updateClient_spec a h hf hc with ⟨_, o, e⟩ | ⟨_, e | ⟨out, _, _, e⟩⟩ | ⟨⟨m, e⟩, _⟩
    · rw [e] at hu; cases hu; exact h.dropSlot i
    · rw [e] at hu; cases hu; exact h
    · rw [e] at hu; cases hu
      exact h.refreshSlot hc rfl (h.slots.conn i c hc)
        ⟨(h.slotsOK i c hc).recv, Nat.le_refl _, (h.slotsOK i c hc).tmo⟩
    · rw [e] at hu; cases hu

theorem updateClient_ne_panic (a : AEAD) {s : NetcodeServer} (id : Nat) (h : ServerInv s) (hh : Headroom s) :
    ∃ r s', s.updateClient a id = .ok (r, s') := by
  cases hf : findClientSlotById s.clients id with
  | none => exact ⟨_, _, updateClient_absent a hf⟩
  | some i =>
    obtain ⟨c, hc, _, _⟩ := findSlot_some hf
    rcases updateClient_spec a h hf hc with ⟨_, o, e⟩ | ⟨_, e | ⟨out, _, _, e⟩⟩ | ⟨_, hn⟩
    · exact ⟨_, _, e⟩
    · exact ⟨_, _, e⟩
    · exact ⟨_, _, e⟩
    · exact absurd ⟨hh.clock, hh.seqs i c hc⟩ hn

/-- `generate_payload_packet`: the packet goes to the address of the slot holding that id, sealed with that slot's
    send key and sequence number; only that slot's sequence number and send timer change -/
theorem generatePayload_ok {a : AEAD} {s s' : NetcodeServer} {id : Nat} {payload out : Bytes} {ad : Addr}
    (h : s.generatePayloadPacket a id payload = .ok ((ad, out), s')) :
    ∃ i c, findClientSlotById s.clients id = some i ∧ At s.clients i c ∧ c.clientId = id ∧ ad = c.addr ∧
      (Packet.payload payload).encode a C.NETCODE_MAX_PACKET_BYTES s.protocolId (some (c.sequence, c.sendKey)) = .ok out ∧
      s' = { s with clients :=
              s.clients.set i (some { c with sequence := c.sequence + 1, lastPacketSendTime := s.currentTime }) } := by
  unfold NetcodeServer.generatePayloadPacket at h
  split at h
  · cases h
  · cases hf : findClientSlotById s.clients id with
    | none => rw [hf] at h; simp at h
    | some i =>
      obtain ⟨c, hc, hid, hb⟩ := findSlot_some hf
      rw [hf, hb] at h
      simp only at h
      cases he : (Packet.payload payload).encode a C.NETCODE_MAX_PACKET_BYTES s.protocolId (some (c.sequence, c.sendKey)) with
      | err e => rw [he] at h; cases h
      | panic m => rw [he] at h; cases h
      | ok o =>
        rw [he] at h
        simp only [bind_ok'] at h
        cases hq : (incU64 c.sequence "server.rs generate_payload_packet: client.sequence += 1" : NRes Nat) with
        | err e => rw [hq] at h; cases h
        | panic m => rw [hq] at h; cases h
        | ok sq =>
          rw [hq] at h
          simp only [bind_ok', pure_eq', Res.ok.injEq, Prod.mk.injEq] at h
          obtain ⟨⟨rfl, rfl⟩, rfl⟩ := h
          rw [incU64_eq_ok hq]
          exact ⟨i, c, rfl, hc, hid, rfl, he, rfl⟩

theorem generatePayload_inv {a : AEAD} {s s' : NetcodeServer} {id : Nat} {payload : Bytes} {r : Addr × Bytes}
    (h : ServerInv s) (hg : s.generatePayloadPacket a id payload = .ok (r, s')) : ServerInv s' := by
  obtain ⟨ad, out⟩ := r
  obtain ⟨i, c, _, hc, _, _, _, rfl⟩ := generatePayload_ok hg
  exact h.refreshSlot hc rfl (h.slots.conn i c hc)
    ⟨(h.slotsOK i c hc).recv, Nat.le_refl _, (h.slotsOK i c hc).tmo⟩

theorem generatePayload_ne_panic (a : AEAD) {s : NetcodeServer} (id : Nat) (payload : Bytes) (hh : Headroom s)
    (m : String) : s.generatePayloadPacket a id payload ≠ .panic m := by
  unfold NetcodeServer.generatePayloadPacket
  split
  · simp
  · cases hf : findClientSlotById s.clients id with
    | none => simp
    | some i =>
      obtain ⟨c, hc, hid, hb⟩ := findSlot_some hf
      rw [hb]
      simp only
      refine bind_ne_panic (encode_ne_panic _ _ _ _ _ _) fun o => ?_
      rw [incU64_ok _ (hh.seqs i c hc)]
      simp

end NS
end RenetVerif.Netcode
