/-
  k-ROUND LIVENESS FROM THE LINK INVARIANT, and the lifting of FULL rounds (tick, flush, deliveries, drain, ack leg)
  of either direction of a link to the multi-client system `MSys`.

  Lemmas/LivenessK.lean iterates the one-round theorems of Lemmas/Liveness.lean over states reachable from
  `Sys.init` (`LiveK.RoundStep` quantifies over runs).  Reachability is used there only through
    `allInv_reach` / `system_inv` (Inv1, Inv2, InvR, InvD),  `invF_reach` (InvF),  `invL_reach` (InvL: the largest
    sequence number B ever claimed in an ack packet was a packet A had emitted), and closure under `Sys.run`.
  Lemmas/MultiLive.lean packaged the first two groups as `GoodL` and proved it for both projections of every untainted
  link of every reachable `MSys` state.  Here:

  Part A — `GoodK` = `GoodL` ∧ `InvL`; preserved by `Sys.step`, `Sys.run`, by every step `VStep` of a bidirectional
           link; hence (`reachK`) it holds for both projections of every reachable untainted link.
  Part B — Lemmas/LivenessK.lean re-proved from `GoodK` (same statements, `(Sys.init cfg).run ops = some s` replaced by
           `GoodK cfg s`): `acks_release_inv` … `full_round_inv`, `full_round_part_inv`, the iteration
           `rounds_of_step_inv`, the byte bound `rounds_bytes_any_inv`, the count bound `rounds_count_inv`.
           The side-condition predicates (`RoundP`, `TickOK`, `RoundOK`, `Rounds`, `SchedBytes`, …) and their checkers
           are those of LivenessK: they never mentioned reachability.
  Part C — lifting: a run of ANY `System.Sys` operations other than `sendA` on the projection `down` (server → client)
           resp. `up` (client → server) of client `i` is the run of the corresponding local actions on the view of `i`
           (`lift_down`, `lift_up`); with `MultiSystem.run_view` / `lvrun_filter`: every `MSys` run whose local trace
           for `i` is that list ends in that view (`view_of_trace_down`, `view_of_trace_up`).
-/
import RenetVerif.Lemmas.MultiLive
import RenetVerif.Lemmas.LivenessK
namespace RenetVerif.MultiLiveK
open RenetVerif C RenetVerif.System RenetVerif.DataPath RenetVerif.MultiSystem RenetVerif.Live RenetVerif.LiveK
  RenetVerif.MultiLive

/-! ## Part A: the invariant -/

/-- the liveness invariants of `MultiLive.GoodL` plus `Live.InvL` -/
def GoodK (cfg : Cfg) (s : Sys) : Prop := GoodL cfg s ∧ InvL s

theorem goodK_init (cfg : Cfg) : GoodK cfg (Sys.init cfg) := ⟨goodL_init cfg, invL_init cfg⟩

theorem goodK_step {cfg : Cfg} {s s' : Sys} {op : SysOp} (h : GoodK cfg s) (hs : s.step op = some s') : GoodK cfg s' := by
  obtain ⟨hg, hL⟩ := h
  obtain ⟨pkA, h1, hR, -⟩ := id hg
  exact ⟨goodL_step hg hs, invL_step h1 hR hL hs⟩

theorem goodK_run {cfg : Cfg} : ∀ (ops : List SysOp) {s s' : Sys}, GoodK cfg s → s.run ops = some s' → GoodK cfg s'
  | [], s, s', h, hr => by
    simp only [Sys.run, Option.some.injEq] at hr; subst hr; exact h
  | op :: ops, s, s', h, hr => by
    simp only [Sys.run] at hr
    cases hs : s.step op with
    | none => rw [hs] at hr; cases hr
    | some s1 =>
      rw [hs] at hr
      exact goodK_run ops (goodK_step h hs) hr

theorem invL_fresh (cfg : Cfg) : InvL (Sys.fresh cfg) := by
  intro _ seq t lg hf
  have hb := setConnected_fields (Conn.fromChannels cfg.budget cfg.recv cfg.send)
  have : (Sys.fresh cfg).b.sent = (Conn.fromChannels cfg.budget cfg.recv cfg.send).sent := hb.2.2.1
  rw [this] at hf
  simp [Conn.fromChannels] at hf

/-- every step of a bidirectional link preserves `GoodK` -/
theorem goodK_vstep {cfg : Cfg} {s s' : Sys} (hk : GoodK cfg s) (hs : VStep cfg s s') : GoodK cfg s' := by
  refine ⟨goodL_vstep hk.1 hs, ?_⟩
  obtain ⟨hg, hL⟩ := hk
  cases hs with
  | stutter => exact hL
  | op o h =>
    obtain ⟨pkA, h1, hR, -⟩ := id hg
    exact invL_step h1 hR hL h
  | recvA h =>
    obtain ⟨-, ⟨-, -, -, f4⟩, -⟩ := SL.Conn.receiveMessage_frame h
    intro hl seq t lg hf
    dsimp only at hl hf ⊢
    rw [f4]; exact hL hl seq t lg hf
  | sendB h =>
    obtain ⟨-, -, -, f3, -, -, -⟩ := SL.Conn.sendMessage_frame h
    intro hl seq t lg hf
    dsimp only at hl hf ⊢
    rw [f3] at hf
    exact hL (not_disc_of_keeps (SL.Conn.sendMessage_keeps h) hl) seq t lg hf
  | discA r =>
    intro hl seq t lg hf
    dsimp only at hl hf ⊢
    have : (s.a.disconnectWith r).packetSeq = s.a.packetSeq := by simp
    rw [this]; exact hL hl seq t lg hf
  | discB r =>
    intro hl seq t lg hf
    dsimp only at hl hf ⊢
    have : (s.b.disconnectWith r).sent = s.b.sent := by simp
    rw [this] at hf
    exact hL (not_disc_of_keeps (SL.Conn.disconnectWith_keeps _ r) hl) seq t lg hf
  | fresh => exact invL_fresh cfg

structure LinkOKK (P : Params) (lv : LV) (l : Link) : Prop where
  goodD : GoodK P.down (down lv l)
  goodU : GoodK P.up (up lv l)

def VInvK (P : Params) (lv : LV) : Prop :=
  ∀ l, lv.link = some l → l.tainted = false → LinkOKK P lv l

theorem goodK_fresh (cfg : Cfg) : GoodK cfg (Sys.fresh cfg) := ⟨goodL_fresh cfg, invL_fresh cfg⟩

theorem vinvK_step {P : Params} {lv lv' : LV} {act : LAct} (hv : VInvK P lv)
    (h : lv.apply P act = some lv') : VInvK P lv' := by
  intro l' hl' ht
  rcases sim h hl' ht with ⟨rfl, rfl⟩ | ⟨l, hl, htl, hd, hu, -⟩
  · exact ⟨goodK_fresh _, goodK_fresh _⟩
  · obtain ⟨g1, g2⟩ := hv l hl htl
    exact ⟨goodK_vstep g1 hd, goodK_vstep g2 hu⟩

theorem run_invK (P : Params) (i : Nat) : ∀ (ops : List MOp) (m m' : MSys), m.WF P → VInvK P (m.view i) →
    m.run ops = some m' → m'.WF P ∧ VInvK P (m'.view i)
  | [], m, m', hw, hv, hr => by
    simp only [MSys.run, Option.some.injEq] at hr; subst hr
    exact ⟨hw, hv⟩
  | op :: ops, m, m', hw, hv, hr => by
    simp only [MSys.run] at hr
    cases hs : m.step op with
    | none => rw [hs] at hr; cases hr
    | some m1 =>
      rw [hs] at hr
      exact run_invK P i ops m1 m' (step_wf hw hs) (vinvK_step hv (step_view hw hs i)) hr

/-- **Every reachable untainted link satisfies `GoodK`, in both directions.** -/
theorem reachK (P : Params) (ops : List MOp) (m : MSys) (hr : (MSys.init P).run ops = some m) (i : Nat) (l : Link)
    (hl : m.links i = some l) (ht : l.tainted = false) : LinkOKK P (m.view i) l :=
  (run_invK P i ops (MSys.init P) m (wf_init P) (fun l hl => by cases hl) hr).2 l hl ht

/-! ## Part B: Lemmas/LivenessK.lean from the invariant -/

/-- **The acknowledgement round.**  From a state that satisfies `GoodK`, with both endpoints live and B holding
    pending acks: B flushes (its last datagram is the ack packet carrying exactly its pending list, C08) and that datagram is handed
    to A.  Nothing panics, A stays live, and for every packet sequence number in B's pending list that A still has in
    its sent table, A releases what that packet carried (`Eff`): small messages leave `unacked`, a slice stops
    being pending.  Nothing else changes in A's reliable send channels except by releasing (`ConnAckMono`). -/
theorem acks_release_inv (cfg : Cfg) (u : Sys) (hg : GoodK cfg u)
    (hda : u.a.isDisconnected = false) (hdb : u.b.isDisconnected = false) (hcB : u.b.CountersOK)
    (hne : u.b.pendingAcks ≠ []) :
    ∃ v, u.run [.flushB, .deliverToA (ackIdx u)] = some v ∧ v.a.isDisconnected = false ∧
      v.submitted = u.submitted ∧ v.obtained = u.obtained ∧ ConnAckMono u.a v.a ∧ v.a.SendInv ∧
      ∀ seq t info, Acks.Mem seq u.b.pendingAcks → SMap.find? u.a.sent seq = some (t, info) → Eff v.a info := by
  obtain ⟨pkA, h1, -⟩ := hg.1
  obtain ⟨b1, bs, e, -, hst, -⟩ := CI.getPacketsToSend_totalP (reach_conn h1.reachB).1 hcB
  have hlive1 : b1.isDisconnected = false := by rw [isDisconnected_congr hst]; exact hdb
  have hlen : bs.length = (flushPk u.b).length := by
    have := congrArg List.length (flush_facts h1.invB.1 e).1
    simpa using this.symm
  -- the flush is not empty: it ends with the ack packet
  have hbs : bs ≠ [] := by
    rcases getPacketsToSend_unfold e with ⟨hd1, -, -⟩ | ⟨-, sr, su, pk0, seq0, avail, sent, -, -, hser⟩
    · rw [hdb] at hd1; cases hd1
    · have hemp : u.b.pendingAcks.isEmpty = false := by
        cases hl : u.b.pendingAcks with
        | nil => exact absurd hl hne
        | cons a t => rfl
      rcases hser with ⟨hok, -⟩ | ⟨er, -, -, rfl⟩
      · rw [hemp] at hok
        simp only [Bool.false_eq_true, ↓reduceIte] at hok
        have := congrArg List.length (serialiseAll_enc _ _ hok)
        intro hnil
        rw [hnil] at this
        simp at this
      · rw [disconnectWith_isDisconnected] at hlive1; cases hlive1
  obtain ⟨seq0, b, hlast, hdec⟩ := SI.Conn.getPacketsToSend_wire_ack h1.invB.1 h1.invB.2 hdb hne e hbs
  have hs1 : u.step .flushB = some { u with b := b1, outB := u.outB ++ bs } := by simp only [Sys.step, e]
  have hidx : (u.outB ++ bs)[ackIdx u]? = some b := by
    have hpos : 0 < bs.length := List.length_pos_iff.mpr hbs
    unfold ackIdx
    rw [← hlen, List.getElem?_append_right (by omega)]
    rw [List.getLast?_eq_getElem?] at hlast
    have : u.outB.length + bs.length - 1 - u.outB.length = bs.length - 1 := by omega
    rw [this]; exact hlast
  obtain ⟨L, a', -, ea, ia, -, -, -⟩ := SI.Conn.processPacket_ack_spec h1.invA.1 hda hdec
  obtain ⟨hm, hl', heff⟩ := processPacket_ack_forward h1.invA.1 hda hdec ea
  have hs2 : ({ u with b := b1, outB := u.outB ++ bs } : Sys).step (.deliverToA (ackIdx u)) =
      some { u with b := b1, outB := u.outB ++ bs, a := a' } := by
    simp only [Sys.step, hidx, ea]
  refine ⟨{ u with b := b1, outB := u.outB ++ bs, a := a' }, ?_, hl', rfl, rfl, hm, ia, heff⟩
  simp only [Sys.run, hs1, hs2]

/-- **No livelock of the budget by delivered messages.**  After a lossless round that covered the whole backlog of
    channel `ch` (H1, H2), if B — still live, counters in range — holds the sequence numbers of that flush's data
    packets in its pending-ack list (`hpend`: some pending range covers each of them), then B's next flush and the delivery of its ack datagram to A empty
    A's `unacked` on channel `ch`: the next tick retransmits nothing.
    (`hpend` is what remains to be derived from the round itself: B appends every received sequence number
    (`Acks.add`), which is kept as long as fewer than ACK_RANGE_CAP = 64 ranges are pending and `acked_largest` —
    run when A's own ack packet arrives — only drops older numbers.  It is checked by evaluation in the example.) -/
theorem acks_release_prefix_inv (cfg : Cfg) (s : Sys) (hg : GoodK cfg s)
    (hc : CountersOK cfg s) (hcA : s.a.CountersOK) (hda : s.a.isDisconnected = false)
    (ch : Nat) (sA : SendRel) (hfA : SMap.find? s.a.sendRel ch = some sA)
    (pre post : SMap Unacked) (hun : sA.unacked = pre ++ post)
    (H1 : AllDue s.a.now sA.resend pre) (H2 : backlog pre ≤ availAtTurn s.a ch)
    (ks : List Nat) (n : Nat) (u : Sys) (hu : s.run (roundOps ch ks n) = some u)
    (hdb : u.b.isDisconnected = false) (hcB : u.b.CountersOK) (hne : u.b.pendingAcks ≠ [])
    (hpend : ∀ p ∈ flushPk s.a, isRel p = true → ∃ r ∈ u.b.pendingAcks, r.1 ≤ p.sequence ∧ p.sequence < r.2) :
    ∃ v, u.run [.flushB, .deliverToA (ackIdx u)] = some v ∧ v.a.isDisconnected = false ∧
      ∃ sA', SMap.find? v.a.sendRel ch = some sA' ∧ ∀ x ∈ sA'.unacked, ∃ u0, (x.1, u0) ∈ post := by
  obtain ⟨pkA, hA, hFs⟩ := allInv_of_goodL hg.1 hc
  obtain ⟨a1, bs, e, hd1, hseq1, hsm, hsl⟩ :=
    flush_covers (pre := pre) (post := post) (reach_conn hA.i1.reachA).1 hcA hda hfA (order_mem hA.i1.reachA hfA)
      hun H1 H2
  have hs1 : s.step .flushA = some { s with a := a1, outA := s.outA ++ bs } := by simp only [Sys.step, e]
  generalize hs1d : ({ s with a := a1, outA := s.outA ++ bs } : Sys) = s1 at hs1
  have f1 : s1.a = a1 := by rw [← hs1d]
  -- decompose the round
  have hu' := hu
  simp only [roundOps, Sys.run, hs1] at hu'
  rw [Sys.run_append] at hu'
  cases ht : s1.run (ks.map SysOp.deliverToB) with
  | none => rw [ht] at hu'; cases hu'
  | some t =>
    rw [ht] at hu'
    simp only [Option.bind_some] at hu'
    have hua : u.a = a1 := by
      rw [recv_run_frame ch n t u hu', (deliver_frame ks s1 t ht).1, f1]
    have hgu : GoodK cfg u := goodK_run _ hg hu
    obtain ⟨v, hv, hlv, -, -, hmono, hinvv, heff⟩ := acks_release_inv cfg u hgu (by rw [hua]; exact hd1) hdb hcB hne
    -- A's channel after the flush
    obtain ⟨-, -, hget, -⟩ := SI.Conn.getPacketsToSend_spec hA.i1.invA.1 hA.i1.invA.2 e
    obtain ⟨sA1, hf1, -⟩ := hget.keeps hfA
    obtain ⟨hsim, -⟩ := hget.2 ch sA sA1 hfA hf1
    obtain ⟨sA', hf', hm'⟩ := hmono ch sA1 (by rw [hua]; exact hf1)
    have hrec := flush_records hA.i1.invA.1 e hd1
    refine ⟨v, hv, hlv, sA', hf', ?_⟩
    rintro ⟨id, u'⟩ hx
    obtain ⟨hinv', -⟩ := hinvv.chans ch sA' hf'
    have hfind' : SMap.find? sA'.unacked id = some u' := SI.mem_find?_of_sorted hinv'.sorted hx
    obtain ⟨u1, hfind1, hkin1⟩ := hm'.2.2 id u' hfind'
    rcases hsim.find id with ⟨-, h2⟩ | ⟨u0, u1', hfind0, h2, hsim0⟩
    · rw [hfind1] at h2; cases h2
    · rw [hfind1] at h2; cases h2
      have hmem0' := SI.find?_some_mem hfind0
      rw [hun] at hmem0'
      refine (List.mem_append.mp hmem0').elim (fun hmem0 => False.elim ?_) (fun h => ⟨u0, h⟩)
      -- the effect of the ack on a packet of the flush
      have effOf : ∀ p ∈ flushPk s.a, isRel p = true → ∀ info, Conn.sentInfoOf p = .ok info → Eff v.a info := by
        intro p hp hrel info hinfo
        obtain ⟨info', hi', hfs⟩ := hrec p hp
        rw [hinfo] at hi'; cases hi'
        exact heff p.sequence _ info (SI.Acks.mem_iff_exists.mpr (hpend p hp hrel)) (by rw [hua]; exact hfs)
      cases u0 with
      | small m ls =>
        obtain ⟨sq, msgs, hp, hin⟩ := hsm id m ls hmem0
        obtain ⟨s2, hs2, hgone⟩ := effOf _ hp rfl (.relMsgs ch (msgs.map (·.1))) rfl
        rw [hf'] at hs2; cases hs2
        have := hgone id (List.mem_map.mpr ⟨(id, m), hin, rfl⟩)
        rw [hfind'] at this; cases this
      | sliced m n k nx ak ls =>
        cases u1 with
        | small _ _ => exact hsim0.elim
        | sliced m1 n1 k1 nx1 ak1 ls1 =>
          obtain ⟨rfl, rfl, rfl, rfl, -⟩ := hsim0
          cases u' with
          | small _ _ => exact hkin1.elim
          | sliced m2 n2 k2 nx2 a2 ls2 =>
            obtain ⟨rfl, rfl⟩ := hkin1
            obtain ⟨-, -, o3, -, o5, o6⟩ := hinv'.find_ok hfind'
            obtain ⟨i, hi1, hi2⟩ := exists_not_true_of_count_lt a2 (by omega)
            have hfalse : a2[i]? = some false := by
              rw [List.getElem?_eq_getElem hi1] at hi2 ⊢
              cases hb : a2[i] with
              | false => rfl
              | true => rw [hb] at hi2; exact absurd rfl hi2
            have hpendI : sA'.Pending id i := ⟨_, _, _, _, _, _, hfind', hfalse⟩
            have hin : i < n := by omega
            cases hak : ak.getD i false with
            | false =>
              obtain ⟨sq, hp⟩ := hsl id m n k nx ak ls hmem0 i hin hak
              obtain ⟨s2, hs2, hnp⟩ := effOf _ hp rfl (.relSlice ch id i) rfl
              rw [hf'] at hs2; cases hs2
              exact hnp hpendI
            | true =>
              obtain ⟨m3, n3, k3, nx3, a3, ls3, hf3, ha3⟩ := hm'.2.1 id i hpendI
              rw [hfind1] at hf3; cases hf3
              rw [List.getD_eq_getElem?_getD, ha3] at hak
              cases hak

/-- **No livelock of the budget by delivered messages (complete form, prefix version).**  A lossless round that
    covers the entries `pre` of channel `ch`'s backlog (H1, H2; `ks` = datagram indices including those of this
    flush), B still live afterwards and fewer than ACK_RANGE_CAP pending ack ranges in play; then after B's next flush
    and the delivery of its ack datagram, A's `unacked` on `ch` holds only entries of the uncovered rest `post`:
    what was delivered is not retransmitted and does not use up the budget of later ticks. -/
theorem acks_release_after_round_inv (cfg : Cfg) (s : Sys) (hg : GoodK cfg s)
    (hc : CountersOK cfg s) (hcA : s.a.CountersOK) (hda : s.a.isDisconnected = false)
    (ch : Nat) (sA : SendRel) (hfA : SMap.find? s.a.sendRel ch = some sA)
    (pre post : SMap Unacked) (hun : sA.unacked = pre ++ post)
    (H1 : AllDue s.a.now sA.resend pre) (H2 : backlog pre ≤ availAtTurn s.a ch)
    (ks : List Nat) (hks1 : ∀ k ∈ newIdx s, k ∈ ks) (n : Nat) (u : Sys) (hu : s.run (roundOps ch ks n) = some u)
    (hdb : u.b.isDisconnected = false) (hcB : u.b.CountersOK) (hne : u.b.pendingAcks ≠ [])
    (hcap : s.b.pendingAcks.length + ks.length < ACK_RANGE_CAP) :
    ∃ v, u.run [.flushB, .deliverToA (ackIdx u)] = some v ∧ v.a.isDisconnected = false ∧
      ∃ sA', SMap.find? v.a.sendRel ch = some sA' ∧ ∀ x ∈ sA'.unacked, ∃ u0, (x.1, u0) ∈ post := by
  refine acks_release_prefix_inv cfg s hg hc hcA hda ch sA hfA pre post hun H1 H2 ks n u hu hdb hcB hne ?_
  obtain ⟨pkA, h1, hR, -⟩ := hg.1
  have hL := hg.2
  -- decompose the round
  have hu' := hu
  simp only [roundOps, Sys.run] at hu'
  cases hs1 : s.step .flushA with
  | none => rw [hs1] at hu'; cases hu'
  | some s1 =>
    rw [hs1] at hu'
    dsimp only at hu'
    rw [Sys.run_append] at hu'
    cases ht : s1.run (ks.map SysOp.deliverToB) with
    | none => rw [ht] at hu'; cases hu'
    | some t =>
      rw [ht] at hu'
      simp only [Option.bind_some] at hu'
      obtain ⟨r1, r2⟩ := recv_run_b ch n t u hu'
      have hlt : t.b.isDisconnected = false := by rw [← r2]; exact hdb
      have h11 : Inv1 cfg s1 (pkA ++ flushPk s.a) := inv1_step h1 hs1
      have hl1 : s1.b.isDisconnected = false := deliver_live_back cfg ks s1 t _ h11 ht hlt
      have hsb : s1.b = s.b ∧ s1.a.packetSeq ≥ s.a.packetSeq := by
        simp only [Sys.step] at hs1
        split at hs1
        · next a' bs hm => cases hs1; exact ⟨rfl, (flush_facts h1.invA.1 hm).2.2.2.1⟩
        · cases hs1
      have hbound : ∀ seq tt largest, SMap.find? s1.b.sent seq = some (tt, SentInfo.ack largest) → largest < s.a.packetSeq := by
        rw [hsb.1]
        exact hL (by rw [← hsb.1]; exact hl1)
      obtain ⟨-, hnew⟩ := deliver_pending cfg s.a.packetSeq ks s1 t _ h11 hbound (by rw [hsb.1]; exact hcap) ht hlt
      intro p hp _
      obtain ⟨i, hi⟩ := List.mem_iff_getElem?.mp hp
      have hil : i < (flushPk s.a).length := (List.getElem?_eq_some_iff.mp hi).1
      have hk : pkA.length + i ∈ ks := by
        apply hks1
        unfold newIdx
        rw [List.mem_range'_1, pk_len h1]; omega
      have hpk : (pkA ++ flushPk s.a)[pkA.length + i]? = some p := by
        rw [List.getElem?_append_right (by omega)]
        have : pkA.length + i - pkA.length = i := by omega
        rw [this]; exact hi
      have hlo : s.a.packetSeq ≤ p.sequence := by
        simp only [Sys.step] at hs1
        split at hs1
        · next a' bs hm => exact ((flush_facts h1.invA.1 hm).2.2.1 p hp).1
        · cases hs1
      have := hnew _ hk p hpk hlo
      rw [← r1] at this
      exact SI.Acks.mem_iff_exists.mp this

/-- **What a lossless round leaves behind** (H3 + H4, any prefix of the backlog covered or not): B is live and
    still has room, the counters of the system are in range, and A's channel after the flush holds the same entries
    as before up to send times (`MapSim`). -/
theorem round_facts_inv (cfg : Cfg) (s : Sys) (hg : GoodK cfg s)
    (hc : CountersOK cfg s) (hcA : s.a.CountersOK) (hda : s.a.isDisconnected = false) (hdb : s.b.isDisconnected = false)
    (ch : Nat) (sA : SendRel) (hfA : SMap.find? s.a.sendRel ch = some sA)
    (rB : RecvRel) (hfB : SMap.find? s.b.recvRel ch = some rB)
    (H3 : Room (s.submitted ch) rB) (H4 : ∀ p ∈ flushPk s.a, OnlyCh ch p)
    (ks : List Nat) (hks : ∀ k ∈ ks, k ∈ newIdx s) (n : Nat) (u : Sys)
    (hu : s.run (roundOps ch ks n) = some u) :
    u.b.isDisconnected = false ∧ CountersOK cfg u ∧
    (∃ ru, SMap.find? u.b.recvRel ch = some ru ∧ Room (s.submitted ch) ru) ∧
    (∃ sA1, SMap.find? u.a.sendRel ch = some sA1 ∧ SI.MapSim sA.unacked sA1.unacked) := by
  obtain ⟨pkA, hA, hFs⟩ := allInv_of_goodL hg.1 hc
  obtain ⟨a1, bs, e, hd1, hseq1, -, -⟩ :=
    flush_covers (pre := []) (post := sA.unacked) (reach_conn hA.i1.reachA).1 hcA hda hfA (order_mem hA.i1.reachA hfA) rfl
      (fun _ h => by cases h) (Nat.zero_le _)
  have hs1 : s.step .flushA = some { s with a := a1, outA := s.outA ++ bs } := by simp only [Sys.step, e]
  generalize hs1d : ({ s with a := a1, outA := s.outA ++ bs } : Sys) = s1 at hs1
  have f1 : s1.a = a1 := by rw [← hs1d]
  have f3 : s1.submitted = s.submitted := by rw [← hs1d]
  have f4 : s1.submittedU = s.submittedU := by rw [← hs1d]
  have f7 : s1.b = s.b := by rw [← hs1d]
  have hc1 : CountersOK cfg s1 :=
    ⟨hc.chan, by rw [f1]; exact hseq1, by rw [f3]; exact hc.ids, by rw [f3]; exact hc.lens, by rw [f4]; exact hc.lensU⟩
  have hA1 : AllInv cfg s1 (pkA ++ flushPk s.a) := allInv_step hA hs1 hc1
  -- decompose the round
  simp only [roundOps, Sys.run, hs1] at hu
  rw [Sys.run_append] at hu
  cases ht : s1.run (ks.map SysOp.deliverToB) with
  | none => rw [ht] at hu; cases hu
  | some t =>
    rw [ht] at hu
    simp only [Option.bind_some] at hu
    have hFack : ∀ sq l, Packet.ack sq l ∈ flushPk s.a → Acks.WF l := by
      intro sq l hm
      obtain ⟨sq', e'⟩ := flush_acks e _ hm rfl
      cases e'
      exact hA.i1.invA.2
    obtain ⟨hlt, rt, hrt, hroomt⟩ := deliver_live cfg ch (flushPk s.a) H4 hFack ks s1 t _ rB hA1 hc1
      (by
        intro k hk
        have := hks k hk
        unfold newIdx at this
        rw [List.mem_range'_1, ← pk_len hA.i1] at this
        have hlt : k - pkA.length < (flushPk s.a).length := by omega
        refine ⟨(flushPk s.a)[k - pkA.length], List.getElem_mem _, ?_⟩
        rw [List.getElem?_append_right (by omega)]
        exact List.getElem?_eq_getElem hlt)
      (by rw [f7]; exact hdb) (by rw [f7]; exact hfB) (by rw [f3]; exact H3) ht
    rw [f3] at hroomt
    obtain ⟨g1, g2, g3, g4, g5, g6, g7⟩ := deliver_frame ks s1 t ht
    have hct : CountersOK cfg t := countersOK_congr (by rw [g1]) g4 g5 hc1
    have hAt : AllInv cfg t (pkA ++ flushPk s.a) := by
      have := allInv_run cfg _ s1 t _ hA1 ht hct
      rwa [runPk_noflush _ _ _ (by intro op hop; obtain ⟨k, -, rfl⟩ := List.mem_map.mp hop; exact fun h => by cases h)] at this
    obtain ⟨r1, r2⟩ := recv_run_b ch n t u hu
    have hua : u.a = a1 := by rw [recv_run_frame ch n t u hu, g1, f1]
    -- the frame of the drain, by determinism
    have hcu : CountersOK cfg u := by
      obtain ⟨u', hu', u1, u2, u3, -, -⟩ := drain_total cfg ch n t _ hAt.i1 (by
        left; rw [hrt]; exact fun h => by cases h)
      rw [hu] at hu'; cases hu'
      exact countersOK_congr (by rw [u1]) u2 u3 hct
    refine ⟨by rw [r2]; exact hlt, hcu, drain_room cfg ch _ n t u _ rt hAt hct hlt hrt hroomt hu, ?_⟩
    obtain ⟨-, -, hget, -⟩ := SI.Conn.getPacketsToSend_spec hA.i1.invA.1 hA.i1.invA.2 e
    obtain ⟨sA1, hf1, -⟩ := hget.keeps hfA
    obtain ⟨hsim, -⟩ := hget.2 ch sA sA1 hfA hf1
    exact ⟨sA1, by rw [hua]; exact hf1, hsim⟩

/-- **After a lossless round and the acknowledgement round, everything the flush of the round CARRIED on channel
    `ch` is released at A** — whichever part of the backlog that was: a small message that was in a packet of the flush
    has left `unacked`; a slice that was in a packet of the flush is no longer pending.  (Generalises
    `Live.acks_release_after_round_inv`, which states this for the entries of a covered prefix.) -/
theorem acks_release_carried_inv (cfg : Cfg) (s : Sys) (hg : GoodK cfg s)
    (hc : CountersOK cfg s) (hcA : s.a.CountersOK) (hda : s.a.isDisconnected = false)
    (ch : Nat) (sA : SendRel) (hfA : SMap.find? s.a.sendRel ch = some sA)
    (ks : List Nat) (hks1 : ∀ k ∈ newIdx s, k ∈ ks) (n : Nat) (u : Sys) (hu : s.run (roundOps ch ks n) = some u)
    (hdb : u.b.isDisconnected = false) (hcB : u.b.CountersOK) (hne : u.b.pendingAcks ≠ [])
    (hcap : s.b.pendingAcks.length + ks.length < ACK_RANGE_CAP) :
    ∃ v, u.run [.flushB, .deliverToA (ackIdx u)] = some v ∧
      ∃ sA', SMap.find? v.a.sendRel ch = some sA' ∧
        (∀ id m, SmallIn (flushPk s.a) ch id m → SMap.find? sA'.unacked id = none) ∧
        (∀ id i n' m, SliceIn (flushPk s.a) ch id i n' m → ¬ sA'.Pending id i) := by
  obtain ⟨pkA, hA, hFs⟩ := allInv_of_goodL hg.1 hc
  have h1 := hA.i1
  have hL := hg.2
  obtain ⟨a1, bs, e, hd1, hseq1, -, -⟩ :=
    flush_covers (pre := []) (post := sA.unacked) (reach_conn hA.i1.reachA).1 hcA hda hfA (order_mem hA.i1.reachA hfA) rfl
      (fun _ h => by cases h) (Nat.zero_le _)
  have hs1 : s.step .flushA = some { s with a := a1, outA := s.outA ++ bs } := by simp only [Sys.step, e]
  generalize hs1d : ({ s with a := a1, outA := s.outA ++ bs } : Sys) = s1 at hs1
  have f1 : s1.a = a1 := by rw [← hs1d]
  have f7 : s1.b = s.b := by rw [← hs1d]
  -- decompose the round
  have hu' := hu
  simp only [roundOps, Sys.run, hs1] at hu'
  rw [Sys.run_append] at hu'
  cases ht : s1.run (ks.map SysOp.deliverToB) with
  | none => rw [ht] at hu'; cases hu'
  | some t =>
    rw [ht] at hu'
    simp only [Option.bind_some] at hu'
    have hua : u.a = a1 := by
      rw [recv_run_frame ch n t u hu', (deliver_frame ks s1 t ht).1, f1]
    have hgu : GoodK cfg u := goodK_run _ hg hu
    obtain ⟨v, hv, hlv, -, -, hmono, hinvv, heff⟩ := acks_release_inv cfg u hgu (by rw [hua]; exact hd1) hdb hcB hne
    -- B holds the sequence numbers of the flush in its pending list
    obtain ⟨r1, r2⟩ := recv_run_b ch n t u hu'
    have hlt : t.b.isDisconnected = false := by rw [← r2]; exact hdb
    have h11 : Inv1 cfg s1 (pkA ++ flushPk s.a) := inv1_step h1 hs1
    have hl1 : s1.b.isDisconnected = false := deliver_live_back cfg ks s1 t _ h11 ht hlt
    have hbound : ∀ seq tt largest, SMap.find? s1.b.sent seq = some (tt, SentInfo.ack largest) → largest < s.a.packetSeq := by
      rw [f7]
      exact hL (by rw [← f7]; exact hl1)
    obtain ⟨-, hnew⟩ := deliver_pending cfg s.a.packetSeq ks s1 t _ h11 hbound (by rw [f7]; exact hcap) ht hlt
    have hpend : ∀ p ∈ flushPk s.a, Acks.Mem p.sequence u.b.pendingAcks := by
      intro p hp
      obtain ⟨i, hi⟩ := List.mem_iff_getElem?.mp hp
      have hil : i < (flushPk s.a).length := (List.getElem?_eq_some_iff.mp hi).1
      have hk : pkA.length + i ∈ ks := by
        apply hks1
        unfold newIdx
        rw [List.mem_range'_1, pk_len h1]; omega
      have hpk : (pkA ++ flushPk s.a)[pkA.length + i]? = some p := by
        rw [List.getElem?_append_right (by omega)]
        have : pkA.length + i - pkA.length = i := by omega
        rw [this]; exact hi
      have hlo : s.a.packetSeq ≤ p.sequence := ((flush_facts h1.invA.1 e).2.2.1 p hp).1
      have := hnew _ hk p hpk hlo
      rw [← r1] at this
      exact this
    -- A's channel after the flush, and what the ack does to a packet of the flush
    obtain ⟨-, -, hget, -⟩ := SI.Conn.getPacketsToSend_spec hA.i1.invA.1 hA.i1.invA.2 e
    obtain ⟨sA1, hf1, -⟩ := hget.keeps hfA
    obtain ⟨sA', hf', -⟩ := hmono ch sA1 (by rw [hua]; exact hf1)
    have hrec := flush_records hA.i1.invA.1 e hd1
    have effOf : ∀ p ∈ flushPk s.a, ∀ info, Conn.sentInfoOf p = .ok info → Eff v.a info := by
      intro p hp info hinfo
      obtain ⟨info', hi', hfs⟩ := hrec p hp
      rw [hinfo] at hi'; cases hi'
      exact heff p.sequence _ info (hpend p hp) (by rw [hua]; exact hfs)
    refine ⟨v, hv, sA', hf', ?_, ?_⟩
    · intro id m ⟨sq, msgs, hp, hin⟩
      obtain ⟨s2, hs2, hgone⟩ := effOf _ hp (.relMsgs ch (msgs.map (·.1))) rfl
      rw [hf'] at hs2; cases hs2
      exact hgone id (List.mem_map.mpr ⟨(id, m), hin, rfl⟩)
    · intro id i n' m ⟨sq, hp⟩
      obtain ⟨s2, hs2, hnp⟩ := effOf _ hp (.relSlice ch id i) rfl
      rw [hf'] at hs2; cases hs2
      exact hnp

/-- the forward leg of a round runs to completion on a reliable channel of either kind: nothing panics, A stays live -/
theorem round_runs_inv (cfg : Cfg) (s : Sys) (hg : GoodK cfg s)
    (hc : CountersOK cfg s) (hcA : s.a.CountersOK) (hda : s.a.isDisconnected = false)
    (ch : Nat) {ord : Bool} (hrk : RelKind cfg ch = some ord) (sA : SendRel) (hfA : SMap.find? s.a.sendRel ch = some sA)
    (ks : List Nat) (hks2 : ∀ k ∈ ks, k < s.outA.length + (flushPk s.a).length) (n : Nat) :
    ∃ u, s.run (roundOps ch ks n) = some u ∧ u.submitted = s.submitted ∧ u.a.isDisconnected = false := by
  obtain ⟨pkA, hA, hFs⟩ := allInv_of_goodL hg.1 hc
  obtain ⟨a1, bs, e, hd1, hseq1, -, -⟩ :=
    flush_covers (pre := []) (post := sA.unacked) (reach_conn hA.i1.reachA).1 hcA hda hfA (order_mem hA.i1.reachA hfA) rfl
      (fun _ h => by cases h) (Nat.zero_le _)
  have hs1 : s.step .flushA = some { s with a := a1, outA := s.outA ++ bs } := by simp only [Sys.step, e]
  generalize hs1d : ({ s with a := a1, outA := s.outA ++ bs } : Sys) = s1 at hs1
  have f1 : s1.a = a1 := by rw [← hs1d]
  have f2 : s1.outA = s.outA ++ bs := by rw [← hs1d]
  have f3 : s1.submitted = s.submitted := by rw [← hs1d]
  have f4 : s1.submittedU = s.submittedU := by rw [← hs1d]
  have hc1 : CountersOK cfg s1 :=
    ⟨hc.chan, by rw [f1]; exact hseq1, by rw [f3]; exact hc.ids, by rw [f3]; exact hc.lens, by rw [f4]; exact hc.lensU⟩
  have hA1 : AllInv cfg s1 (pkA ++ flushPk s.a) := allInv_step hA hs1 hc1
  have hbl := flush_len hA.i1 e
  obtain ⟨t, ht⟩ := deliver_total cfg ks s1 _ hA1.i1 (by
    intro k hk; rw [f2, List.length_append, hbl]; exact hks2 k hk)
  obtain ⟨g1, -, -, g4, g5, -, -⟩ := deliver_frame ks s1 t ht
  have hct : CountersOK cfg t := countersOK_congr (by rw [g1]) g4 g5 hc1
  have hAt := allInv_run cfg _ s1 t _ hA1 ht hct
  obtain ⟨u, hu, u1, u2, -, -, -⟩ := drain_total cfg ch n t _ hAt.i1 (hasRecv_of_relKind hAt.i1 hrk)
  refine ⟨u, ?_, by rw [u2, g4, f3], by rw [u1, g1, f1]; exact hd1⟩
  simp only [roundOps, Sys.run, hs1]
  rw [Sys.run_append, ht]; exact hu

/-- **One full round** on a reliable channel of kind `ord`.  `q` = number of entries of A's `unacked` (those with the
    smallest ids) whose total cost the budget offered to channel `ch` covers.  After the round both endpoints are
    live, B still has room (H3), what B's application obtained has only grown (on an ordered channel it is a prefix of
    what was submitted), and A's `unacked` holds only entries that were NOT among the first `q` — each `Shrunk`, hence
    at most as expensive as before —; whatever the flush carried is released; if the first `q` entries were all,
    everything is `Delivered`. -/
theorem full_round_inv (cfg : Cfg) (s : Sys) (hg : GoodK cfg s)
    (hda : s.a.isDisconnected = false) (hdb : s.b.isDisconnected = false)
    (ch : Nat) (ord : Bool) (ho : KindOf cfg ch ord) (sA : SendRel) (hfA : SMap.find? s.a.sendRel ch = some sA)
    (rB : RecvRel) (hfB : SMap.find? s.b.recvRel ch = some rB) (H3 : Room (s.submitted ch) rB)
    (dt : Nat) (hdt : sA.resend ≤ dt) (su : Sys) (hsu : s.step (.updA dt) = some su)
    (hc : CountersOK cfg su) (hcA : su.a.CountersOK)
    (q : Nat) (H2 : backlog (sA.unacked.take q) ≤ availAtTurn su.a ch)
    (H4 : ∀ p ∈ flushPk su.a, OnlyCh ch p)
    (ks : List Nat) (hks1 : ∀ k ∈ newIdx su, k ∈ ks) (hks2 : ∀ k ∈ ks, k ∈ newIdx su)
    (n : Nat) (hn : (s.submitted ch).length ≤ (s.obtained ch).length + n)
    (hcap : su.b.pendingAcks.length + ks.length < ACK_RANGE_CAP)
    (ai : Nat)
    (hB : ∀ u, su.run (roundOps ch ks n) = some u → u.b.CountersOK ∧ u.b.pendingAcks ≠ [] ∧ ai = ackIdx u) :
    ∃ v, s.run (fullRoundOps ch dt ks n ai) = some v ∧
      v.a.isDisconnected = false ∧ v.b.isDisconnected = false ∧ v.submitted = s.submitted ∧
      s.obtained ch <+: v.obtained ch ∧ (ord = true → v.obtained ch <+: s.submitted ch) ∧
      (∃ rB', SMap.find? v.b.recvRel ch = some rB' ∧ Room (s.submitted ch) rB') ∧
      (∃ sA', SMap.find? v.a.sendRel ch = some sA' ∧ sA'.Inv ∧
        (∀ x ∈ sA'.unacked, ∃ u0, (x.1, u0) ∈ sA.unacked.drop q ∧ Shrunk u0 x.2) ∧
        (∀ id m, SmallIn (flushPk su.a) ch id m → SMap.find? sA'.unacked id = none) ∧
        (∀ id i n' m, SliceIn (flushPk su.a) ch id i n' m → ¬ sA'.Pending id i)) ∧
      (sA.unacked.drop q = [] → Delivered ord (v.obtained ch) (s.submitted ch)) := by
  obtain ⟨pk0, i10, -⟩ := hg.1
  obtain ⟨hfu, hdue⟩ := due_after_update_inv i10 ch sA hfA dt hdt su hsu
  obtain ⟨-, -, e3, -, e5, e6, -, e8, -⟩ := updA_frame hsu
  have hgsu : GoodK cfg su := goodK_step hg hsu
  have hdau : su.a.isDisconnected = false := by rw [e3]; exact hda
  obtain ⟨pkA, hA, hFsu⟩ := allInv_of_goodL hgsu.1 hc
  obtain ⟨hinvA, -⟩ := hA.i1.invA.1.chans ch sA hfu
  obtain ⟨-, hsd, -⟩ := sorted_take_drop hinvA.sorted q
  have hun : sA.unacked = sA.unacked.take q ++ sA.unacked.drop q := (List.take_append_drop q _).symm
  -- the id below which everything is covered
  have hbound : ∀ x ∈ sA.unacked.drop q, x.1 < (su.submitted ch).length := by
    intro x hx
    have := (hA.i1.chanA ch sA hfu).1.gen _ (List.mem_of_mem_drop hx)
    exact (List.getElem?_eq_some_iff.mp this).1
  have hks2' : ∀ k ∈ ks, k < su.outA.length + (flushPk su.a).length := by
    intro k hk
    have := hks2 k hk
    unfold newIdx at this
    rw [List.mem_range'_1] at this; exact this.2
  obtain ⟨u, hu, a1, a2⟩ := round_runs_inv cfg su hgsu hc hcA hdau ch (relKind_of_kind ho) sA hfu ks hks2' n
  obtain ⟨hlu, hcu, ⟨ru, hru, hroomu⟩, sA1, hf1, hsim⟩ := round_facts_inv cfg su hgsu hc hcA hdau (by rw [e5]; exact hdb)
    ch sA hfu rB (by rw [e5]; exact hfB) (by rw [e6]; exact H3) H4 ks hks2 n u hu
  -- what B's application has obtained
  have hdel : (ord = true → u.obtained ch <+: su.submitted ch) ∧
      (sA.unacked.drop q = [] → Delivered ord (u.obtained ch) (su.submitted ch)) := by
    cases ord with
    | true =>
      obtain ⟨t, u', -, -, hu', -, -, -, a4⟩ := round_progress_inv hA hc hcA hdau ch ho sA hfu
        (sA.unacked.take q) (sA.unacked.drop q) hun (cut (su.submitted ch).length (sA.unacked.drop q)) (cut_le hsd)
        (cut_le_len hbound) (fun x hx => hdue x (List.mem_of_mem_take hx)) H2 ks hks1 hks2'
        n (by
          have := cut_le_len (L := (su.submitted ch).length) hbound
          rw [e6] at this ⊢; rw [e8]; omega)
      rw [hu] at hu'; cases hu'
      obtain ⟨p1, p2⟩ := a4 hlu
      refine ⟨fun _ => p2, fun hnil => ?_⟩
      rw [hnil] at p1
      simp only [cut] at p1
      rw [List.take_length] at p1
      exact p2.eq_of_length (Nat.le_antisymm p2.length_le p1.length_le)
    | false =>
      refine ⟨fun h => (by cases h), fun hnil => ?_⟩
      have hall := List.take_append_drop q sA.unacked
      rw [hnil, List.append_nil] at hall
      obtain ⟨t, u', -, -, hu', -, -, -, hcon⟩ := round_delivers_unordered_inv hA hFsu hc hcA hdau ch ho sA hfu hdue
        (by rw [← hall]; exact H2) ks hks1 hks2' n (by rw [e6, e8]; exact hn)
      rw [hu] at hu'; cases hu'
      exact hcon hlu
  -- the acknowledgement leg
  obtain ⟨hcB, hne, rfl⟩ := hB u hu
  have hgu : GoodK cfg u := goodK_run _ hgsu hu
  obtain ⟨v, hv, hlv, sA', hf', hall⟩ := acks_release_after_round_inv cfg su hgsu hc hcA hdau ch sA hfu
    (sA.unacked.take q) (sA.unacked.drop q) hun (fun x hx => hdue x (List.mem_of_mem_take hx)) H2 ks hks1 n u hu
    hlu hcB hne hcap
  obtain ⟨v', hv', -, hsub, hobt, hmono, hinvv, -⟩ := acks_release_inv cfg u hgu a2 hlu hcB hne
  rw [hv] at hv'; cases hv'
  obtain ⟨v'', hv'', sA'', hf'', hcs, hcl⟩ := acks_release_carried_inv cfg su hgsu hc hcA hdau ch sA hfu ks hks1 n u hu
    hlu hcB hne hcap
  rw [hv] at hv''; cases hv''
  rw [hf'] at hf''; cases hf''
  obtain ⟨pkU, hU1, -⟩ := hgu.1
  obtain ⟨hlvb, hrecv⟩ := ack_leg_frame hU1 hlu hcB hv
  have hrun : s.run (fullRoundOps ch dt ks n (ackIdx u)) = some v := by
    simp only [fullRoundOps, Sys.run, hsu]
    rw [Sys.run_append, hu]; exact hv
  refine ⟨v, hrun, hlv, hlvb, by rw [hsub, a1, e6], ?_, fun ho' => by rw [hobt, ← e6]; exact hdel.1 ho',
    ⟨ru, by rw [hrecv]; exact hru, by rw [← e6]; exact hroomu⟩,
    ⟨sA', hf', (hinvv.chans ch sA' hf').1, ?_, hcs, hcl⟩, ?_⟩
  · exact obtained_mono ch _ s v hrun
  · -- cost of what is left
    rintro ⟨id, u'⟩ hx
    obtain ⟨u0, h0⟩ := hall _ hx
    refine ⟨u0, h0, ?_⟩
    obtain ⟨hinv', -⟩ := hinvv.chans ch sA' hf'
    have hfind' : SMap.find? sA'.unacked id = some u' := SI.mem_find?_of_sorted hinv'.sorted hx
    obtain ⟨sA3, hf3, hm'⟩ := hmono ch sA1 hf1
    rw [hf'] at hf3; cases hf3
    obtain ⟨u1, hfind1, hcost⟩ := shrunk_of_ack hinv' hm' hfind'
    have hfind0 : SMap.find? sA.unacked id = some u0 :=
      SI.mem_find?_of_sorted hinvA.sorted (List.mem_of_mem_drop h0)
    rcases hsim.find id with ⟨h1, -⟩ | ⟨w0, w1, h1, h2, hs01⟩
    · rw [hfind0] at h1; cases h1
    · rw [hfind0] at h1; cases h1
      rw [hfind1] at h2; cases h2
      exact shrunk_of_sim hs01 hcost
  · intro hnil
    rw [hobt, ← e6]
    exact hdel.2 hnil

/-- `LiveK.RoundStep` with "reachable from `Sys.init`" replaced by the invariant `GoodK` -/
def RoundStepI (cfg : Cfg) (ch : Nat) (ord : Bool) (Sched : Sys → Prop) (Good : Nat → SMap Unacked → Prop) : Prop :=
  ∀ (k : Nat) (s : Sys) (sA : SendRel) (rB : RecvRel) (r : RoundP),
    GoodK cfg s → s.a.isDisconnected = false → s.b.isDisconnected = false →
    SMap.find? s.a.sendRel ch = some sA → SMap.find? s.b.recvRel ch = some rB → Room (s.submitted ch) rB →
    RoundOK cfg ch Sched s r → Good (k + 1) sA.unacked →
    ∃ v, s.run (r.ops ch) = some v ∧ v.a.isDisconnected = false ∧ v.b.isDisconnected = false ∧
      v.submitted = s.submitted ∧ (∃ rB', SMap.find? v.b.recvRel ch = some rB' ∧ Room (s.submitted ch) rB') ∧
      (∃ sA', SMap.find? v.a.sendRel ch = some sA' ∧ Good k sA'.unacked) ∧
      (k = 0 → Delivered ord (v.obtained ch) (s.submitted ch))

/-- **The iteration**: `k ≥ 1` rounds, each achieving `RoundStep`, started `Good k`, deliver everything. -/
theorem rounds_of_step_inv {cfg : Cfg} {ch : Nat} {ord : Bool} {Sched : Sys → Prop} {Good : Nat → SMap Unacked → Prop}
    (hstep : RoundStepI cfg ch ord Sched Good) :
    ∀ (rs : List RoundP) (s : Sys) (sA : SendRel) (rB : RecvRel),
      GoodK cfg s → s.a.isDisconnected = false → s.b.isDisconnected = false →
      SMap.find? s.a.sendRel ch = some sA → SMap.find? s.b.recvRel ch = some rB → Room (s.submitted ch) rB →
      Rounds cfg ch Sched s rs → rs ≠ [] → Good rs.length sA.unacked →
      ∃ u, s.run (roundsOps ch rs) = some u ∧ u.a.isDisconnected = false ∧ u.b.isDisconnected = false ∧
        u.submitted ch = s.submitted ch ∧ Delivered ord (u.obtained ch) (s.submitted ch)
  | [], _, _, _, _, _, _, _, _, _, _, hne, _ => absurd rfl hne
  | r :: rs, s, sA, rB, hg, hda, hdb, hfA, hfB, H3, hR, _, hgood => by
    obtain ⟨hok, hnext⟩ := hR
    obtain ⟨v, hv, hlva, hlvb, hsub, ⟨rB', hfB', H3'⟩, ⟨sA', hfA', hgood'⟩, hfin⟩ :=
      hstep rs.length s sA rB r hg hda hdb hfA hfB H3 hok (by simpa using hgood)
    cases rs with
    | nil =>
      refine ⟨v, ?_, hlva, hlvb, by rw [hsub], hfin rfl⟩
      simp only [roundsOps, List.append_nil]; exact hv
    | cons r2 rs2 =>
      have hrv : GoodK cfg v := goodK_run _ hg hv
      obtain ⟨w, hw, w1, w2, w3, w4⟩ := rounds_of_step_inv hstep (r2 :: rs2) v sA' rB' hrv hlva hlvb
        hfA' hfB' (by rw [hsub]; exact H3') (hnext v hv) (by simp) hgood'
      refine ⟨w, ?_, w1, w2, by rw [w3, hsub], by rw [hsub] at w4; exact w4⟩
      simp only [roundsOps] at hw ⊢
      rw [Sys.run_append, hv]; exact hw

/-- `RoundStep` from whole-entry coverage.  `hcover`: in a round with `k + 1` rounds to go the scheduling hypothesis
    yields H4 and a number `q` of oldest entries that the budget covers (H2) such that what can be left afterwards is
    `Good k` — and nothing is left when `k = 0`. -/
theorem step_of_cover_inv (cfg : Cfg) (ch : Nat) (ord : Bool) (ho : KindOf cfg ch ord) (Sched : Sys → Prop) (Good : Nat → SMap Unacked → Prop)
    (hcover : ∀ (k : Nat) (su : Sys) (sA : SendRel), GoodK cfg su → Sched su →
      SMap.find? su.a.sendRel ch = some sA → Good (k + 1) sA.unacked →
      (∀ p ∈ flushPk su.a, OnlyCh ch p) ∧
      ∃ q, backlog (sA.unacked.take q) ≤ availAtTurn su.a ch ∧ (k = 0 → sA.unacked.drop q = []) ∧
        ∀ un', SI.Sorted un' → (∀ x ∈ un', ∃ u0, (x.1, u0) ∈ sA.unacked.drop q ∧ entryCost x.2 ≤ entryCost u0) →
          Good k un') :
    RoundStepI cfg ch ord Sched Good := by
  intro k s sA rB r hg hda hdb hfA hfB H3 hok hgood
  obtain ⟨pk, h1, -⟩ := hg.1
  obtain ⟨su, hsu⟩ := updA_step h1 r.dt
  obtain ⟨hc, hcA, hsched, hall, hexact, hcap, hback⟩ := hok.tick su hsu
  obtain ⟨-, e2, -⟩ := updA_frame hsu
  obtain ⟨H4, q, H2, hlast, hleft⟩ := hcover k su sA (goodK_step hg hsu) hsched (by rw [e2]; exact hfA) hgood
  obtain ⟨v, hv, hlva, hlvb, hsub, -, -, hroom, ⟨sA', hfA', hinv', hemb0, -, -⟩, hfin⟩ :=
    full_round_inv cfg s hg hda hdb ch ord ho sA hfA rB hfB H3 r.dt (hok.timer sA hfA) su hsu hc hcA q H2 H4 r.ks hall hexact
      r.n hok.drain hcap r.ai hback
  refine ⟨v, hv, hlva, hlvb, hsub, hroom, ⟨sA', hfA', hleft _ hinv'.sorted ?_⟩, fun hk => hfin (hlast hk)⟩
  intro x hx
  obtain ⟨u0, h0, hs0⟩ := hemb0 x hx
  exact ⟨u0, h0, entryCost_le_of_shrunk hs0⟩

/-- the iteration for whole-entry coverage -/
theorem rounds_generic_inv (cfg : Cfg) (ch : Nat) (ord : Bool) (ho : KindOf cfg ch ord) (Sched : Sys → Prop) (Good : Nat → SMap Unacked → Prop)
    (hcover : ∀ (k : Nat) (su : Sys) (sA : SendRel), GoodK cfg su → Sched su →
      SMap.find? su.a.sendRel ch = some sA → Good (k + 1) sA.unacked →
      (∀ p ∈ flushPk su.a, OnlyCh ch p) ∧
      ∃ q, backlog (sA.unacked.take q) ≤ availAtTurn su.a ch ∧ (k = 0 → sA.unacked.drop q = []) ∧
        ∀ un', SI.Sorted un' → (∀ x ∈ un', ∃ u0, (x.1, u0) ∈ sA.unacked.drop q ∧ entryCost x.2 ≤ entryCost u0) →
          Good k un') :
    ∀ (rs : List RoundP) (s : Sys) (sA : SendRel) (rB : RecvRel),
      GoodK cfg s → s.a.isDisconnected = false → s.b.isDisconnected = false →
      SMap.find? s.a.sendRel ch = some sA → SMap.find? s.b.recvRel ch = some rB → Room (s.submitted ch) rB →
      Rounds cfg ch Sched s rs → rs ≠ [] → Good rs.length sA.unacked →
      ∃ u, s.run (roundsOps ch rs) = some u ∧ u.a.isDisconnected = false ∧ u.b.isDisconnected = false ∧
        u.submitted ch = s.submitted ch ∧ Delivered ord (u.obtained ch) (s.submitted ch) :=
  rounds_of_step_inv (step_of_cover_inv cfg ch ord ho Sched Good hcover)

/-- **k rounds, entry count.**  Every round covers the `q` oldest entries: `k` rounds with `k * q ≥` number of stored
    entries (and `k ≥ 1`) deliver everything. -/
theorem rounds_count_inv (cfg : Cfg) (s : Sys) (hg : GoodK cfg s)
    (hda : s.a.isDisconnected = false) (hdb : s.b.isDisconnected = false)
    (ch : Nat) (ord : Bool) (ho : KindOf cfg ch ord) (sA : SendRel) (hfA : SMap.find? s.a.sendRel ch = some sA)
    (rB : RecvRel) (hfB : SMap.find? s.b.recvRel ch = some rB) (H3 : Room (s.submitted ch) rB)
    (q : Nat) (rs : List RoundP) (hR : Rounds cfg ch (SchedCount ch q) s rs)
    (hk1 : rs ≠ []) (hk : sA.unacked.length ≤ rs.length * q) :
    ∃ u, s.run (roundsOps ch rs) = some u ∧ u.a.isDisconnected = false ∧ u.b.isDisconnected = false ∧
      u.submitted ch = s.submitted ch ∧ Delivered ord (u.obtained ch) (s.submitted ch) := by
  refine rounds_generic_inv cfg ch ord ho (SchedCount ch q) (fun k un => un.length ≤ k * q) ?_ rs s sA rB hg hda hdb hfA hfB H3
    hR hk1 hk
  intro k su sA' _ hs hf hg
  refine ⟨hs.1, q, hs.2 sA' hf, ?_, ?_⟩
  · intro hk0
    subst hk0
    apply List.drop_eq_nil_of_le
    simpa using hg
  · intro un' hsort hemb
    have h1 := keys_length_le hsort (fun x hx => by obtain ⟨u0, h0, -⟩ := hemb x hx; exact ⟨u0, h0⟩)
    rw [List.length_drop] at h1
    rw [Nat.succ_mul] at hg
    omega

/-- **k rounds, bytes.**  Every stored entry costs at most `c ≤ B` bytes and every round offers the channel at least
    `B` bytes: each round that does not finish reduces the backlog by at least `B - c + 1` bytes, so `k` rounds with
    `k * (B - c + 1) ≥ backlog` (and `k ≥ 1`) deliver everything. -/
theorem rounds_bytes_inv (cfg : Cfg) (s : Sys) (hg : GoodK cfg s)
    (hda : s.a.isDisconnected = false) (hdb : s.b.isDisconnected = false)
    (ch : Nat) (ord : Bool) (ho : KindOf cfg ch ord) (sA : SendRel) (hfA : SMap.find? s.a.sendRel ch = some sA)
    (rB : RecvRel) (hfB : SMap.find? s.b.recvRel ch = some rB) (H3 : Room (s.submitted ch) rB)
    (B c : Nat) (hcB : c ≤ B) (hcost : ∀ x ∈ sA.unacked, entryCost x.2 ≤ c)
    (Sched : Sys → Prop)
    (hS : ∀ su, GoodK cfg su → Sched su →
      (∀ p ∈ flushPk su.a, OnlyCh ch p) ∧ B ≤ availAtTurn su.a ch)
    (rs : List RoundP) (hR : Rounds cfg ch Sched s rs)
    (hk1 : rs ≠ []) (hk : backlog sA.unacked ≤ rs.length * (B - c + 1)) :
    ∃ u, s.run (roundsOps ch rs) = some u ∧ u.a.isDisconnected = false ∧ u.b.isDisconnected = false ∧
      u.submitted ch = s.submitted ch ∧ Delivered ord (u.obtained ch) (s.submitted ch) := by
  refine rounds_generic_inv cfg ch ord ho Sched
    (fun k un => (∀ x ∈ un, entryCost x.2 ≤ c) ∧ backlog un ≤ k * (B - c + 1)) ?_ rs s sA rB hg hda hdb hfA hfB H3
    hR hk1 ⟨hcost, hk⟩
  intro k su sA' hr' hs hf hg
  obtain ⟨hg1, hg2⟩ := hg
  obtain ⟨H4, hB⟩ := hS su hr' hs
  obtain ⟨pk, h1, -⟩ := hr'.1
  obtain ⟨hinv, -⟩ := h1.invA.1.chans ch sA' hf
  obtain ⟨q, hq1, hq2⟩ := exists_greedy (B := B) sA'.unacked
  obtain ⟨-, hsd, -⟩ := sorted_take_drop hinv.sorted q
  have hsum := backlog_take_drop sA'.unacked q
  refine ⟨H4, q, Nat.le_trans hq1 hB, ?_, ?_⟩
  · intro hk0
    subst hk0
    rcases hq2 with e | ⟨⟨kx, ux⟩, rest, e, hlt⟩
    · exact e
    · exfalso
      rw [e] at hsum
      simp only [backlog_cons] at hsum
      simp only [Nat.zero_add, Nat.one_mul] at hg2
      have hxc : entryCost ux ≤ c := hg1 (kx, ux) (List.mem_of_mem_drop (by rw [e]; exact List.mem_cons_self ..))
      dsimp only at hlt
      omega
  · intro un' hsort hemb
    refine ⟨?_, ?_⟩
    · intro x hx
      obtain ⟨u0, h0, hc0⟩ := hemb x hx
      exact Nat.le_trans hc0 (hg1 _ (List.mem_of_mem_drop h0))
    · have hle := backlog_le_of_embed un' _ hsort hsd hemb
      rcases hq2 with e | ⟨⟨kx, ux⟩, rest, e, hlt⟩
      · rw [e] at hle
        simp only [backlog_nil] at hle
        omega
      · have hxc : entryCost ux ≤ c := hg1 (kx, ux) (List.mem_of_mem_drop (by rw [e]; exact List.mem_cons_self ..))
        rw [Nat.succ_mul] at hg2
        dsimp only at hlt
        omega

/-- **One full round, slice form.**  The budget offered to channel `ch` covers the entries `pre` (smallest ids) and the
    un-acknowledged slices at the first `n1` loop positions of the NEXT entry, a sliced message.  After the round
    A's `unacked` holds entries of the uncovered rest `post`, none more expensive than before, and possibly that
    sliced entry — cheaper by `SLICE_SIZE` for every slice that was covered. -/
theorem full_round_part_inv (cfg : Cfg) (s : Sys) (hg : GoodK cfg s)
    (hda : s.a.isDisconnected = false) (hdb : s.b.isDisconnected = false)
    (ch : Nat) (ord : Bool) (ho : KindOf cfg ch ord) (sA : SendRel) (hfA : SMap.find? s.a.sendRel ch = some sA)
    (rB : RecvRel) (hfB : SMap.find? s.b.recvRel ch = some rB) (H3 : Room (s.submitted ch) rB)
    (dt : Nat) (hdt : sA.resend ≤ dt) (su : Sys) (hsu : s.step (.updA dt) = some su)
    (hc : CountersOK cfg su) (hcA : su.a.CountersOK)
    (pre post : SMap Unacked) (id : Nat) (m : Bytes) (n na nx : Nat) (ak : List Bool) (ls : List (Option Nat))
    (hun : sA.unacked = pre ++ (id, Unacked.sliced m n na nx ak ls) :: post)
    (n1 : Nat) (hn1 : n1 ≤ n)
    (H2 : backlog pre + SLICE_SIZE * cntLoop n nx ak (List.range n1) ≤ availAtTurn su.a ch)
    (H4 : ∀ p ∈ flushPk su.a, OnlyCh ch p)
    (ks : List Nat) (hks1 : ∀ k ∈ newIdx su, k ∈ ks) (hks2 : ∀ k ∈ ks, k ∈ newIdx su)
    (nr : Nat) (hn : (s.submitted ch).length ≤ (s.obtained ch).length + nr)
    (hcap : su.b.pendingAcks.length + ks.length < ACK_RANGE_CAP)
    (ai : Nat)
    (hB : ∀ u, su.run (roundOps ch ks nr) = some u → u.b.CountersOK ∧ u.b.pendingAcks ≠ [] ∧ ai = ackIdx u) :
    ∃ v, s.run (fullRoundOps ch dt ks nr ai) = some v ∧
      v.a.isDisconnected = false ∧ v.b.isDisconnected = false ∧ v.submitted = s.submitted ∧
      (∃ rB', SMap.find? v.b.recvRel ch = some rB' ∧ Room (s.submitted ch) rB') ∧
      (∃ sA', SMap.find? v.a.sendRel ch = some sA' ∧ sA'.Inv ∧
        ∀ x ∈ sA'.unacked, (∃ u0, (x.1, u0) ∈ post ∧ entryCost x.2 ≤ entryCost u0) ∨
          (x.1 = id ∧ entryCost x.2 + SLICE_SIZE * cntLoop n nx ak (List.range n1) ≤
            SLICE_SIZE * (unackedIdx n ak).length)) := by
  have htake : sA.unacked.take pre.length = pre := by rw [hun]; simp
  have hdrop : sA.unacked.drop pre.length = (id, Unacked.sliced m n na nx ak ls) :: post := by rw [hun]; simp
  obtain ⟨v, hv, hlva, hlvb, hsub, -, -, hroom, ⟨sA', hfA', hinv', hemb, -, hcl⟩, -⟩ :=
    full_round_inv cfg s hg hda hdb ch ord ho sA hfA rB hfB H3 dt hdt su hsu hc hcA pre.length
      (by rw [htake]; omega) H4 ks hks1 hks2 nr hn hcap ai hB
  refine ⟨v, hv, hlva, hlvb, hsub, hroom, sA', hfA', hinv', ?_⟩
  -- the slices the flush carried
  obtain ⟨pk0, i10, -⟩ := hg.1
  obtain ⟨hfu, hdue⟩ := due_after_update_inv i10 ch sA hfA dt hdt su hsu
  obtain ⟨-, -, e3, -⟩ := updA_frame hsu
  have hgsu : GoodK cfg su := goodK_step hg hsu
  obtain ⟨pkA, hA, hFsu⟩ := allInv_of_goodL hgsu.1 hc
  obtain ⟨hinvA, hch⟩ := hA.i1.invA.1.chans ch sA hfu
  obtain ⟨c', bs, seq1, -, -, -, hcont⟩ := flush_contains (reach_conn hA.i1.reachA).1 hcA (by rw [e3]; exact hda) hfu
    (order_mem hA.i1.reachA hfu)
  have hcov : ∀ i0, i0 < n1 → ak.getD ((nx + i0) % n) false = false →
      SliceIn (flushPk su.a) ch id ((nx + i0) % n) n m := by
    intro i0 hi0 hak
    have := getPackets_cover_part (s := sA) (seq := seq1) (avail := availAtTurn su.a ch) (now := su.a.now)
      (s' := (sA.getPackets seq1 (availAtTurn su.a ch) su.a.now).1)
      (ps := (sA.getPackets seq1 (availAtTurn su.a ch) su.a.now).2.1)
      (seq' := (sA.getPackets seq1 (availAtTurn su.a ch) su.a.now).2.2.1)
      (avail' := (sA.getPackets seq1 (availAtTurn su.a ch) su.a.now).2.2.2) rfl hinvA hun
      (fun x hx => hdue x (by
        rw [hun]
        rcases List.mem_append.mp hx with h | h
        · exact List.mem_append_left _ h
        · exact List.mem_append_right _ (List.mem_cons.mpr (Or.inl (List.mem_singleton.mp h)))))
      n1 hn1 H2 i0 hi0 hak
    rw [hch] at this
    exact this.mono hcont
  rintro ⟨kx, ux⟩ hx
  obtain ⟨u0, h0, hs0⟩ := hemb _ hx
  rw [hdrop] at h0
  rcases List.mem_cons.mp h0 with e | h0
  · right
    simp only [Prod.mk.injEq] at e
    obtain ⟨rfl, rfl⟩ := e
    refine ⟨rfl, ?_⟩
    cases ux with
    | small _ _ => exact hs0.elim
    | sliced m' n' k' nx' ak' ls' =>
      obtain ⟨rfl, rfl, hlen, hsubs⟩ := hs0
      have hfind' : SMap.find? sA'.unacked kx = some (Unacked.sliced m n k' nx' ak' ls') :=
        SI.mem_find?_of_sorted hinv'.sorted hx
      have hcnt := leftover_count n nx n1 hn1 ak ak' hsubs (by
        intro i0 hi0 hak
        have hnp := hcl kx _ n m (hcov i0 hi0 hak)
        have hpos : (nx + i0) % n < ak'.length := by rw [hlen]; exact Nat.mod_lt _ (by omega)
        cases hb : ak'[(nx + i0) % n] with
        | true => rw [List.getD_eq_getElem?_getD, List.getElem?_eq_getElem hpos, hb]; rfl
        | false =>
          exact absurd ⟨_, _, _, _, _, _, hfind', by rw [List.getElem?_eq_getElem hpos, hb]⟩ hnp)
      simp only [entryCost]
      rw [← Nat.mul_add]
      exact Nat.mul_le_mul_left _ hcnt
  · exact Or.inl ⟨u0, h0, entryCost_le_of_shrunk hs0⟩

/-- **`RoundStep` for the general byte bound.**  Every round offers channel `ch` at least `B ≥ SLICE_SIZE` bytes (and
    carries nothing else, H4).  A round either covers everything or shrinks the backlog by at least
    `B - SLICE_SIZE + 1` bytes: the greedy prefix of UNITS (small messages; single slices, in the order of the slice
    loop) leaves less than one unit — at most `SLICE_SIZE` bytes — of the budget unused. -/
theorem step_bytes_any_inv (cfg : Cfg) (ch : Nat) (ord : Bool) (ho : KindOf cfg ch ord) (B : Nat) (hSB : SLICE_SIZE ≤ B)
    (Sched : Sys → Prop)
    (hS : ∀ su, GoodK cfg su → Sched su →
      (∀ p ∈ flushPk su.a, OnlyCh ch p) ∧ B ≤ availAtTurn su.a ch) :
    RoundStepI cfg ch ord Sched (fun k un => backlog un ≤ k * (B - SLICE_SIZE + 1)) := by
  intro k s sA rB r hg hda hdb hfA hfB H3 hok hgood
  dsimp only at hgood ⊢
  obtain ⟨pk, h1, -⟩ := hg.1
  obtain ⟨su, hsu⟩ := updA_step h1 r.dt
  obtain ⟨hc, hcA, hsched, hall, hexact, hcap, hback⟩ := hok.tick su hsu
  obtain ⟨H4, hB⟩ := hS su (goodK_step hg hsu) hsched
  obtain ⟨hinvA, -⟩ := h1.invA.1.chans ch sA hfA
  have hSpos : 0 < SLICE_SIZE := by decide
  obtain ⟨q, hq1, hq2⟩ := exists_greedy (B := B) sA.unacked
  obtain ⟨-, hsd, -⟩ := sorted_take_drop hinvA.sorted q
  have hsum := backlog_take_drop sA.unacked q
  rw [Nat.succ_mul] at hgood
  rcases hq2 with e | ⟨⟨kx, ux⟩, rest, e, hlt⟩
  · -- everything is covered
    obtain ⟨v, hv, hlva, hlvb, hsub, -, -, hroom, ⟨sA', hfA', hinv', hemb0, -, -⟩, hfin⟩ :=
      full_round_inv cfg s hg hda hdb ch ord ho sA hfA rB hfB H3 r.dt (hok.timer sA hfA) su hsu hc hcA q
        (Nat.le_trans hq1 hB) H4 r.ks hall hexact r.n hok.drain hcap r.ai hback
    refine ⟨v, hv, hlva, hlvb, hsub, hroom, ⟨sA', hfA', ?_⟩, fun _ => hfin e⟩
    have : sA'.unacked = [] := by
      rw [List.eq_nil_iff_forall_not_mem]
      intro x hx
      obtain ⟨u0, h0, -⟩ := hemb0 x hx
      rw [e] at h0; cases h0
    rw [this]; exact Nat.zero_le _
  · dsimp only at hlt
    have hmemx : (kx, ux) ∈ sA.unacked := List.mem_of_mem_drop (by rw [e]; exact List.mem_cons_self ..)
    have hk0 : k ≠ 0 := by
      intro hk
      subst hk
      rw [e] at hsum
      simp only [backlog_cons] at hsum
      omega
    cases ux with
    | small mx lsx =>
      have hlen : mx.length ≤ SLICE_SIZE := hinvA.entries _ hmemx
      simp only [entryCost] at hlt
      obtain ⟨v, hv, hlva, hlvb, hsub, -, -, hroom, ⟨sA', hfA', hinv', hemb0, -, -⟩, -⟩ :=
        full_round_inv cfg s hg hda hdb ch ord ho sA hfA rB hfB H3 r.dt (hok.timer sA hfA) su hsu hc hcA q
          (Nat.le_trans hq1 hB) H4 r.ks hall hexact r.n hok.drain hcap r.ai hback
      refine ⟨v, hv, hlva, hlvb, hsub, hroom, ⟨sA', hfA', ?_⟩, fun hk => absurd hk hk0⟩
      have hle := backlog_le_of_embed sA'.unacked _ hinv'.sorted hsd (by
        intro x hx
        obtain ⟨u0, h0, hs0⟩ := hemb0 x hx
        exact ⟨u0, h0, entryCost_le_of_shrunk hs0⟩)
      omega
    | sliced mx nn na nx ak lsx =>
      simp only [entryCost] at hlt
      have hun : sA.unacked = sA.unacked.take q ++ (kx, Unacked.sliced mx nn na nx ak lsx) :: rest := by
        rw [← e, List.take_append_drop]
      -- the last loop position the budget reaches
      obtain ⟨n1, hn1, hP, hnP⟩ := exists_last
        (P := fun j => backlog (sA.unacked.take q) + SLICE_SIZE * cntLoop nn nx ak (List.range j) ≤ B) nn
        (by simp only [List.range_zero, cntLoop, List.filter_nil, List.length_nil, Nat.mul_zero, Nat.add_zero]; exact hq1)
        (by
          have := Nat.mul_le_mul_left SLICE_SIZE (unackedIdx_le_cntLoop nn nx ak)
          omega)
      have hstepc := Nat.mul_le_mul_left SLICE_SIZE (cntLoop_succ_le nn nx ak n1)
      rw [Nat.mul_add, Nat.mul_one] at hstepc
      obtain ⟨v, hv, hlva, hlvb, hsub, hroom, sA', hfA', hinv', hemb⟩ :=
        full_round_part_inv cfg s hg hda hdb ch ord ho sA hfA rB hfB H3 r.dt (hok.timer sA hfA) su hsu hc hcA
          (sA.unacked.take q) rest kx mx nn na nx ak lsx hun n1 (Nat.le_of_lt hn1) (Nat.le_trans hP hB) H4 r.ks hall hexact
          r.n hok.drain hcap r.ai hback
      refine ⟨v, hv, hlva, hlvb, hsub, hroom, ⟨sA', hfA', ?_⟩, fun hk => absurd hk hk0⟩
      -- what is left embeds into `rest` plus a stand-in for the cheaper sliced entry
      rw [e] at hsd hsum
      rw [SI.sorted_cons] at hsd
      have hle := backlog_le_of_embed sA'.unacked
        ((kx, Unacked.small (List.replicate
          (SLICE_SIZE * (unackedIdx nn ak).length - SLICE_SIZE * cntLoop nn nx ak (List.range n1)) 0) none) :: rest)
        hinv'.sorted (SI.sorted_cons.mpr hsd) (by
          intro x hx
          rcases hemb x hx with ⟨u0, h0, hc0⟩ | ⟨hk, hc0⟩
          · exact ⟨u0, List.mem_cons_of_mem _ h0, hc0⟩
          · refine ⟨_, List.mem_cons.mpr (Or.inl (by rw [hk])), ?_⟩
            show entryCost x.2 ≤ List.length (List.replicate _ _)
            rw [List.length_replicate]
            omega)
      simp only [backlog_cons, entryCost, List.length_replicate] at hle hsum
      omega

/-- **k rounds, bytes, any messages.**  Every round offers channel `ch` at least `B ≥ SLICE_SIZE` bytes:
    `k ≥ 1` rounds with `k * (B - SLICE_SIZE + 1) ≥ backlog` deliver everything — small and sliced messages alike,
    a sliced message possibly over several rounds. -/
theorem rounds_bytes_any_inv (cfg : Cfg) (s : Sys) (hg : GoodK cfg s)
    (hda : s.a.isDisconnected = false) (hdb : s.b.isDisconnected = false)
    (ch : Nat) (ord : Bool) (ho : KindOf cfg ch ord) (sA : SendRel) (hfA : SMap.find? s.a.sendRel ch = some sA)
    (rB : RecvRel) (hfB : SMap.find? s.b.recvRel ch = some rB) (H3 : Room (s.submitted ch) rB)
    (B : Nat) (hSB : SLICE_SIZE ≤ B) (Sched : Sys → Prop)
    (hS : ∀ su, GoodK cfg su → Sched su →
      (∀ p ∈ flushPk su.a, OnlyCh ch p) ∧ B ≤ availAtTurn su.a ch)
    (rs : List RoundP) (hR : Rounds cfg ch Sched s rs)
    (hk1 : rs ≠ []) (hk : backlog sA.unacked ≤ rs.length * (B - SLICE_SIZE + 1)) :
    ∃ u, s.run (roundsOps ch rs) = some u ∧ u.a.isDisconnected = false ∧ u.b.isDisconnected = false ∧
      u.submitted ch = s.submitted ch ∧ Delivered ord (u.obtained ch) (s.submitted ch) :=
  rounds_of_step_inv (step_bytes_any_inv cfg ch ord ho B hSB Sched hS) rs s sA rB hg hda hdb hfA hfB H3 hR hk1 hk

/-- the same for a configuration whose only A → B channel is the ReliableOrdered channel `ch` -/
theorem rounds_bytes_any_single_inv (cfg : Cfg) (s : Sys) (hg : GoodK cfg s)
    (hda : s.a.isDisconnected = false) (hdb : s.b.isDisconnected = false)
    (ch : Nat) (hsingle : Single cfg ch) (sA : SendRel) (hfA : SMap.find? s.a.sendRel ch = some sA)
    (rB : RecvRel) (hfB : SMap.find? s.b.recvRel ch = some rB) (H3 : Room (s.submitted ch) rB)
    (hSB : SLICE_SIZE ≤ cfg.budget)
    (rs : List RoundP) (hR : Rounds cfg ch (fun _ => True) s rs)
    (hk1 : rs ≠ []) (hk : backlog sA.unacked ≤ rs.length * (cfg.budget - SLICE_SIZE + 1)) :
    ∃ u, s.run (roundsOps ch rs) = some u ∧ u.a.isDisconnected = false ∧ u.b.isDisconnected = false ∧
      u.submitted ch = s.submitted ch ∧ u.obtained ch = s.submitted ch := by
  refine rounds_bytes_any_inv cfg s hg hda hdb ch true (single_ordered hsingle) sA hfA rB hfB H3 cfg.budget hSB
    (fun _ => True) ?_ rs hR hk1 hk
  intro su hr' _
  obtain ⟨pkU, hU, -⟩ := hr'.1
  exact ⟨single_only hU.invA.1 (single_order hsingle hU), by rw [single_avail hsingle hU]; exact Nat.le_refl _⟩

/-! ## Part C: lifting runs of either projection to the view of client `i`, and to `MSys` -/

/-- **One operation of the server → client projection is the corresponding local action on the view** (ANY operation
    of `System.Sys`).  The new link `l'` is determined by the action; its projection is the new state. -/
theorem lift_step_down (P : Params) (c : Conn) (l : Link) (o : SysOp) (u : Sys)
    (h : (down ⟨some c, some l⟩ l).step o = some u) :
    ∃ l', LV.apply P ⟨some c, some l⟩ (lact o) = some ⟨some u.a, some l'⟩ ∧ down ⟨some u.a, some l'⟩ l' = u ∧
      l'.tainted = l.tainted := by
  cases o with
  | sendA ch x =>
    simp only [Sys.step, down, LV.srv, Option.getD_some] at h
    split at h
    · rename_i c' hc
      cases h
      simp only [LV.apply, lact, hc]
      exact ⟨_, rfl, rfl, rfl⟩
    · cases h
  | recvB ch =>
    simp only [Sys.step, down] at h
    split at h
    · rename_i b' x hc
      cases h
      simp only [LV.apply, lact, hc]
      exact ⟨_, rfl, rfl, rfl⟩
    · rename_i b' hc
      cases h
      simp only [LV.apply, lact, hc]
      exact ⟨_, rfl, rfl, rfl⟩
    · cases h
  | updA dt =>
    simp only [Sys.step, down, LV.srv, Option.getD_some] at h
    split at h
    · rename_i c' hc
      cases h
      simp only [LV.apply, lact, hc]
      exact ⟨_, rfl, rfl, rfl⟩
    · cases h
  | updB dt =>
    simp only [Sys.step, down] at h
    split at h
    · rename_i b' hc
      cases h
      simp only [LV.apply, lact, hc]
      exact ⟨_, rfl, rfl, rfl⟩
    · cases h
  | flushA =>
    simp only [Sys.step, down, LV.srv, Option.getD_some] at h
    split at h
    · rename_i c' ps hc
      cases h
      simp only [LV.apply, lact, hc]
      exact ⟨_, rfl, rfl, rfl⟩
    · cases h
  | flushB =>
    simp only [Sys.step, down] at h
    split at h
    · rename_i b' ps hc
      cases h
      simp only [LV.apply, lact, hc]
      exact ⟨_, rfl, rfl, rfl⟩
    · cases h
  | deliverToB k =>
    simp only [Sys.step, down] at h
    split at h
    · cases h
    · rename_i bytes hb
      split at h
      · rename_i b' hc
        cases h
        simp only [LV.apply, lact, hb, hc]
        exact ⟨_, rfl, rfl, rfl⟩
      · cases h
  | deliverToA k =>
    simp only [Sys.step, down, LV.srv, Option.getD_some] at h
    split at h
    · cases h
    · rename_i bytes hb
      split at h
      · rename_i c' hc
        cases h
        simp only [LV.apply, lact, hb, hc]
        exact ⟨_, rfl, rfl, rfl⟩
      · cases h

theorem lift_down (P : Params) : ∀ (sops : List SysOp) (c : Conn) (l : Link) (u : Sys),
    (down ⟨some c, some l⟩ l).run sops = some u →
    ∃ l', LV.run P ⟨some c, some l⟩ (sops.map lact) = some ⟨some u.a, some l'⟩ ∧ down ⟨some u.a, some l'⟩ l' = u ∧
      l'.tainted = l.tainted
  | [], c, l, u, h => by
    simp only [Sys.run, Option.some.injEq] at h
    subst h
    exact ⟨l, rfl, rfl, rfl⟩
  | o :: sops, c, l, u, h => by
    simp only [Sys.run] at h
    cases hs : (down ⟨some c, some l⟩ l).step o with
    | none => rw [hs] at h; cases h
    | some u1 =>
      rw [hs] at h
      obtain ⟨l1, a1, a2, a3⟩ := lift_step_down P c l o u1 hs
      rw [← a2] at h
      obtain ⟨l', b1, b2, b3⟩ := lift_down P sops u1.a l1 u h
      refine ⟨l', ?_, b2, b3.trans a3⟩
      simp only [List.map_cons, LV.run, a1]
      exact b1

/-- the local action of client `i` that corresponds to an operation of its client → server projection -/
def lactU : SysOp → LAct
  | .sendA ch m => .cSend ch m
  | .recvB ch => .sRecv ch
  | .updA dt => .cUpd dt
  | .updB dt => .sUpd dt
  | .flushA => .cFlush
  | .flushB => .sFlush
  | .deliverToB k => .toSrv k
  | .deliverToA k => .toCli k

/-- … and the `MSys` operation -/
def mopU (i : Nat) : SysOp → MOp
  | .sendA ch m => .cliSend i ch m
  | .recvB ch => .srvRecv i ch
  | .updA dt => .cliUpdate i dt
  | .updB dt => .srvUpdate dt
  | .flushA => .cliFlush i
  | .flushB => .srvFlush i
  | .deliverToB k => .deliverToSrv i k
  | .deliverToA k => .deliverToCli i k

theorem act_mopU (i : Nat) (o : SysOp) : (mopU i o).act i = lactU o := by
  cases o <;> simp [mopU, lactU, MOp.act]

theorem lactU_ne_skip (o : SysOp) : (lactU o != LAct.skip) = true := by
  cases o <;> rfl

theorem trace_map_mopU (i : Nat) (sops : List SysOp) : trace i (sops.map (mopU i)) = sops.map lactU := by
  unfold trace
  rw [List.map_map]
  have : (MOp.act i ∘ mopU i) = lactU := funext (act_mopU i)
  rw [this, List.filter_eq_self]
  intro a ha
  obtain ⟨o, -, rfl⟩ := List.mem_map.mp ha
  exact lactU_ne_skip o

/-- **One operation of the client → server projection is the corresponding local action on the view.** -/
theorem lift_step_up (P : Params) (c : Conn) (l : Link) (o : SysOp) (u : Sys)
    (h : (up ⟨some c, some l⟩ l).step o = some u) :
    ∃ l', LV.apply P ⟨some c, some l⟩ (lactU o) = some ⟨some u.b, some l'⟩ ∧ up ⟨some u.b, some l'⟩ l' = u ∧
      l'.tainted = l.tainted := by
  cases o with
  | sendA ch x =>
    simp only [Sys.step, up] at h
    split at h
    · rename_i c' hc
      cases h
      simp only [LV.apply, lactU, hc]
      exact ⟨_, rfl, rfl, rfl⟩
    · cases h
  | recvB ch =>
    simp only [Sys.step, up, LV.srv, Option.getD_some] at h
    split at h
    · rename_i b' x hc
      cases h
      simp only [LV.apply, lactU, hc]
      exact ⟨_, rfl, rfl, rfl⟩
    · rename_i b' hc
      cases h
      simp only [LV.apply, lactU, hc]
      exact ⟨_, rfl, rfl, rfl⟩
    · cases h
  | updA dt =>
    simp only [Sys.step, up] at h
    split at h
    · rename_i c' hc
      cases h
      simp only [LV.apply, lactU, hc]
      exact ⟨_, rfl, rfl, rfl⟩
    · cases h
  | updB dt =>
    simp only [Sys.step, up, LV.srv, Option.getD_some] at h
    split at h
    · rename_i b' hc
      cases h
      simp only [LV.apply, lactU, hc]
      exact ⟨_, rfl, rfl, rfl⟩
    · cases h
  | flushA =>
    simp only [Sys.step, up] at h
    split at h
    · rename_i c' ps hc
      cases h
      simp only [LV.apply, lactU, hc]
      exact ⟨_, rfl, rfl, rfl⟩
    · cases h
  | flushB =>
    simp only [Sys.step, up, LV.srv, Option.getD_some] at h
    split at h
    · rename_i b' ps hc
      cases h
      simp only [LV.apply, lactU, hc]
      exact ⟨_, rfl, rfl, rfl⟩
    · cases h
  | deliverToB k =>
    simp only [Sys.step, up, LV.srv, Option.getD_some] at h
    split at h
    · cases h
    · rename_i bytes hb
      split at h
      · rename_i b' hc
        cases h
        simp only [LV.apply, lactU, hb, hc]
        exact ⟨_, rfl, rfl, rfl⟩
      · cases h
  | deliverToA k =>
    simp only [Sys.step, up] at h
    split at h
    · cases h
    · rename_i bytes hb
      split at h
      · rename_i c' hc
        cases h
        simp only [LV.apply, lactU, hb, hc]
        exact ⟨_, rfl, rfl, rfl⟩
      · cases h

theorem lift_up (P : Params) : ∀ (sops : List SysOp) (c : Conn) (l : Link) (u : Sys),
    (up ⟨some c, some l⟩ l).run sops = some u →
    ∃ l', LV.run P ⟨some c, some l⟩ (sops.map lactU) = some ⟨some u.b, some l'⟩ ∧ up ⟨some u.b, some l'⟩ l' = u ∧
      l'.tainted = l.tainted
  | [], c, l, u, h => by
    simp only [Sys.run, Option.some.injEq] at h
    subst h
    exact ⟨l, rfl, rfl, rfl⟩
  | o :: sops, c, l, u, h => by
    simp only [Sys.run] at h
    cases hs : (up ⟨some c, some l⟩ l).step o with
    | none => rw [hs] at h; cases h
    | some u1 =>
      rw [hs] at h
      obtain ⟨l1, a1, a2, a3⟩ := lift_step_up P c l o u1 hs
      rw [← a2] at h
      obtain ⟨l', b1, b2, b3⟩ := lift_up P sops u1.b l1 u h
      refine ⟨l', ?_, b2, b3.trans a3⟩
      simp only [List.map_cons, LV.run, a1]
      exact b1

/-- **The view of `i` is a function of its local trace (server → client).**  If the projection `down` of client `i`
    (in the table, with a link) runs the operations `sops` to `u`, then EVERY `MSys` run from `m` whose local trace for
    `i` is the corresponding list of local actions — the operations of `i` interleaved with arbitrary operations that
    concern other clients only — ends with the table entry `u.a` and a link whose projection is `u`. -/
theorem view_of_trace_down {P : Params} {m m'' : MSys} {i : Nat} {c : Conn} {l : Link} (hw : m.WF P)
    (hc : conn? m.server i = some c) (hl : m.links i = some l) (sops : List SysOp) (u : Sys)
    (hu : (down ⟨some c, some l⟩ l).run sops = some u) (ops' : List MOp) (ht : trace i ops' = sops.map lact)
    (hr : m.run ops' = some m'') :
    ∃ l', m''.view i = ⟨some u.a, some l'⟩ ∧ down ⟨some u.a, some l'⟩ l' = u ∧ l'.tainted = l.tainted := by
  have h1 := run_view i ops' m m'' hw hr
  rw [← lvrun_filter] at h1
  have ht' : (ops'.map (MOp.act i)).filter (· != .skip) = sops.map lact := ht
  rw [ht'] at h1
  have hv : m.view i = ⟨some c, some l⟩ := by unfold MSys.view; rw [hc, hl]
  rw [hv] at h1
  obtain ⟨l', a1, a2, a3⟩ := lift_down P sops c l u hu
  rw [a1] at h1
  exact ⟨l', (Option.some.inj h1).symm, a2, a3⟩

/-- **The view of `i` is a function of its local trace (client → server).** -/
theorem view_of_trace_up {P : Params} {m m'' : MSys} {i : Nat} {c : Conn} {l : Link} (hw : m.WF P)
    (hc : conn? m.server i = some c) (hl : m.links i = some l) (sops : List SysOp) (u : Sys)
    (hu : (up ⟨some c, some l⟩ l).run sops = some u) (ops' : List MOp) (ht : trace i ops' = sops.map lactU)
    (hr : m.run ops' = some m'') :
    ∃ l', m''.view i = ⟨some u.b, some l'⟩ ∧ up ⟨some u.b, some l'⟩ l' = u ∧ l'.tainted = l.tainted := by
  have h1 := run_view i ops' m m'' hw hr
  rw [← lvrun_filter] at h1
  have ht' : (ops'.map (MOp.act i)).filter (· != .skip) = sops.map lactU := ht
  rw [ht'] at h1
  have hv : m.view i = ⟨some c, some l⟩ := by unfold MSys.view; rw [hc, hl]
  rw [hv] at h1
  obtain ⟨l', a1, a2, a3⟩ := lift_up P sops c l u hu
  rw [a1] at h1
  exact ⟨l', (Option.some.inj h1).symm, a2, a3⟩

/-! ### the operations of client `i` itself do not panic in `MSys` -/

/-- operations of the server → client projection that touch client `i` ONLY (the server's `update` advances every slot) -/
def LocalD : SysOp → Prop
  | .updA _ => False
  | _ => True

/-- operations of the client → server projection that touch client `i` only -/
def LocalU : SysOp → Prop
  | .updB _ => False
  | _ => True

theorem step_total_down {P : Params} {m : MSys} {i : Nat} {o : SysOp} (ho : LocalD o) {lv' : LV}
    (h : (m.view i).apply P (lact o) = some lv') : ∃ m', m.step (mop i o) = some m' := by
  cases o with
  | updA _ => exact ho.elim
  | flushA => exact MultiLive.step_total (o := .flushA) trivial h
  | deliverToB k => exact MultiLive.step_total (o := .deliverToB k) trivial h
  | recvB ch => exact MultiLive.step_total (o := .recvB ch) trivial h
  | sendA ch x =>
    simp only [lact, LV.apply, MSys.view, conn?] at h
    simp only [mop, MSys.step, Server.sendMessage]
    cases hf : SMap.find? m.server.conns i with
    | none => exact ⟨_, rfl⟩
    | some c =>
      rw [hf] at h
      dsimp only at h ⊢
      cases hc : c.sendMessage ch x with
      | ok c' => simp only [Res.bind_ok, Res.pure_eq]; exact ⟨_, rfl⟩
      | err e => exact e.elim
      | panic p => rw [hc] at h; cases h
  | updB dt =>
    simp only [lact, LV.apply, MSys.view] at h
    simp only [mop, MSys.step]
    cases hl : m.links i with
    | none => exact ⟨_, rfl⟩
    | some l =>
      rw [hl] at h
      dsimp only at h ⊢
      cases hc : l.cl.update dt with
      | ok cl' => exact ⟨_, rfl⟩
      | err e => exact e.elim
      | panic p => rw [hc] at h; cases h
  | flushB =>
    simp only [lact, LV.apply, MSys.view] at h
    simp only [mop, MSys.step]
    cases hl : m.links i with
    | none => exact ⟨_, rfl⟩
    | some l =>
      rw [hl] at h
      dsimp only at h ⊢
      cases hc : l.cl.getPacketsToSend with
      | ok x => obtain ⟨cl', ps⟩ := x; exact ⟨_, rfl⟩
      | err e => exact e.elim
      | panic p => rw [hc] at h; cases h
  | deliverToA k =>
    simp only [lact, LV.apply, MSys.view, conn?] at h
    simp only [mop, MSys.step, Server.processPacketFrom]
    cases hl : m.links i with
    | none => exact ⟨_, rfl⟩
    | some l =>
      rw [hl] at h
      dsimp only at h ⊢
      cases hb : l.outC[k]? with
      | none => rw [hb] at h; cases h
      | some bytes =>
        rw [hb] at h
        dsimp only at h ⊢
        cases hf : SMap.find? m.server.conns i with
        | none => exact ⟨_, rfl⟩
        | some c =>
          rw [hf] at h
          dsimp only at h ⊢
          cases hc : c.processPacket bytes with
          | ok c' => simp only [Res.bind_ok, Res.pure_eq]; exact ⟨_, rfl⟩
          | err e => exact e.elim
          | panic p => rw [hc] at h; cases h

theorem step_total_up {P : Params} {m : MSys} {i : Nat} {o : SysOp} (ho : LocalU o) {lv' : LV}
    (h : (m.view i).apply P (lactU o) = some lv') : ∃ m', m.step (mopU i o) = some m' := by
  cases o with
  | updB _ => exact ho.elim
  | flushB => exact MultiLive.step_total (o := .flushA) trivial h
  | deliverToA k => exact MultiLive.step_total (o := .deliverToB k) trivial h
  | flushA => exact step_total_down (o := .flushB) trivial h
  | deliverToB k => exact step_total_down (o := .deliverToA k) trivial h
  | updA dt => exact step_total_down (o := .updB dt) trivial h
  | sendA ch x =>
    simp only [lactU, LV.apply, MSys.view] at h
    simp only [mopU, MSys.step]
    cases hl : m.links i with
    | none => exact ⟨_, rfl⟩
    | some l =>
      rw [hl] at h
      dsimp only at h ⊢
      cases hc : l.cl.sendMessage ch x with
      | ok cl' => exact ⟨_, rfl⟩
      | err e => exact e.elim
      | panic p => rw [hc] at h; cases h
  | recvB ch =>
    simp only [lactU, LV.apply, MSys.view, conn?] at h
    simp only [mopU, MSys.step, Server.receiveMessage]
    cases hf : SMap.find? m.server.conns i with
    | none => exact ⟨_, rfl⟩
    | some c =>
      rw [hf] at h
      dsimp only at h ⊢
      cases hc : c.receiveMessage ch with
      | ok x => obtain ⟨c', mo⟩ := x; simp only [Res.bind_ok, Res.pure_eq]; exact ⟨_, rfl⟩
      | err e => exact e.elim
      | panic p => rw [hc] at h; cases h

theorem lift_mrun_down (P : Params) (i : Nat) : ∀ (sops : List SysOp) (m : MSys) (lv' : LV), m.WF P →
    (∀ o ∈ sops, LocalD o) → LV.run P (m.view i) (sops.map lact) = some lv' →
    ∃ m', m.run (sops.map (mop i)) = some m' ∧ m'.view i = lv'
  | [], m, lv', _, _, h => by
    simp only [List.map_nil, LV.run, Option.some.injEq] at h
    exact ⟨m, rfl, h⟩
  | o :: sops, m, lv', hw, ho, h => by
    simp only [List.map_cons, LV.run] at h
    cases ha : (m.view i).apply P (lact o) with
    | none => rw [ha] at h; cases h
    | some lv1 =>
      rw [ha] at h
      obtain ⟨m1, hs⟩ := step_total_down (ho o (List.mem_cons_self ..)) ha
      have hv := step_view hw hs i
      rw [act_mop, ha] at hv
      have e : lv1 = m1.view i := Option.some.inj hv
      rw [e] at h
      obtain ⟨m', hr, hv'⟩ := lift_mrun_down P i sops m1 lv' (step_wf hw hs)
        (fun o' ho' => ho o' (List.mem_cons_of_mem _ ho')) h
      exact ⟨m', by simp only [List.map_cons, MSys.run, hs]; exact hr, hv'⟩

theorem lift_mrun_up (P : Params) (i : Nat) : ∀ (sops : List SysOp) (m : MSys) (lv' : LV), m.WF P →
    (∀ o ∈ sops, LocalU o) → LV.run P (m.view i) (sops.map lactU) = some lv' →
    ∃ m', m.run (sops.map (mopU i)) = some m' ∧ m'.view i = lv'
  | [], m, lv', _, _, h => by
    simp only [List.map_nil, LV.run, Option.some.injEq] at h
    exact ⟨m, rfl, h⟩
  | o :: sops, m, lv', hw, ho, h => by
    simp only [List.map_cons, LV.run] at h
    cases ha : (m.view i).apply P (lactU o) with
    | none => rw [ha] at h; cases h
    | some lv1 =>
      rw [ha] at h
      obtain ⟨m1, hs⟩ := step_total_up (ho o (List.mem_cons_self ..)) ha
      have hv := step_view hw hs i
      rw [act_mopU, ha] at hv
      have e : lv1 = m1.view i := Option.some.inj hv
      rw [e] at h
      obtain ⟨m', hr, hv'⟩ := lift_mrun_up P i sops m1 lv' (step_wf hw hs)
        (fun o' ho' => ho o' (List.mem_cons_of_mem _ ho')) h
      exact ⟨m', by simp only [List.map_cons, MSys.run, hs]; exact hr, hv'⟩

/-- **The operations of client `i` alone run in `MSys`** (client → server projection, operations local to `i`):
    no model function panics, and the run ends in the lifted view. -/
theorem run_local_up {P : Params} {m : MSys} {i : Nat} {c : Conn} {l : Link} (hw : m.WF P)
    (hc : conn? m.server i = some c) (hl : m.links i = some l) (sops : List SysOp) (ho : ∀ o ∈ sops, LocalU o)
    (u : Sys) (hu : (up ⟨some c, some l⟩ l).run sops = some u) :
    ∃ m' l', m.run (sops.map (mopU i)) = some m' ∧ m'.view i = ⟨some u.b, some l'⟩ ∧
      up ⟨some u.b, some l'⟩ l' = u ∧ l'.tainted = l.tainted := by
  have hv : m.view i = ⟨some c, some l⟩ := by unfold MSys.view; rw [hc, hl]
  obtain ⟨l', a1, a2, a3⟩ := lift_up P sops c l u hu
  rw [← hv] at a1
  obtain ⟨m', hr, hv'⟩ := lift_mrun_up P i sops m _ hw ho a1
  exact ⟨m', l', hr, hv', a2, a3⟩

theorem run_local_down {P : Params} {m : MSys} {i : Nat} {c : Conn} {l : Link} (hw : m.WF P)
    (hc : conn? m.server i = some c) (hl : m.links i = some l) (sops : List SysOp) (ho : ∀ o ∈ sops, LocalD o)
    (u : Sys) (hu : (down ⟨some c, some l⟩ l).run sops = some u) :
    ∃ m' l', m.run (sops.map (mop i)) = some m' ∧ m'.view i = ⟨some u.a, some l'⟩ ∧
      down ⟨some u.a, some l'⟩ l' = u ∧ l'.tainted = l.tainted := by
  have hv : m.view i = ⟨some c, some l⟩ := by unfold MSys.view; rw [hc, hl]
  obtain ⟨l', a1, a2, a3⟩ := lift_down P sops c l u hu
  rw [← hv] at a1
  obtain ⟨m', hr, hv'⟩ := lift_mrun_down P i sops m _ hw ho a1
  exact ⟨m', l', hr, hv', a2, a3⟩

end RenetVerif.MultiLiveK
