/-
  Flat-buffer slice reassembly (slice_constructor.rs) against the sender's slicing arithmetic
  (`sliceBytes`, `divCeil`): whatever order the genuine slices of a message `m` arrive in, and however
  often they are repeated, the constructor's buffer agrees with `m` on every block already received,
  and the first moment every index is present it hands out exactly `m`.
-/
import RenetVerif.Renet.Channels
namespace RenetVerif.Reasm
open RenetVerif C

theorem S_pos : 0 < SLICE_SIZE := by decide

/-! ### sender arithmetic -/

/-- `m` occupies exactly `n` slices: `(n-1)·S < |m| ≤ n·S` -/
def Shape (n : Nat) (m : Bytes) : Prop :=
  0 < n ∧ (n - 1) * SLICE_SIZE < m.length ∧ m.length ≤ n * SLICE_SIZE

theorem pred_mul_add (n S : Nat) (hn : 0 < n) : n * S = (n - 1) * S + S := by
  have : n = (n - 1) + 1 := by omega
  rw [this, Nat.add_mul]; simp

theorem succ_mul' (i S : Nat) : (i + 1) * S = i * S + S := by
  rw [Nat.add_mul]; simp

theorem mul_succ_le {i n S : Nat} (h : i + 1 ≤ n) : i * S + S ≤ n * S := by
  have := Nat.mul_le_mul_right S h; rw [Nat.add_mul] at this; simpa using this

theorem shape_divCeil (m : Bytes) (h : 0 < m.length) : Shape (divCeil m.length SLICE_SIZE) m := by
  have hS := S_pos
  unfold divCeil
  generalize hn : (m.length + SLICE_SIZE - 1) / SLICE_SIZE = n
  have hdm := Nat.div_add_mod (m.length + SLICE_SIZE - 1) SLICE_SIZE
  have hml := Nat.mod_lt (m.length + SLICE_SIZE - 1) hS
  rw [hn] at hdm
  have hnpos : 0 < n := by
    rw [← hn]; exact Nat.div_pos (by omega) hS
  have hcomm : SLICE_SIZE * n = n * SLICE_SIZE := Nat.mul_comm _ _
  have hp := pred_mul_add n SLICE_SIZE hnpos
  refine ⟨hnpos, ?_, ?_⟩ <;> omega

/-- a message that must be sliced (`|m| > S`) has at least two slices -/
theorem two_le_divCeil (m : Bytes) (h : m.length > SLICE_SIZE) : 2 ≤ divCeil m.length SLICE_SIZE := by
  have hs := shape_divCeil m (by omega)
  generalize divCeil m.length SLICE_SIZE = n at hs
  obtain ⟨h0, _, h2⟩ := hs
  rcases Nat.lt_or_ge n 2 with hlt | hge
  · have : n = 1 := by omega
    subst this; simp at h2; omega
  · exact hge

theorem sliceBytes_length {n : Nat} {m : Bytes} (hs : Shape n m) {i : Nat} (hi : i < n) :
    (sliceBytes m n i).length = if i = n - 1 then m.length - (n - 1) * SLICE_SIZE else SLICE_SIZE := by
  obtain ⟨hn, h1, h2⟩ := hs
  have hp := pred_mul_add n SLICE_SIZE hn
  simp only [sliceBytes, List.length_take, List.length_drop]
  by_cases hl : i = n - 1
  · simp only [hl, if_true]; omega
  · simp only [hl, if_false]
    have h3 := succ_mul' i SLICE_SIZE
    have h4 := mul_succ_le (S := SLICE_SIZE) (show i + 1 ≤ n - 1 by omega)
    omega

/-- (a) every non-last slice is exactly `SLICE_SIZE` long -/
theorem sliceBytes_length_nonlast {n : Nat} {m : Bytes} (hs : Shape n m) {i : Nat} (hi : i < n - 1) :
    (sliceBytes m n i).length = SLICE_SIZE := by
  rw [sliceBytes_length hs (by omega)]; simp; omega

/-- (a) the last slice has between 1 and `SLICE_SIZE` bytes -/
theorem sliceBytes_length_last {n : Nat} {m : Bytes} (hs : Shape n m) :
    1 ≤ (sliceBytes m n (n - 1)).length ∧ (sliceBytes m n (n - 1)).length ≤ SLICE_SIZE := by
  have hn := hs.1
  rw [sliceBytes_length hs (by omega)]
  obtain ⟨_, h1, h2⟩ := hs
  have hp := pred_mul_add n SLICE_SIZE hn
  simp only [if_true]; omega

theorem slice_end_le {n : Nat} {m : Bytes} (hs : Shape n m) {i : Nat} (hi : i < n) :
    i * SLICE_SIZE + (sliceBytes m n i).length ≤ m.length ∧ (sliceBytes m n i).length ≤ SLICE_SIZE := by
  rw [sliceBytes_length hs hi]
  obtain ⟨hn, h1, h2⟩ := hs
  have hp := pred_mul_add n SLICE_SIZE hn
  split
  · rename_i h; subst h; omega
  · have := mul_succ_le (S := SLICE_SIZE) (show i + 1 ≤ n - 1 by omega); omega

theorem sliceBytes_getElem? (m : Bytes) (n i j : Nat) (hj : j < (sliceBytes m n i).length) :
    (sliceBytes m n i)[j]? = m[i * SLICE_SIZE + j]? := by
  simp only [sliceBytes, List.length_take, List.length_drop] at hj
  simp only [sliceBytes, List.getElem?_take, List.getElem?_drop]
  rw [if_pos (by omega)]

theorem flatMap_nonlast (m : Bytes) (n : Nat) :
    ∀ k, k ≤ n - 1 → (List.range k).flatMap (sliceBytes m n) = m.take (k * SLICE_SIZE) := by
  intro k
  induction k with
  | zero => intro _; simp
  | succ k ih =>
    intro hk
    rw [List.range_succ, List.flatMap_append, ih (by omega)]
    simp only [List.flatMap_cons, List.flatMap_nil, List.append_nil]
    have hne : ¬ k = n - 1 := by omega
    have h3 := succ_mul' k SLICE_SIZE
    simp only [sliceBytes, hne, if_false]
    rw [h3, List.take_add]
    congr 2; omega

/-- (a) the slices, concatenated in index order, are the message -/
theorem flatMap_sliceBytes (m : Bytes) (h : 0 < m.length) :
    (List.range (divCeil m.length SLICE_SIZE)).flatMap (sliceBytes m (divCeil m.length SLICE_SIZE)) = m := by
  have hs := shape_divCeil m h
  generalize divCeil m.length SLICE_SIZE = n at hs
  have hn := hs.1
  obtain ⟨n', rfl⟩ : ∃ n', n = n' + 1 := ⟨n - 1, by omega⟩
  rw [List.range_succ, List.flatMap_append, flatMap_nonlast m _ n' (by simp)]
  simp only [List.flatMap_cons, List.flatMap_nil, List.append_nil]
  simp only [sliceBytes, Nat.add_sub_cancel, if_true]
  have : (m.drop (n' * SLICE_SIZE)).take (m.length - n' * SLICE_SIZE) = m.drop (n' * SLICE_SIZE) :=
    List.take_of_length_le (by simp)
  rw [this, List.take_append_drop]

/-! ### receiver: the constructor agrees with `m` -/

/-- the reassembly buffer of `c` is consistent with an `n`-slice message `m` on everything received so far -/
structure AgreesN (n : Nat) (m : Bytes) (c : SliceCtor) : Prop where
  numSlices : c.numSlices = n
  recvLen : c.received.length = n
  count : c.numReceived = c.received.count true
  dataLen : c.data.length = if c.received[n - 1]? = some true then m.length else n * SLICE_SIZE
  block : ∀ i, c.received[i]? = some true → ∀ k, i * SLICE_SIZE ≤ k →
    k < i * SLICE_SIZE + (sliceBytes m n i).length → c.data[k]? = m[k]?

/-- (b) `c` is a reassembly state of the message `m` (sliced the way the sender slices it) -/
def CtorAgrees (m : Bytes) (c : SliceCtor) : Prop := AgreesN (divCeil m.length SLICE_SIZE) m c

theorem agreesN_new (n : Nat) (m : Bytes) : AgreesN n m (SliceCtor.new n) := by
  refine ⟨rfl, by simp [SliceCtor.new], ?_, ?_, ?_⟩
  · simp [SliceCtor.new, List.count_replicate]
  · simp [SliceCtor.new, List.getElem?_replicate]
  · intro i hi; simp [SliceCtor.new, List.getElem?_replicate] at hi

theorem agrees_new (m : Bytes) : CtorAgrees m (SliceCtor.new (divCeil m.length SLICE_SIZE)) :=
  agreesN_new _ m

/-- pure form of `setRange` -/
def setR (l : Bytes) (s : Nat) (b : Bytes) : Bytes := l.take s ++ b ++ l.drop (s + b.length)

theorem setRange_ok {ε : Type} (l : Bytes) (s : Nat) (b : Bytes) (site : String) (h : s + b.length ≤ l.length) :
    (setRange l s b site : Res ε Bytes) = .ok (setR l s b) := by
  simp [setRange, setR, h]

theorem setR_length (l : Bytes) (s : Nat) (b : Bytes) (h : s + b.length ≤ l.length) :
    (setR l s b).length = l.length := by
  simp [setR]; omega

theorem setR_getElem? (l : Bytes) (s : Nat) (b : Bytes) (h : s + b.length ≤ l.length) (k : Nat) :
    (setR l s b)[k]? = if s ≤ k ∧ k < s + b.length then b[k - s]? else l[k]? := by
  unfold setR
  by_cases h1 : k < s
  · have : ¬ (s ≤ k ∧ k < s + b.length) := by omega
    simp only [this, if_false]
    rw [List.append_assoc, List.getElem?_append_left (by simp; omega)]
    simp [h1]
  · by_cases h2 : k < s + b.length
    · have : (s ≤ k ∧ k < s + b.length) := by omega
      simp only [this, and_self, if_true]
      rw [List.append_assoc, List.getElem?_append_right (by simp; omega)]
      have hl : (List.take s l).length = s := by simp; omega
      rw [hl, List.getElem?_append_left (by omega)]
    · have : ¬ (s ≤ k ∧ k < s + b.length) := by omega
      simp only [this, if_false]
      rw [List.getElem?_append_right (by simp; omega)]
      have hl : (List.take s l ++ b).length = s + b.length := by simp; omega
      rw [hl, List.getElem?_drop]
      congr 1; omega

theorem resize_length (l : Bytes) (len : Nat) : (resize l len).length = len := by
  simp [resize]; omega

theorem resize_getElem?_lt (l : Bytes) (len k : Nat) (hk : k < len) (hk2 : k < l.length) :
    (resize l len)[k]? = l[k]? := by
  unfold resize
  rw [List.getElem?_append_left (by simp; omega)]
  simp [hk]

theorem blocks_disjoint {S i j k : Nat} (hij : i ≠ j) (h1 : i * S ≤ k) (h2 : k < i * S + S) :
    ¬ (j * S ≤ k ∧ k < j * S + S) := by
  intro ⟨h3, h4⟩
  rcases Nat.lt_or_gt_of_ne hij with h | h
  · have := mul_succ_le (S := S) (show i + 1 ≤ j by omega); omega
  · have := mul_succ_le (S := S) (show j + 1 ≤ i by omega); omega

/-- all indices present ⇔ the counter has reached `numSlices` -/
theorem full_iffN {n : Nat} {m : Bytes} {c : SliceCtor} (hc : AgreesN n m c) :
    c.numReceived = c.numSlices ↔ ∀ i, i < n → c.received[i]? = some true := by
  obtain ⟨h1, h2, h3, _, _⟩ := hc
  constructor
  · intro hfull i hi
    have hcount : c.received.count true = c.received.length := by omega
    have hall := List.count_eq_length.1 hcount
    have hmem : c.received[i]'(by omega) ∈ c.received := List.getElem_mem _
    rw [List.getElem?_eq_getElem (by omega)]
    congr 1
    exact (hall _ hmem).symm
  · intro hall
    rw [h3, h1, ← h2]
    apply List.count_eq_length.2
    intro b hb
    obtain ⟨i, hi, rfl⟩ := List.getElem_of_mem hb
    have := hall i (by omega)
    rw [List.getElem?_eq_getElem hi] at this
    exact (Option.some.inj this).symm

/-- when every slice has arrived the buffer is the message, byte for byte -/
theorem completeN {n : Nat} {m : Bytes} (hs : Shape n m) {c : SliceCtor} (hc : AgreesN n m c)
    (hfull : c.numReceived = c.numSlices) : c.data = m := by
  have hall := (full_iffN hc).1 hfull
  obtain ⟨h1, h2, h3, h4, h5⟩ := hc
  have hS := S_pos
  obtain ⟨hn, hm1, hm2⟩ := hs
  have hshape : Shape n m := ⟨hn, hm1, hm2⟩
  rw [hall (n - 1) (by omega)] at h4
  simp only [if_true] at h4
  apply List.ext_getElem?
  intro k
  by_cases hk : k < m.length
  · have hi : k / SLICE_SIZE < n := (Nat.div_lt_iff_lt_mul hS).2 (by omega)
    have hdm := Nat.div_add_mod k SLICE_SIZE
    have hml := Nat.mod_lt k hS
    have hcomm : SLICE_SIZE * (k / SLICE_SIZE) = k / SLICE_SIZE * SLICE_SIZE := Nat.mul_comm _ _
    apply h5 (k / SLICE_SIZE) (hall _ hi) k (by omega)
    rw [sliceBytes_length hshape hi]
    have hp := pred_mul_add n SLICE_SIZE hn
    split
    · rename_i heq; rw [heq] at hcomm ⊢; omega
    · omega
  · rw [List.getElem?_eq_none (by omega), List.getElem?_eq_none (by omega)]

/-- the constructor after the first arrival of slice `idx` -/
def stepNew (c : SliceCtor) (idx : Nat) (b : Bytes) : SliceCtor :=
  { c with
    received := c.received.set idx true, numReceived := c.numReceived + 1,
    data := setR (if idx = c.numSlices - 1 then resize c.data ((c.numSlices - 1) * SLICE_SIZE + b.length) else c.data)
              (idx * SLICE_SIZE) b }

/-- the tail of `processSlice`: hand out the buffer when the counter is full -/
def finish (c : SliceCtor) : SliceCtor × Option Bytes :=
  if c.numReceived = c.numSlices then ({ c with data := [] }, some c.data) else (c, none)

/-- first arrival of a genuine slice: the copy is in range and the updated constructor agrees with `m` -/
theorem step_agreesN {n : Nat} {m : Bytes} (hs : Shape n m) {c : SliceCtor} (hc : AgreesN n m c)
    {idx : Nat} (hidx : idx < n) (hnew : c.received[idx]? = some false) :
    idx * SLICE_SIZE + (sliceBytes m n idx).length ≤
      (if idx = c.numSlices - 1 then resize c.data ((c.numSlices - 1) * SLICE_SIZE + (sliceBytes m n idx).length)
        else c.data).length ∧
    AgreesN n m (stepNew c idx (sliceBytes m n idx)) := by
  have hse := slice_end_le hs hidx
  have hlen := sliceBytes_length hs hidx
  obtain ⟨h1, h2, h3, h4, h5⟩ := hc
  have hS := S_pos
  obtain ⟨hn, hm1, hm2⟩ := hs
  have hshape : Shape n m := ⟨hn, hm1, hm2⟩
  have hnS := pred_mul_add n SLICE_SIZE hn
  have hbget := sliceBytes_getElem? m n idx
  unfold stepNew
  rw [h1]
  generalize hb : sliceBytes m n idx = b at *
  generalize hd0 : (if idx = n - 1 then resize c.data ((n - 1) * SLICE_SIZE + b.length) else c.data) = data0
  have hd0len : data0.length = if (idx = n - 1 ∨ c.received[n - 1]? = some true) then m.length else n * SLICE_SIZE := by
    rw [← hd0]
    by_cases hl : idx = n - 1
    · simp only [hl, if_true, true_or, resize_length]; rw [hl] at hlen; simp at hlen; omega
    · simp only [hl, if_false, false_or]; exact h4
  have hd0get : ∀ k, k < m.length → data0[k]? = c.data[k]? := by
    intro k hk
    rw [← hd0]
    by_cases hl : idx = n - 1
    · simp only [hl, if_true]
      have hold : c.data.length = n * SLICE_SIZE := by
        rw [h4]; rw [hl] at hnew; simp [hnew]
      rw [hl] at hlen; simp at hlen
      exact resize_getElem?_lt _ _ _ (by omega) (by omega)
    · simp [hl]
  have hinside : idx * SLICE_SIZE + b.length ≤ data0.length := by
    rw [hd0len]; split
    · exact hse.1
    · have := mul_succ_le (S := SLICE_SIZE) (show idx + 1 ≤ n by omega); omega
  refine ⟨hinside, ?_⟩
  refine ⟨rfl, by simp [h2], ?_, ?_, ?_⟩
  · show c.numReceived + 1 = (c.received.set idx true).count true
    rw [List.count_set (by omega)]
    have : c.received[idx]'(by omega) = false := by
      have := List.getElem?_eq_getElem (l := c.received) (i := idx) (by omega)
      rw [this] at hnew; exact Option.some.inj hnew
    simp [this]; omega
  · show (setR data0 (idx * SLICE_SIZE) b).length = _
    rw [setR_length _ _ _ hinside, hd0len]
    have : ((c.received.set idx true)[n - 1]? = some true) ↔ (idx = n - 1 ∨ c.received[n - 1]? = some true) := by
      rw [List.getElem?_set]
      by_cases hl : idx = n - 1
      · simp [hl]; omega
      · simp [hl]
    simp only [this]
  · intro i hi k hk1 hk2
    show (setR data0 (idx * SLICE_SIZE) b)[k]? = m[k]?
    rw [setR_getElem? _ _ _ hinside]
    have hi' : (c.received.set idx true)[i]? = some true := hi
    rw [List.getElem?_set] at hi'
    by_cases hii : idx = i
    · subst hii
      rw [hb] at hk2
      have : idx * SLICE_SIZE ≤ k ∧ k < idx * SLICE_SIZE + b.length := ⟨hk1, hk2⟩
      simp only [this, and_self, if_true]
      rw [hbget _ (by omega)]
      have hk3 : idx * SLICE_SIZE + (k - idx * SLICE_SIZE) = k := by omega
      rw [hk3]
    · simp only [hii, if_false] at hi'
      have hiN : i < n := by
        rcases Nat.lt_or_ge i n with h | h
        · exact h
        · rw [List.getElem?_eq_none (by omega)] at hi'; cases hi'
      have hsei := slice_end_le hshape hiN
      have hdis := blocks_disjoint (S := SLICE_SIZE) (i := i) (j := idx) (k := k) (Ne.symm hii) hk1 (by omega)
      have : ¬ (idx * SLICE_SIZE ≤ k ∧ k < idx * SLICE_SIZE + b.length) := by
        intro ⟨a, b'⟩; exact hdis ⟨a, by omega⟩
      simp only [this, if_false]
      rw [hd0get k (by omega)]
      exact h5 i hi' k hk1 hk2

/-- `processSlice` on an index already present: nothing is written -/
theorem processSlice_dup (c : SliceCtor) (idx : Nat) (b : Bytes) (hidx : idx < c.numSlices)
    (hsz : if idx = c.numSlices - 1 then b.length ≤ SLICE_SIZE else b.length = SLICE_SIZE)
    (hgot : c.received[idx]? = some true) :
    c.processSlice idx b = .ok (finish c) := by
  unfold SliceCtor.processSlice finish
  by_cases hl : idx = c.numSlices - 1
  · simp only [hl, if_true] at hsz
    have h1 : ¬ (c.numSlices - 1 ≥ c.numSlices) := by omega
    have h2 : ¬ (b.length > SLICE_SIZE) := by omega
    simp only [hl] at hgot
    simp [hl, h1, h2, hgot]
    split <;> rfl
  · simp only [hl, if_false] at hsz
    have h1 : ¬ (idx ≥ c.numSlices) := by omega
    simp [hl, h1, hsz, hgot]
    split <;> rfl

/-- `processSlice` on a new index whose copy is in range -/
theorem processSlice_new (c : SliceCtor) (idx : Nat) (b : Bytes) (hidx : idx < c.numSlices)
    (hsz : if idx = c.numSlices - 1 then b.length ≤ SLICE_SIZE else b.length = SLICE_SIZE)
    (hgot : c.received[idx]? = some false)
    (hin : idx * SLICE_SIZE + b.length ≤
      (if idx = c.numSlices - 1 then resize c.data ((c.numSlices - 1) * SLICE_SIZE + b.length) else c.data).length) :
    c.processSlice idx b = .ok (finish (stepNew c idx b)) := by
  unfold SliceCtor.processSlice finish stepNew
  by_cases hl : idx = c.numSlices - 1
  · simp only [hl, if_true] at hsz hin
    have h1 : ¬ (c.numSlices - 1 ≥ c.numSlices) := by omega
    have h2 : ¬ (b.length > SLICE_SIZE) := by omega
    simp only [hl] at hgot
    simp [hl, h1, h2, hgot, setRange_ok _ _ _ _ hin]
    split <;> rfl
  · simp only [hl, if_false] at hsz hin
    have h1 : ¬ (idx ≥ c.numSlices) := by omega
    simp [hl, h1, hsz, hgot, setRange_ok _ _ _ _ hin]
    split <;> rfl

/-- general-`n` form of `processSlice_genuine` -/
theorem processSlice_genuineN {n : Nat} {m : Bytes} (hs : Shape n m) {c : SliceCtor} (hc : AgreesN n m c)
    {idx : Nat} (hidx : idx < n) :
    ∃ c' out, c.processSlice idx (sliceBytes m n idx) = .ok (c', out) ∧
      c'.received = c.received.set idx true ∧
      c'.numSlices = c.numSlices ∧
      (out = none → AgreesN n m c' ∧ c'.numReceived ≠ c'.numSlices) ∧
      (∀ m', out = some m' → m' = m) ∧
      (out ≠ none ↔ ∀ i, i < n → c'.received[i]? = some true) := by
  have hlen := sliceBytes_length hs hidx
  have hget : ∃ got, c.received[idx]? = some got :=
    ⟨c.received[idx]'(by rw [hc.recvLen]; exact hidx), List.getElem?_eq_getElem _⟩
  obtain ⟨got, hgot⟩ := hget
  have hsz : if idx = c.numSlices - 1 then (sliceBytes m n idx).length ≤ SLICE_SIZE
      else (sliceBytes m n idx).length = SLICE_SIZE := by
    have := (slice_end_le hs hidx).2
    rw [hc.numSlices]
    split
    · exact this
    · rename_i hne; rw [hlen, if_neg hne]
  -- the constructor before `finish`, in both cases
  have key : ∃ c1, c.processSlice idx (sliceBytes m n idx) = .ok (finish c1) ∧
      AgreesN n m c1 ∧ c1.received = c.received.set idx true ∧ c1.numSlices = c.numSlices := by
    cases got with
    | true =>
      refine ⟨c, processSlice_dup c idx _ (by rw [hc.numSlices]; exact hidx) hsz hgot, hc, ?_, rfl⟩
      apply List.ext_getElem?
      intro k
      rw [List.getElem?_set]
      by_cases hk : idx = k
      · subst hk; simp [hgot]; exact (List.getElem?_eq_some_iff.1 hgot).1
      · simp [hk]
    | false =>
      have hstep := step_agreesN hs hc hidx hgot
      exact ⟨_, processSlice_new c idx _ (by rw [hc.numSlices]; exact hidx) hsz hgot hstep.1, hstep.2, rfl, rfl⟩
  obtain ⟨c1, hproc, hag, hrecv, hns⟩ := key
  have hfull := full_iffN hag
  by_cases hf : c1.numReceived = c1.numSlices
  · refine ⟨{ c1 with data := [] }, some c1.data, ?_, hrecv, hns, ?_, ?_, ?_⟩
    · rw [hproc]; simp [finish, hf]
    · intro h; cases h
    · intro m' h; cases h; exact completeN hs hag hf
    · constructor
      · intro _; exact hfull.1 hf
      · intro _ h; cases h
  · refine ⟨c1, none, ?_, hrecv, hns, ?_, ?_, ?_⟩
    · rw [hproc]; simp [finish, hf]
    · intro _; exact ⟨hag, hf⟩
    · intro m' h; cases h
    · constructor
      · intro h; exact absurd rfl h
      · intro h; exact absurd (hfull.2 h) hf

/-- (b) Feeding any genuine slice of `m` (new or repeated, in any order) to a constructor that agrees
    with `m` never fails; the result either still agrees with `m` and is incomplete, or hands out
    exactly `m`; and it hands out `m` exactly when every index is now present. -/
theorem processSlice_genuine {m : Bytes} (hm : 0 < m.length) {c : SliceCtor} (hc : CtorAgrees m c)
    {idx : Nat} (hidx : idx < divCeil m.length SLICE_SIZE) :
    ∃ c' out, c.processSlice idx (sliceBytes m (divCeil m.length SLICE_SIZE) idx) = .ok (c', out) ∧
      c'.received = c.received.set idx true ∧
      c'.numSlices = c.numSlices ∧
      (out = none → CtorAgrees m c' ∧ c'.numReceived ≠ c'.numSlices) ∧
      (∀ m', out = some m' → m' = m) ∧
      (out ≠ none ↔ ∀ i, i < divCeil m.length SLICE_SIZE → c'.received[i]? = some true) :=
  processSlice_genuineN (shape_divCeil m hm) hc hidx

end RenetVerif.Reasm
