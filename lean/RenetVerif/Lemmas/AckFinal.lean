/-
  C15, last clause, at connection level: "a reliable message (or slice) is never transmitted again after an
  acknowledgement for a packet carrying it (sent less than 3 s earlier) has been processed".

  Props/C15 (`acked_never`, `slice_not_early`) speaks about ONE flush of ONE reliable send channel.  This file supplies
  the connection-level link:

   1. processing an Ack packet that covers a sequence number `q` still recorded in `c.sent` releases what packet `q`
      carried (`ack_releases_msgs`, `ack_releases_slice`) and removes `q` from the table (`ack_erases_sent`);
   2. "released" (`Released`, `SliceAcked`) is stable under every connection operation (`holds_apply`, `holds_run`);
      message ids are allocated increasingly, so a released id is never reused (`released_not_reused`);
   3. hence no packet of any later flush carries the message / the slice (`quiet_after`);
   4. the proviso "(sent less than 3 s earlier)": an Ack that covers only sequence numbers absent from `c.sent`
      (never sent, already acknowledged, or pruned by `update` after `DISCARD_AFTER`) changes nothing on the send side
      (`stale_ack_noop`); whatever an Ack releases is justified by a recorded packet (`release_only_if_recorded`);
      `update` prunes entries older than 3 s (`update_prunes`).

  Invariant used: `Good c := c.SendInv ∧ Acks.WF c.pendingAcks` (holds in every reachable state: `C08.reach_inv`).
-/
import RenetVerif.Lemmas.Liveness
import RenetVerif.Props.C15
namespace RenetVerif.AckFinal
open RenetVerif C RenetVerif.SI

/-! ## 0. small facts -/

theorem keys_nodup {α : Type} {m : SMap α} (h : Sorted m) : (SMap.keys m).Nodup := by
  unfold SMap.keys List.Nodup
  rw [List.pairwise_map]
  exact h.imp (fun h => Nat.ne_of_lt h)

theorem getD_set_true {l : List Bool} {i : Nat} (j : Nat) (h : l.getD i false = true) :
    (l.set j true).getD i false = true := by
  rw [List.getD_eq_getElem?_getD] at h ⊢
  rw [List.getElem?_set]
  split
  · next e =>
    subst e
    split
    · rfl
    · next hlt =>
      rw [List.getElem?_eq_none (by omega)] at h
      cases h
  · exact h

/-- an ack bit read with `getD` is set iff the slot exists and holds `true` -/
theorem getD_true_of_not_false {l : List Bool} {i : Nat} (hi : i < l.length) (h : l[i]? ≠ some false) :
    l.getD i false = true := by
  rw [List.getD_eq_getElem?_getD, List.getElem?_eq_getElem hi] at *
  cases hb : l[i] with
  | true => rfl
  | false => rw [hb] at h; exact absurd rfl h

/-! ## 1. channel level: what "released" means and why it is stable -/

/-- message `id` was allocated by the channel and is no longer stored: its acknowledgement removed it -/
def MsgDone (s : SendRel) (id : Nat) : Prop := id < s.nextId ∧ SMap.find? s.unacked id = none

/-- slice `i` of message `id` needs no further transmission: the message was allocated and either is gone (all its
    slices acknowledged) or is still stored with the ack bit of slice `i` set -/
def SliceDone (s : SendRel) (id i : Nat) : Prop :=
  id < s.nextId ∧ (SMap.find? s.unacked id = none ∨
    ∃ m n k nx ak ls, SMap.find? s.unacked id = some (.sliced m n k nx ak ls) ∧ ak.getD i false = true)

theorem MsgDone.sliceDone {s : SendRel} {id : Nat} (h : MsgDone s id) (i : Nat) : SliceDone s id i := ⟨h.1, Or.inl h.2⟩

/-- `MsgDone` survives any channel step: ids below `nextId` never come back -/
theorem MsgDone.step {s s' : SendRel} {id : Nat} (hst : s.Step s') (h : MsgDone s id) : MsgDone s' id := by
  refine ⟨Nat.lt_of_lt_of_le h.1 hst.2.2.1, ?_⟩
  cases hf : SMap.find? s'.unacked id with
  | none => rfl
  | some u' =>
    obtain ⟨u, hu, -⟩ := hst.2.2.2 id u' h.1 hf
    rw [h.2] at hu; cases hu

/-- `process_message_ack` that returned: invariant, step, and what it did -/
theorem msgAck_cases {s s' : SendRel} {id : Nat} (h : s.Inv) (e : s.processMessageAck id = .ok s') :
    s'.Inv ∧ s.Step s' ∧
      ((SMap.find? s.unacked id = none ∧ s' = s) ∨
       ∃ m ls, SMap.find? s.unacked id = some (.small m ls) ∧ m.length ≤ s.mem ∧
         s' = { s with unacked := SMap.erase s.unacked id, mem := s.mem - m.length }) := by
  have hk : ∀ u, SMap.find? s.unacked id = some u → u.IsSmall := by
    intro u hu
    cases u with
    | small => trivial
    | sliced =>
      unfold SendRel.processMessageAck at e
      rw [hu] at e
      cases e
  obtain ⟨s2, e2, i, st, d⟩ := SendRel.processMessageAck_spec h id hk
  rw [e] at e2; cases e2
  exact ⟨i, st, d⟩

/-- `process_slice_ack` that returned: invariant, step, and what it did -/
theorem sliceAck_cases {s s' : SendRel} {id idx : Nat} (h : s.Inv) (e : s.processSliceAck id idx = .ok s') :
    s'.Inv ∧ s.Step s' ∧
      ((SMap.find? s.unacked id = none ∧ s' = s) ∨
       ∃ m n k nx acked ls, SMap.find? s.unacked id = some (.sliced m n k nx acked ls) ∧
         ((acked[idx]? = some true ∧ s' = s) ∨
          (acked[idx]? = some false ∧ k + 1 = n ∧ m.length ≤ s.mem ∧
             s' = { s with unacked := SMap.erase s.unacked id, mem := s.mem - m.length }) ∨
          (acked[idx]? = some false ∧ k + 1 ≠ n ∧
             s' = { s with unacked := SMap.insert s.unacked id (.sliced m n (k + 1) nx (acked.set idx true) ls) }))) := by
  have hk : ∀ u, SMap.find? s.unacked id = some u → u.SliceIdx idx := by
    intro u hu
    cases u with
    | small =>
      unfold SendRel.processSliceAck at e
      rw [hu] at e
      cases e
    | sliced m n k nx ak ls =>
      show idx < n
      apply Classical.byContradiction
      intro hge
      obtain ⟨-, -, o3, -⟩ := h.find_ok hu
      unfold SendRel.processSliceAck at e
      rw [hu] at e
      dsimp only at e
      rw [List.getElem?_eq_none (by omega)] at e
      cases e
  obtain ⟨s2, e2, i, st, d⟩ := SendRel.processSliceAck_spec h id idx hk
  rw [e] at e2; cases e2
  exact ⟨i, st, d⟩

/-- a per-channel property that survives the four operations of a reliable send channel -/
structure Stable (P : SendRel → Prop) : Prop where
  send : ∀ {s s' : SendRel} {m : Bytes}, s.Inv → P s → s.sendMessage m = .ok s' → P s'
  flush : ∀ {s : SendRel} (seq avail now : Nat), s.Inv → P s → P (s.getPackets seq avail now).1
  msgAck : ∀ {s s' : SendRel} {id : Nat}, s.Inv → P s → s.processMessageAck id = .ok s' → P s'
  sliceAck : ∀ {s s' : SendRel} {id idx : Nat}, s.Inv → P s → s.processSliceAck id idx = .ok s' → P s'

theorem getPackets_facts {s : SendRel} (h : s.Inv) (seq avail now : Nat) :
    (s.getPackets seq avail now).1.Inv ∧ s.Step (s.getPackets seq avail now).1 ∧
    (s.getPackets seq avail now).1.nextId = s.nextId ∧ MapSim s.unacked (s.getPackets seq avail now).1.unacked ∧
    ∀ p ∈ (s.getPackets seq avail now).2.1, PktOK s.ch (s.getPackets seq avail now).1.unacked p := by
  obtain ⟨a, b, -, d, e, -, g⟩ := SendRel.getPackets_spec h seq avail now _ _ _ _ rfl
  refine ⟨a, b, d, e, fun p hp => ?_⟩
  have := (g p hp).1
  rw [b.1] at this
  exact this

theorem msgDone_stable (id : Nat) : Stable (fun s => MsgDone s id) where
  send := fun h hp e => hp.step (SendRel.sendMessage_spec h e).2.1
  flush := fun seq avail now h hp => hp.step (getPackets_facts h seq avail now).2.1
  msgAck := fun h hp e => hp.step (msgAck_cases h e).2.1
  sliceAck := fun h hp e => hp.step (sliceAck_cases h e).2.1

theorem sliceDone_erase {s : SendRel} {id i : Nat} (h : s.Inv) (hp : SliceDone s id i) (id' mem' : Nat) :
    SliceDone { s with unacked := SMap.erase s.unacked id', mem := mem' } id i := by
  refine ⟨hp.1, ?_⟩
  dsimp only
  rw [find?_erase h.sorted]
  split
  · exact Or.inl rfl
  · exact hp.2

theorem sliceDone_stable (id i : Nat) : Stable (fun s => SliceDone s id i) where
  send := by
    intro s s' m h hp e
    obtain ⟨-, st, -, -, -, hsame⟩ := SendRel.sendMessage_spec h e
    refine ⟨Nat.lt_of_lt_of_le hp.1 st.2.2.1, ?_⟩
    rw [hsame id (Nat.ne_of_lt hp.1)]
    exact hp.2
  flush := by
    intro s seq avail now h hp
    obtain ⟨-, -, hn, hsim, -⟩ := getPackets_facts h seq avail now
    refine ⟨by rw [hn]; exact hp.1, ?_⟩
    rcases hsim.find id with ⟨-, h2⟩ | ⟨u, u', h1, h2, h3⟩
    · exact Or.inl h2
    · rcases hp.2 with hnone | ⟨m, n, k, nx, ak, ls, hf, hb⟩
      · rw [hnone] at h1; cases h1
      · rw [hf] at h1; cases h1
        cases u' with
        | small => exact h3.elim
        | sliced m2 n2 k2 nx2 a2 ls2 =>
          obtain ⟨rfl, rfl, rfl, rfl, -⟩ := h3
          exact Or.inr ⟨_, _, _, _, _, _, h2, hb⟩
  msgAck := by
    intro s s' id' h hp e
    obtain ⟨-, -, d⟩ := msgAck_cases h e
    rcases d with ⟨-, rfl⟩ | ⟨m, ls, -, -, rfl⟩
    · exact hp
    · exact sliceDone_erase h hp _ _
  sliceAck := by
    intro s s' id' idx h hp e
    obtain ⟨-, -, d⟩ := sliceAck_cases h e
    rcases d with ⟨-, rfl⟩ | ⟨m, n, k, nx, acked, ls, hf, d⟩
    · exact hp
    · rcases d with ⟨-, rfl⟩ | ⟨-, -, -, rfl⟩ | ⟨-, -, rfl⟩
      · exact hp
      · exact sliceDone_erase h hp _ _
      · refine ⟨hp.1, ?_⟩
        dsimp only
        rw [SI.find?_insert]
        split
        · next e' =>
          subst e'
          rcases hp.2 with hnone | ⟨m0, n0, k0, nx0, ak0, ls0, hf0, hb0⟩
          · rw [hnone] at hf; cases hf
          · rw [hf0] at hf; cases hf
            exact Or.inr ⟨_, _, _, _, _, _, rfl, getD_set_true idx hb0⟩
        · exact hp.2

/-! ## 2. connection level: the invariant, "released", and its stability -/

/-- the send-side invariant plus well-formed pending acks; holds in every reachable state (`C08.reach_inv`) -/
def Good (c : Conn) : Prop := c.SendInv ∧ Acks.WF c.pendingAcks

/-- reliable send channel `ch` exists and satisfies `P` -/
def Holds (P : SendRel → Prop) (c : Conn) (ch : Nat) : Prop := ∃ s, SMap.find? c.sendRel ch = some s ∧ P s

/-- message `id` of reliable send channel `ch` has been acknowledged and released -/
def Released (c : Conn) (ch id : Nat) : Prop := Holds (fun s => MsgDone s id) c ch

/-- slice `i` of message `id` of reliable send channel `ch` has been acknowledged -/
def SliceAcked (c : Conn) (ch id i : Nat) : Prop := Holds (fun s => SliceDone s id i) c ch

theorem Released.sliceAcked {c : Conn} {ch id : Nat} (h : Released c ch id) (i : Nat) : SliceAcked c ch id i := by
  obtain ⟨s, hs, hp⟩ := h
  exact ⟨s, hs, hp.sliceDone i⟩

theorem holds_same {P : SendRel → Prop} {c c' : Conn} {ch : Nat} (hs : c.SendSame c') (h : Holds P c ch) : Holds P c' ch := by
  obtain ⟨s, h1, h2⟩ := h
  exact ⟨s, by rw [hs.1]; exact h1, h2⟩

theorem holds_sendRel_eq {P : SendRel → Prop} {c c' : Conn} {ch : Nat} (hs : c'.sendRel = c.sendRel) (h : Holds P c ch) :
    Holds P c' ch := by
  obtain ⟨s, h1, h2⟩ := h
  exact ⟨s, by rw [hs]; exact h1, h2⟩

/-- the per-channel predicate threaded through `process_packet` and `get_packets_to_send` -/
def PP (P : SendRel → Prop) (ch0 : Nat) : Nat → SendRel → Prop := fun ch s => s.Inv ∧ s.ch = ch ∧ (ch = ch0 → P s)

theorem pp_of_holds {P : SendRel → Prop} {c : Conn} {ch0 : Nat} (hi : c.SendInv) (hh : Holds P c ch0) :
    ∀ ch s, SMap.find? c.sendRel ch = some s → PP P ch0 ch s := by
  intro ch s hs
  obtain ⟨hinv, hch⟩ := hi.chans ch s hs
  refine ⟨hinv, hch, ?_⟩
  rintro rfl
  obtain ⟨s0, h0, hp⟩ := hh
  rw [hs] at h0; cases h0; exact hp

theorem pp_msgAck {P : SendRel → Prop} (hP : Stable P) (ch0 : Nat) :
    ∀ ch s id s', PP P ch0 ch s → s.processMessageAck id = .ok s' → PP P ch0 ch s' := by
  intro ch s id s' ⟨hi, hc, hp⟩ e
  obtain ⟨i', st, -⟩ := msgAck_cases hi e
  exact ⟨i', st.1.trans hc, fun h => hP.msgAck hi (hp h) e⟩

theorem pp_sliceAck {P : SendRel → Prop} (hP : Stable P) (ch0 : Nat) :
    ∀ ch s id idx s', PP P ch0 ch s → s.processSliceAck id idx = .ok s' → PP P ch0 ch s' := by
  intro ch s id idx s' ⟨hi, hc, hp⟩ e
  obtain ⟨i', st, -⟩ := sliceAck_cases hi e
  exact ⟨i', st.1.trans hc, fun h => hP.sliceAck hi (hp h) e⟩

/-- `process_packet` of ANY bytes keeps every reliable send channel, as a later `Step` of itself -/
theorem processPacket_chan {c c' : Conn} {bytes : Bytes} (hi : c.SendInv) (hr : c.processPacket bytes = .ok c')
    {ch : Nat} {s : SendRel} (hs : SMap.find? c.sendRel ch = some s) :
    ∃ s', SMap.find? c'.sendRel ch = some s' ∧ s'.Inv ∧ s.Step s' := by
  have hall := System.processPacket_pres (fun ch' s' => s'.Inv ∧ (ch' = ch → s.Step s'))
    (fun ch' s0 id s1 ⟨a, b⟩ e => by
      obtain ⟨i', st, -⟩ := msgAck_cases a e
      exact ⟨i', fun h => (b h).trans st⟩)
    (fun ch' s0 id idx s1 ⟨a, b⟩ e => by
      obtain ⟨i', st, -⟩ := sliceAck_cases a e
      exact ⟨i', fun h => (b h).trans st⟩)
    hr
    (fun ch' s0 h0 => ⟨(hi.chans ch' s0 h0).1, by rintro rfl; rw [hs] at h0; cases h0; exact SendRel.Step.refl _⟩)
  have hex : ∃ s', SMap.find? c'.sendRel ch = some s' := by
    rcases Conn.processPacket_eff hi hr with e | ⟨_, _, _, _, _, hch⟩
    · rw [e]; exact ⟨s, hs⟩
    · obtain ⟨s', hs', -⟩ := hch ch s hs; exact ⟨s', hs'⟩
  obtain ⟨s', hs'⟩ := hex
  obtain ⟨a, b⟩ := hall ch s' hs'
  exact ⟨s', hs', a, b rfl⟩

theorem holds_processPacket {P : SendRel → Prop} (hP : Stable P) {c c' : Conn} {bytes : Bytes} {ch0 : Nat}
    (hi : c.SendInv) (hh : Holds P c ch0) (hr : c.processPacket bytes = .ok c') : Holds P c' ch0 := by
  have hall := System.processPacket_pres (PP P ch0) (pp_msgAck hP ch0) (pp_sliceAck hP ch0) hr (pp_of_holds hi hh)
  obtain ⟨s, hs, -⟩ := hh
  obtain ⟨s', hs', -⟩ := processPacket_chan hi hr hs
  exact ⟨s', hs', (hall ch0 s' hs').2.2 rfl⟩

theorem holds_sendMessage {P : SendRel → Prop} (hP : Stable P) {c c' : Conn} {ch ch0 : Nat} {m : Bytes}
    (hi : c.SendInv) (hh : Holds P c ch0) (hr : c.sendMessage ch m = .ok c') : Holds P c' ch0 := by
  obtain ⟨s, hs, hp⟩ := hh
  rcases System.sendMessage_cases hr with ⟨-, s1, s1', hf, he, rfl⟩ | ⟨-, e⟩
  · unfold Holds
    dsimp only
    rw [SI.find?_insert]
    by_cases cc : ch = ch0
    · subst cc
      rw [if_pos rfl]
      rw [hs] at hf; cases hf
      exact ⟨s1', rfl, hP.send (hi.chans _ _ hs).1 hp he⟩
    · rw [if_neg cc]; exact ⟨s, hs, hp⟩
  · exact holds_sendRel_eq e ⟨s, hs, hp⟩

/-- reliable data packet of channel `ch0` -/
def RelOn (ch0 : Nat) : Packet → Prop
  | .smallReliable _ c _ => c = ch0
  | .reliableSlice _ c _ => c = ch0
  | _ => False

theorem pktOK_relOn {ch ch0 : Nat} {U : SMap Unacked} : ∀ {p : Packet}, PktOK ch U p → RelOn ch0 p → ch = ch0
  | .smallReliable .., h, hr => h.1.symm.trans hr
  | .reliableSlice .., h, hr => h.1.symm.trans hr
  | .smallUnreliable .., h, _ => h.elim
  | .unreliableSlice .., h, _ => h.elim
  | .ack .., h, _ => h.elim

theorem not_relOn_of_not_rel {ch0 : Nat} : ∀ {p : Packet}, System.isRel p = false → ¬ RelOn ch0 p
  | .smallReliable .., h, _ => by cases h
  | .reliableSlice .., h, _ => by cases h
  | .smallUnreliable .., _, hr => hr
  | .unreliableSlice .., _, hr => hr
  | .ack .., _, hr => hr

/-- `P` on channel `ch0` keeps every emitted packet inside `Q`: the channel itself emits only `Q`-packets while `P`
    holds, and every packet that is not a reliable data packet of `ch0` is in `Q` anyway -/
structure Quiet (P : SendRel → Prop) (ch0 : Nat) (Q : Packet → Prop) : Prop where
  own : ∀ (s : SendRel) (seq avail now : Nat), s.Inv → P s → ∀ p ∈ (s.getPackets seq avail now).2.1, Q p
  other : ∀ p, ¬ RelOn ch0 p → Q p

/-- one flush: the property survives, and every packet of the flush is in `Q` -/
theorem holds_flush {P : SendRel → Prop} {Q : Packet → Prop} {ch0 : Nat} (hP : Stable P) (hQ : Quiet P ch0 Q)
    {c c' : Conn} {bs : List Bytes} (hg : Good c) (hh : Holds P c ch0) (hr : c.getPacketsToSend = .ok (c', bs)) :
    Holds P c' ch0 ∧ ∀ p ∈ System.flushPk c, Q p := by
  obtain ⟨h1, h2⟩ := System.flush_pres (PP P ch0) Q c'.packetSeq
    (fun ch s seq avail ⟨hi, hc, hp⟩ _ => by
      obtain ⟨a, b, -, -, g⟩ := getPackets_facts hi seq avail c.now
      refine ⟨⟨a, b.1.trans hc, fun h => hP.flush seq avail c.now hi (hp h)⟩, fun p hmem => ?_⟩
      by_cases cc : ch = ch0
      · exact hQ.own s seq avail c.now hi (hp cc) p hmem
      · exact hQ.other p (fun hrel => cc (hc.symm.trans (pktOK_relOn (g p hmem) hrel))))
    (fun su seq avail p hmem => hQ.other p (not_relOn_of_not_rel (System.unrel_not_rel su seq avail p hmem)))
    (fun seq => hQ.other _ (fun h => h))
    hr (Nat.le_refl _) (pp_of_holds hg.1 hh)
  refine ⟨?_, h2⟩
  obtain ⟨s, hs, -⟩ := hh
  obtain ⟨-, -, g, -⟩ := Conn.getPacketsToSend_spec hg.1 hg.2 hr
  have := g.1.1 ch0
  rw [hs] at this
  cases hb : SMap.find? c'.sendRel ch0 with
  | none => rw [hb] at this; cases this
  | some s' => exact ⟨s', hb, (h1 ch0 s' hb).2.2 rfl⟩

/-! ### every public operation -/

theorem setConnected_same (c : Conn) : c.SendSame c.setConnected ∧ c.setConnected.pendingAcks = c.pendingAcks := by
  unfold Conn.setConnected
  split
  · exact ⟨Conn.SendSame.refl _, rfl⟩
  · exact ⟨⟨rfl, rfl, rfl, rfl, rfl⟩, rfl⟩

theorem setConnecting_same (c : Conn) : c.SendSame c.setConnecting ∧ c.setConnecting.pendingAcks = c.pendingAcks := by
  unfold Conn.setConnecting
  split
  · exact ⟨Conn.SendSame.refl _, rfl⟩
  · exact ⟨⟨rfl, rfl, rfl, rfl, rfl⟩, rfl⟩

theorem good_same {c c' : Conn} (hg : Good c) (hs : c.SendSame c') (ha : c'.pendingAcks = c.pendingAcks) : Good c' :=
  ⟨hg.1.same hs, by rw [ha]; exact hg.2⟩

/-- the invariant is kept by every operation that returns -/
theorem good_apply {c c' : Conn} (hg : Good c) {op : SL.ConnOp} (e : op.apply c = .ok c') : Good c' := by
  cases op with
  | setConnected => cases e; exact good_same hg (setConnected_same c).1 (setConnected_same c).2
  | setConnecting => cases e; exact good_same hg (setConnecting_same c).1 (setConnecting_same c).2
  | disconnect => cases e; exact good_same hg (c.disconnectWith_same _).1 (c.disconnectWith_same _).2.1
  | disconnectWith r => cases e; exact good_same hg (c.disconnectWith_same _).1 (c.disconnectWith_same _).2.1
  | sendMessage ch m =>
    exact ⟨Conn.sendMessage_inv hg.1 e, by rw [(C08.pending_acks_unchanged_elsewhere c).1 _ _ _ e]; exact hg.2⟩
  | receiveMessage ch =>
    obtain ⟨m, hm⟩ := SL.Res.stateOf_ok e
    exact good_same hg (Conn.receiveMessage_same hm).1 (Conn.receiveMessage_same hm).2
  | processPacket b => exact ⟨Conn.processPacket_inv hg.1 e, (Conn.processPacket_acks hg.1 hg.2 e).1⟩
  | getPacketsToSend =>
    obtain ⟨out, ho⟩ := SL.Res.stateOf_ok e
    obtain ⟨a, b, -⟩ := Conn.getPacketsToSend_spec hg.1 hg.2 ho
    exact ⟨a, by rw [b]; exact hg.2⟩
  | update dt => exact ⟨Conn.update_inv hg.1 e, by rw [(Conn.update_spec e).2.2.2.2.1]; exact hg.2⟩

/-- **released stays released** under every public operation of the connection (`update`, `process_packet` of any
    bytes, `get_packets_to_send`, `receive_message`, `send_message`, the status setters) -/
theorem holds_apply {P : SendRel → Prop} (hP : Stable P) {c c' : Conn} {ch0 : Nat} (hg : Good c) (hh : Holds P c ch0)
    {op : SL.ConnOp} (e : op.apply c = .ok c') : Holds P c' ch0 := by
  cases op with
  | setConnected => cases e; exact holds_same (setConnected_same c).1 hh
  | setConnecting => cases e; exact holds_same (setConnecting_same c).1 hh
  | disconnect => cases e; exact holds_same (c.disconnectWith_same _).1 hh
  | disconnectWith r => cases e; exact holds_same (c.disconnectWith_same _).1 hh
  | sendMessage ch m => exact holds_sendMessage hP hg.1 hh e
  | receiveMessage ch =>
    obtain ⟨m, hm⟩ := SL.Res.stateOf_ok e
    exact holds_same (Conn.receiveMessage_same hm).1 hh
  | processPacket b => exact holds_processPacket hP hg.1 hh e
  | getPacketsToSend =>
    obtain ⟨out, ho⟩ := SL.Res.stateOf_ok e
    -- `Q := True`: only the stability half of `holds_flush` is used here
    exact (holds_flush (Q := fun _ => True) hP ⟨fun _ _ _ _ _ _ _ _ => trivial, fun _ _ => trivial⟩ hg hh ho).1
  | update dt => exact holds_sendRel_eq (Conn.update_spec e).1 hh

theorem run_inv {P : SendRel → Prop} (hP : Stable P) {ch0 : Nat} : ∀ (ops : List SL.ConnOp) (c c1 : Conn),
    Good c → Holds P c ch0 → SL.Conn.runOps c ops = .ok c1 → Good c1 ∧ Holds P c1 ch0
  | [], c, c1, hg, hh, e => by
    simp only [SL.Conn.runOps, Res.ok.injEq] at e
    subst e; exact ⟨hg, hh⟩
  | op :: rest, c, c1, hg, hh, e => by
    unfold SL.Conn.runOps at e
    cases h1 : op.apply c with
    | ok c2 =>
      rw [h1] at e
      exact run_inv hP rest c2 c1 (good_apply hg h1) (holds_apply hP hg hh h1) e
    | err x => exact x.elim
    | panic m => rw [h1] at e; cases e

/-! ## 3. what "carries" means, and the two instances of `Quiet` (from the one-flush theorems of Props/C15) -/

/-- packet `p` carries message `id` of reliable channel `ch`: as one of the messages of a small-message packet, or as
    any slice of it -/
def CarriesMsg (ch id : Nat) : Packet → Prop
  | .smallReliable _ c msgs => c = ch ∧ ∃ x ∈ msgs, x.1 = id
  | .reliableSlice _ c sl => c = ch ∧ sl.messageId = id
  | _ => False

/-- packet `p` carries slice `i` of message `id` of reliable channel `ch` -/
def CarriesSlice (ch id i : Nat) : Packet → Prop
  | .reliableSlice _ c sl => c = ch ∧ sl.messageId = id ∧ sl.sliceIndex = i
  | _ => False

instance (ch id : Nat) (p : Packet) : Decidable (CarriesMsg ch id p) := by
  cases p <;> simp only [CarriesMsg] <;> infer_instance

instance (ch id i : Nat) (p : Packet) : Decidable (CarriesSlice ch id i p) := by
  cases p <;> simp only [CarriesSlice] <;> infer_instance

theorem CarriesSlice.carriesMsg {ch id i : Nat} : ∀ {p : Packet}, CarriesSlice ch id i p → CarriesMsg ch id p
  | .reliableSlice .., h => ⟨h.1, h.2.1⟩
  | .smallReliable .., h => h.elim
  | .smallUnreliable .., h => h.elim
  | .unreliableSlice .., h => h.elim
  | .ack .., h => h.elim

theorem CarriesMsg.relOn {ch id : Nat} : ∀ {p : Packet}, CarriesMsg ch id p → RelOn ch p
  | .reliableSlice .., h => h.1
  | .smallReliable .., h => h.1
  | .smallUnreliable .., h => h.elim
  | .unreliableSlice .., h => h.elim
  | .ack .., h => h.elim

/-- a released message is in no packet of a flush of its channel (`C15.acked_never`) -/
theorem quiet_msg (ch id : Nat) : Quiet (fun s => MsgDone s id) ch (fun p => ¬ CarriesMsg ch id p) where
  own := by
    intro s seq avail now _ hp p hmem hc
    obtain ⟨a, b⟩ := C15.acked_never (s := s) (seq := seq) (avail := avail) (now := now) rfl hp.2
    cases p with
    | smallReliable sq c msgs =>
      obtain ⟨-, x, hx, he⟩ := hc
      exact a sq c msgs hmem x hx he
    | reliableSlice sq c sl => exact b sq c sl hmem hc.2
    | smallUnreliable => exact hc
    | unreliableSlice => exact hc
    | ack => exact hc
  other := fun p hn hc => hn hc.relOn

/-- an acknowledged slice is in no packet of a flush of its channel (`C15.slice_not_early`, `C15.acked_never`) -/
theorem quiet_slice (ch id i : Nat) : Quiet (fun s => SliceDone s id i) ch (fun p => ¬ CarriesSlice ch id i p) where
  own := by
    intro s seq avail now hinv hp p hmem hc
    cases p with
    | reliableSlice sq c sl =>
      obtain ⟨-, hid, hidx⟩ := hc
      rcases hp.2 with hnone | ⟨m, n, k, nx, ak, ls, hf, hb⟩
      · exact (C15.acked_never (s := s) (seq := seq) (avail := avail) (now := now) rfl hnone).2 sq c sl hmem hid
      · exact (C15.slice_not_early (s := s) (seq := seq) (avail := avail) (now := now) rfl hf (Or.inl hb)).2
          (keys_nodup hinv.sorted) sq c sl hmem hid hidx
    | smallReliable => exact hc
    | smallUnreliable => exact hc
    | unreliableSlice => exact hc
    | ack => exact hc
  other := fun p hn hc => hn hc.carriesMsg.relOn

/-! ## 4. processing an acknowledgement -/

/-- acknowledging the recorded packets `L` removes each of them from the sent table -/
theorem ackLoop_erases : ∀ (L : List Nat) (c c' : Conn), c.SendInv → L.Nodup →
    (∀ x ∈ L, ∃ v, SMap.find? c.sent x = some v) → Conn.ackLoop c L = .ok c' → ∀ seq ∈ L, SMap.find? c'.sent seq = none
  | [], _, _, _, _, _, _, seq, hs => by cases hs
  | seq0 :: rest, c, c', hi, hnd, hin, e, seq, hseq => by
    obtain ⟨c1, e1, i1, hs1, -⟩ := Conn.ackOne_spec hi (hin seq0 (by simp))
    rw [List.nodup_cons] at hnd
    have hin1 : ∀ x ∈ rest, ∃ v, SMap.find? c1.sent x = some v := by
      intro x hx
      obtain ⟨v, hv⟩ := hin x (List.mem_cons_of_mem _ hx)
      exact ⟨v, by rw [hs1, find?_erase_ne _ (by intro e; subst e; exact hnd.1 hx)]; exact hv⟩
    have e' : Conn.ackLoop c1 rest = .ok c' := by
      simp only [Conn.ackLoop, e1, Res.bind_ok] at e; exact e
    rcases List.mem_cons.mp hseq with hq | hseq
    · subst hq
      obtain ⟨c2, e2, -, -, mono⟩ := Conn.ackLoop_spec rest i1 hnd.2 hin1
      rw [e'] at e2; cases e2
      cases hf : SMap.find? c'.sent seq with
      | none => rfl
      | some v =>
        have := mono seq v hf
        rw [hs1, find?_erase_self seq hi.sentSorted] at this; cases this
    · exact ackLoop_erases rest c1 c' i1 hnd.2 hin1 e' seq hseq

/-- the ack branch of `process_packet`, opened up: the list `L` of newly acknowledged sequence numbers has no
    duplicates, names recorded packets covered by the ranges, and `c'` is the result of the ack loop over `L` -/
theorem ack_branch {c c' : Conn} {bytes : Bytes} {aseq : Nat} {ranges : List AckRange} (hi : c.SendInv)
    (hd : c.isDisconnected = false) (hp : Packet.fromBytes bytes = .ok (.ack aseq ranges))
    (he : c.processPacket bytes = .ok c') :
    ∃ L, Conn.newAcks c.sent ranges = .ok L ∧ L.Nodup ∧
      (∀ x ∈ L, (∃ v, SMap.find? c.sent x = some v) ∧ Acks.Mem x ranges) ∧
      Conn.ackLoop { c with pendingAcks := Acks.add ACK_RANGE_CAP aseq c.pendingAcks } L = .ok c' := by
  obtain ⟨L, hL, hnd, hmem⟩ := Conn.newAcks_spec hi.sentSorted ranges (fromBytes_ack_wf hp)
  refine ⟨L, hL, hnd, hmem, ?_⟩
  have := Conn.processPacket_ack_eq hd hp
  rw [he, hL] at this
  exact this.symm

/-- the acknowledged packet leaves the sent table -/
theorem ack_erases_sent {c c' : Conn} {bytes : Bytes} {aseq : Nat} {ranges : List AckRange} (hi : c.SendInv)
    (hd : c.isDisconnected = false) (hp : Packet.fromBytes bytes = .ok (.ack aseq ranges))
    (he : c.processPacket bytes = .ok c') {q : Nat} {v : Nat × SentInfo} (hq : SMap.find? c.sent q = some v)
    (hm : Acks.Mem q ranges) : SMap.find? c'.sent q = none := by
  obtain ⟨L, hL, hnd, hmem, hloop⟩ := ack_branch hi hd hp he
  have hi0 : ({ c with pendingAcks := Acks.add ACK_RANGE_CAP aseq c.pendingAcks } : Conn).SendInv :=
    hi.same ⟨rfl, rfl, rfl, rfl, rfl⟩
  exact ackLoop_erases L { c with pendingAcks := Acks.add ACK_RANGE_CAP aseq c.pendingAcks } c' hi0 hnd
    (fun x hx => (hmem x hx).1) hloop q (Live.newAcks_complete ranges L hL q v hq hm)

/-- **acknowledged small messages are released** -/
theorem ack_releases_msgs {c c' : Conn} {bytes : Bytes} {aseq : Nat} {ranges : List AckRange} (hi : c.SendInv)
    (hd : c.isDisconnected = false) (hp : Packet.fromBytes bytes = .ok (.ack aseq ranges))
    (he : c.processPacket bytes = .ok c') {q t ch : Nat} {ids : List Nat}
    (hq : SMap.find? c.sent q = some (t, .relMsgs ch ids)) (hm : Acks.Mem q ranges) :
    (∀ id ∈ ids, Released c' ch id) ∧ SMap.find? c'.sent q = none := by
  refine ⟨?_, ack_erases_sent hi hd hp he hq hm⟩
  obtain ⟨s, hs, hok⟩ := (hi.sentOK _ (find?_some_mem hq)).2 ch rfl
  obtain ⟨s', hs', -, st⟩ := processPacket_chan hi he hs
  obtain ⟨s2, hs2, hgone⟩ := (Live.processPacket_ack_forward hi hd hp he).2.2 q t _ hm hq
  rw [hs'] at hs2; cases hs2
  intro id hid
  exact ⟨s', hs', Nat.lt_of_lt_of_le (hok id hid).1 st.2.2.1, hgone id hid⟩

/-- **an acknowledged slice is marked** (ack bit set), or its message is gone when that was the last unacked slice -/
theorem ack_releases_slice {c c' : Conn} {bytes : Bytes} {aseq : Nat} {ranges : List AckRange} (hi : c.SendInv)
    (hd : c.isDisconnected = false) (hp : Packet.fromBytes bytes = .ok (.ack aseq ranges))
    (he : c.processPacket bytes = .ok c') {q t ch id i : Nat}
    (hq : SMap.find? c.sent q = some (t, .relSlice ch id i)) (hm : Acks.Mem q ranges) :
    SliceAcked c' ch id i ∧ SMap.find? c'.sent q = none := by
  refine ⟨?_, ack_erases_sent hi hd hp he hq hm⟩
  obtain ⟨s, hs, hok⟩ := (hi.sentOK _ (find?_some_mem hq)).2 ch rfl
  obtain ⟨s', hs', hinv', st⟩ := processPacket_chan hi he hs
  obtain ⟨s2, hs2, hnp⟩ := (Live.processPacket_ack_forward hi hd hp he).2.2 q t _ hm hq
  rw [hs'] at hs2; cases hs2
  refine ⟨s', hs', Nat.lt_of_lt_of_le hok.1 st.2.2.1, ?_⟩
  cases hf : SMap.find? s'.unacked id with
  | none => exact Or.inl rfl
  | some u' =>
    obtain ⟨u, hu, hkin⟩ := st.2.2.2 id u' hok.1 hf
    have hidx := hkin.sliceIdx (hok.2 u hu)
    cases u' with
    | small => exact hidx.elim
    | sliced m n k nx ak ls =>
      obtain ⟨-, -, o3, -⟩ := hinv'.find_ok hf
      refine Or.inr ⟨m, n, k, nx, ak, ls, rfl, getD_true_of_not_false (by rw [o3]; exact hidx) ?_⟩
      intro hfalse
      exact hnp ⟨m, n, k, nx, ak, ls, hf, hfalse⟩

/-! ### the proviso "(sent less than 3 s earlier)" -/

/-- **converse guard.**  An Ack packet that covers no sequence number still recorded in `c.sent` — nothing of what it
    names was sent, or it was already acknowledged, or `update` pruned it after `DISCARD_AFTER` = 3 s — changes nothing
    but the receiver-side pending-ack list: no channel, no sent entry is touched. -/
theorem stale_ack_noop {c : Conn} {bytes : Bytes} {aseq : Nat} {ranges : List AckRange} (hi : c.SendInv)
    (hd : c.isDisconnected = false) (hp : Packet.fromBytes bytes = .ok (.ack aseq ranges))
    (hstale : ∀ x, Acks.Mem x ranges → SMap.find? c.sent x = none) :
    c.processPacket bytes = .ok { c with pendingAcks := Acks.add ACK_RANGE_CAP aseq c.pendingAcks } := by
  obtain ⟨L, hL, -, hmem⟩ := Conn.newAcks_spec hi.sentSorted ranges (fromBytes_ack_wf hp)
  have hnil : L = [] := by
    cases L with
    | nil => rfl
    | cons x t =>
      obtain ⟨⟨v, hv⟩, hm⟩ := hmem x (by simp)
      rw [hstale x hm] at hv; cases hv
  subst hnil
  rw [Conn.processPacket_ack_eq hd hp, hL]
  rfl

/-- **only recorded packets release.**  Whatever `process_packet` removes from `unacked`, and whatever slice it marks,
    is named by an entry of `c.sent` (a packet sent and not yet pruned) that the Ack's ranges cover. -/
theorem release_only_if_recorded {c c' : Conn} {bytes : Bytes} (hi : c.SendInv) (hr : c.processPacket bytes = .ok c')
    {ch : Nat} {s s' : SendRel} (hs : SMap.find? c.sendRel ch = some s) (hs' : SMap.find? c'.sendRel ch = some s') :
    (∀ id, SMap.find? s.unacked id ≠ none → SMap.find? s'.unacked id = none →
      ∃ aseq ranges seq t info, Packet.fromBytes bytes = .ok (.ack aseq ranges) ∧ Acks.Mem seq ranges ∧
        SMap.find? c.sent seq = some (t, info) ∧ Names info ch id) ∧
    (∀ id i, s.Pending id i → ¬ s'.Pending id i →
      ∃ aseq ranges seq t, Packet.fromBytes bytes = .ok (.ack aseq ranges) ∧ Acks.Mem seq ranges ∧
        SMap.find? c.sent seq = some (t, .relSlice ch id i)) := by
  rcases Conn.processPacket_eff hi hr with e | ⟨aseq, ranges, L, hp, hL, hch⟩
  · rw [e, hs] at hs'; cases hs'
    exact ⟨fun id h1 h2 => absurd h2 h1, fun id i h1 h2 => absurd h1 h2⟩
  · obtain ⟨s2, hs2, eff⟩ := hch ch s hs
    rw [hs'] at hs2; cases hs2
    refine ⟨?_, ?_⟩
    · intro id h1 h2
      obtain ⟨seq, hseq, t, info, hf, hn⟩ := eff.just id h1 h2
      exact ⟨aseq, ranges, seq, t, info, hp, hL seq hseq, hf, hn⟩
    · intro id i h1 h2
      rcases eff.pend id i h1 with h3 | ⟨seq, hseq, t, hf⟩
      · exact absurd h3 h2
      · exact ⟨aseq, ranges, seq, t, hp, hL seq hseq, hf⟩

/-- send times in the sent table do not decrease with the sequence number -/
def TimeMono (sent : SMap (Nat × SentInfo)) : Prop := List.Pairwise (fun a b => a.2.1 ≤ b.2.1) sent

theorem dropWhile_prunes (p : Nat × Nat × SentInfo → Bool)
    (hanti : ∀ x y : Nat × Nat × SentInfo, x.2.1 ≤ y.2.1 → p y = true → p x = true) :
    ∀ (l : SMap (Nat × SentInfo)), Sorted l → TimeMono l → ∀ (q : Nat) (v : Nat × SentInfo), (q, v) ∈ l → p (q, v) = true →
      SMap.find? (l.dropWhile p) q = none
  | [], _, _, _, _, h, _ => by cases h
  | x :: r, hs, hm, q, v, hmem, hp => by
    have hs' := sorted_cons.mp hs
    have hm' := List.pairwise_cons.mp hm
    rcases List.mem_cons.mp hmem with e | hmem
    · subst e
      rw [List.dropWhile_cons, if_pos hp]
      apply find?_none_of_lt
      intro y hy
      exact hs'.1 y ((List.dropWhile_sublist p).subset hy)
    · have hx : p x = true := hanti x (q, v) (hm'.1 _ hmem) hp
      rw [List.dropWhile_cons, if_pos hx]
      exact dropWhile_prunes p hanti r hs'.2 hm'.2 q v hmem hp

/-- **`update` prunes after 3 s**: a recorded packet whose send time lies `DISCARD_AFTER` or more before the new clock
    value is no longer in the sent table (so, by `stale_ack_noop` / `release_only_if_recorded`, an acknowledgement for
    it arriving later has no effect) -/
theorem update_prunes {c c' : Conn} {dt : Nat} (hs : Sorted c.sent) (hm : TimeMono c.sent) (hr : c.update dt = .ok c')
    {q t : Nat} {info : SentInfo} (hq : SMap.find? c.sent q = some (t, info))
    (hold : DISCARD_AFTER_NS ≤ c.now + dt - t) : SMap.find? c'.sent q = none := by
  rw [(Conn.update_spec hr).2.2.2.2.2]
  refine dropWhile_prunes _ ?_ c.sent hs hm q (t, info) (find?_some_mem hq) ?_
  · rintro ⟨k1, t1, i1⟩ ⟨k2, t2, i2⟩ hle hp
    simp only [decide_eq_true_eq, ge_iff_le] at hp ⊢ hle
    omega
  · simp only [decide_eq_true_eq, ge_iff_le]
    exact hold

/-! #### the time order of the sent table is an invariant -/

/-- send times in the sent table do not decrease with the sequence number and never exceed the clock -/
def TimeOK (c : Conn) : Prop :=
  (∀ k1 k2 v1 v2, SMap.find? c.sent k1 = some v1 → SMap.find? c.sent k2 = some v2 → k1 ≤ k2 → v1.1 ≤ v2.1) ∧
  ∀ k v, SMap.find? c.sent k = some v → v.1 ≤ c.now

theorem TimeOK.timeMono {c : Conn} (hs : Sorted c.sent) (ht : TimeOK c) : TimeMono c.sent := by
  unfold TimeMono
  refine List.Pairwise.imp_of_mem ?_ hs
  intro a b ha hb hlt
  exact ht.1 a.1 b.1 a.2 b.2 (mem_find?_of_sorted hs ha) (mem_find?_of_sorted hs hb) (Nat.le_of_lt hlt)

theorem timeOK_fresh (budget : Nat) (send recv : List ChanCfg) : TimeOK (Conn.fromChannels budget send recv) :=
  ⟨fun _ _ _ _ h _ _ => (by cases h), fun _ _ h => (by cases h)⟩

/-- the table only shrinks and the clock does not go back -/
theorem timeOK_shrink {c c' : Conn} (ht : TimeOK c)
    (hsub : ∀ k v, SMap.find? c'.sent k = some v → SMap.find? c.sent k = some v) (hnow : c.now ≤ c'.now) : TimeOK c' :=
  ⟨fun k1 k2 v1 v2 h1 h2 hle => ht.1 k1 k2 v1 v2 (hsub _ _ h1) (hsub _ _ h2) hle,
   fun k v h => Nat.le_trans (ht.2 k v (hsub _ _ h)) hnow⟩

theorem timeOK_same {c c' : Conn} (ht : TimeOK c) (hs : c'.sent = c.sent) (hnow : c'.now = c.now) : TimeOK c' :=
  timeOK_shrink ht (fun k v h => by rw [hs] at h; exact h) (Nat.le_of_eq hnow.symm)

theorem recordSent_time (now : Nat) : ∀ (pk : List Packet) (m m' : SMap (Nat × SentInfo)),
    Conn.recordSent now pk m = .ok m' → ∀ x ∈ m', x ∈ m ∨ x.2.1 = now
  | [], m, m', h => by
    simp only [Conn.recordSent, Res.ok.injEq] at h; subst h
    exact fun x hx => Or.inl hx
  | p :: rest, m, m', h => by
    simp only [Conn.recordSent] at h
    cases hi : Conn.sentInfoOf p with
    | err e => exact e.elim
    | panic s => rw [hi] at h; cases h
    | ok info =>
      rw [hi] at h
      simp only [Res.bind_ok] at h
      intro x hx
      rcases recordSent_time now rest _ m' h x hx with hx | hx
      · rcases mem_insert hx with rfl | hx
        · exact Or.inr rfl
        · exact Or.inl hx
      · exact Or.inr hx

theorem setConnected_now (c : Conn) : c.setConnected.now = c.now := by
  unfold Conn.setConnected; split <;> rfl

theorem setConnecting_now (c : Conn) : c.setConnecting.now = c.now := by
  unfold Conn.setConnecting; split <;> rfl

/-- a flush stamps its new records with the current clock value and numbers them above every older record -/
theorem timeOK_flush {c c' : Conn} {bs : List Bytes} (hg : Good c) (ht : TimeOK c)
    (h : c.getPacketsToSend = .ok (c', bs)) : TimeOK c' := by
  have hnow : c'.now = c.now := (Live.flush_frame h).1
  -- every entry of the new table is an old one, or is stamped `now` and numbered from `packetSeq` up
  have hcls : ∀ k v, SMap.find? c'.sent k = some v →
      SMap.find? c.sent k = some v ∨ (v.1 = c.now ∧ c.packetSeq ≤ k) := by
    rcases System.getPacketsToSend_unfold h with ⟨-, rfl, -⟩ | ⟨hd, sr, su, pk0, seq0, avail, sent, hl, hrec, hser⟩
    · exact fun k v hf => Or.inl hf
    · have hsent : c'.sent = sent := by
        rcases hser with ⟨-, rfl⟩ | ⟨e, -, -, rfl⟩
        · rfl
        · exact (Conn.disconnectWith_same _ _).1.2.2.1
      obtain ⟨c1, pk1, seq1, e, -, -, -, -, -, -, -, -, -, hnew, -⟩ := Conn.getPacketsToSend_char hg.1 hg.2 hd
      have hsent1 : c'.sent = c1.sent := by
        rw [e] at h
        split at h
        · simp only [Res.ok.injEq, Prod.mk.injEq] at h; rw [← h.1]
        · simp only [Res.ok.injEq, Prod.mk.injEq] at h; rw [← h.1]; exact (Conn.disconnectWith_same _ _).1.2.2.1
        · cases h
      intro k v hf
      have hmem := find?_some_mem hf
      rcases hnew (k, v) (by rw [← hsent1]; exact hmem) with hold | ⟨p, -, hk, hge, -⟩
      · exact Or.inl (mem_find?_of_sorted hg.1.sentSorted hold)
      · rcases recordSent_time c.now _ _ _ hrec (k, v) (by rw [← hsent]; exact hmem) with hold | htime
        · exact Or.inl (mem_find?_of_sorted hg.1.sentSorted hold)
        · exact Or.inr ⟨htime, by have hk' : k = p.sequence := hk
                                  rw [hk']; exact hge⟩
  refine ⟨?_, ?_⟩
  · intro k1 k2 v1 v2 h1 h2 hle
    rcases hcls k1 v1 h1 with o1 | ⟨t1, g1⟩
    · rcases hcls k2 v2 h2 with o2 | ⟨t2, -⟩
      · exact ht.1 k1 k2 v1 v2 o1 o2 hle
      · rw [t2]; exact ht.2 k1 v1 o1
    · rcases hcls k2 v2 h2 with o2 | ⟨t2, -⟩
      · have := (hg.1.sentOK _ (find?_some_mem o2)).1
        simp only at this
        omega
      · rw [t1, t2]; exact Nat.le_refl _
  · intro k v hf
    rw [hnow]
    rcases hcls k v hf with o | ⟨t, -⟩
    · exact ht.2 k v o
    · rw [t]; exact Nat.le_refl _

theorem timeOK_apply {c c' : Conn} (hg : Good c) (ht : TimeOK c) {op : SL.ConnOp} (e : op.apply c = .ok c') :
    TimeOK c' := by
  cases op with
  | setConnected => cases e; exact timeOK_same ht (setConnected_same c).1.2.2.1 (setConnected_now c)
  | setConnecting => cases e; exact timeOK_same ht (setConnecting_same c).1.2.2.1 (setConnecting_now c)
  | disconnect => cases e; exact timeOK_same ht (c.disconnectWith_same _).1.2.2.1 (Live.dw_frame _ _).1
  | disconnectWith r => cases e; exact timeOK_same ht (c.disconnectWith_same _).1.2.2.1 (Live.dw_frame _ _).1
  | sendMessage ch m => exact timeOK_same ht (System.sendMessage_sent e).1 (Live.sendMessage_frame e).1
  | receiveMessage ch =>
    obtain ⟨m, hm⟩ := SL.Res.stateOf_ok e
    exact timeOK_same ht (Conn.receiveMessage_same hm).1.2.2.1 (Live.receiveMessage_frame hm).1
  | processPacket b =>
    exact timeOK_shrink ht (System.processPacket_sent hg.1 e).1 (Nat.le_of_eq (Live.processPacket_frame hg.1 e).1.symm)
  | getPacketsToSend =>
    obtain ⟨out, ho⟩ := SL.Res.stateOf_ok e
    exact timeOK_flush hg ht ho
  | update dt =>
    refine timeOK_shrink ht ?_ (by rw [(Live.update_frame e).1]; omega)
    intro k v hf
    rw [(Conn.update_spec e).2.2.2.2.2] at hf
    exact System.find?_of_sublist hg.1.sentSorted (List.dropWhile_sublist _) hf

theorem timeOK_run : ∀ (ops : List SL.ConnOp) (c c1 : Conn), Good c → TimeOK c → SL.Conn.runOps c ops = .ok c1 →
    Good c1 ∧ TimeOK c1
  | [], c, c1, hg, ht, e => by
    simp only [SL.Conn.runOps, Res.ok.injEq] at e
    subst e; exact ⟨hg, ht⟩
  | op :: rest, c, c1, hg, ht, e => by
    unfold SL.Conn.runOps at e
    cases h1 : op.apply c with
    | ok c2 =>
      rw [h1] at e
      exact timeOK_run rest c2 c1 (good_apply hg h1) (timeOK_apply hg ht h1) e
    | err x => exact x.elim
    | panic m => rw [h1] at e; cases e

/-- `update_prunes` with its hypotheses discharged by the invariants -/
theorem update_prunes_inv {c c' : Conn} {dt : Nat} (hg : Good c) (ht : TimeOK c) (hr : c.update dt = .ok c')
    {q t : Nat} {info : SentInfo} (hq : SMap.find? c.sent q = some (t, info))
    (hold : DISCARD_AFTER_NS ≤ c.now + dt - t) : SMap.find? c'.sent q = none :=
  update_prunes hg.1.sentSorted (ht.timeMono hg.1.sentSorted) hr hq hold

/-! ### ids are allocated increasingly: a released id is never reused -/

/-- whatever `send_message` newly stores on a channel gets an id above every id allocated before — in particular
    above every released id (`MsgDone`/`SliceDone` contain `id < nextId`) -/
theorem released_not_reused {c c' : Conn} {ch ch0 id : Nat} {m : Bytes} (hi : c.SendInv)
    {s s' : SendRel} (hs : SMap.find? c.sendRel ch = some s) (hid : id < s.nextId)
    (hr : c.sendMessage ch0 m = .ok c') (hs' : SMap.find? c'.sendRel ch = some s') :
    ∀ id', SMap.find? s.unacked id' = none → SMap.find? s'.unacked id' ≠ none → id < id' := by
  intro id' h1 h2
  rcases System.sendMessage_cases hr with ⟨-, s1, s1', hf, he, rfl⟩ | ⟨-, e⟩
  · dsimp only at hs'
    rw [SI.find?_insert] at hs'
    by_cases cc : ch0 = ch
    · subst cc
      rw [if_pos rfl] at hs'; cases hs'
      rw [hs] at hf; cases hf
      obtain ⟨-, -, -, -, -, hsame⟩ := SendRel.sendMessage_spec (hi.chans _ _ hs).1 he
      by_cases c2 : id' = s.nextId
      · omega
      · rw [hsame id' c2] at h2; exact absurd h1 h2
    · rw [if_neg cc, hs] at hs'; cases hs'; exact absurd h1 h2
  · rw [e, hs] at hs'; cases hs'; exact absurd h1 h2

/-! ## 5. never retransmitted -/

/-- **Generic headline.**  If `P` holds of channel `ch0` in a good state, then after ANY finite sequence of public
    operations it still holds, and every flush from there emits only `Q`-packets: `flushPk c1` are the packets whose
    encodings the flush hands to the transport, one for one (`map encO = map some`). -/
theorem quiet_after {P : SendRel → Prop} {Q : Packet → Prop} {ch0 : Nat} (hP : Stable P) (hQ : Quiet P ch0 Q)
    {c : Conn} (hg : Good c) (hh : Holds P c ch0) (ops : List SL.ConnOp) {c1 : Conn}
    (hrun : SL.Conn.runOps c ops = .ok c1) :
    Good c1 ∧ Holds P c1 ch0 ∧ ∀ c2 out, c1.getPacketsToSend = .ok (c2, out) →
      (∀ p ∈ System.flushPk c1, Q p) ∧ (System.flushPk c1).map System.encO = out.map some ∧
      ∀ b ∈ out, ∃ p ∈ System.flushPk c1, p.enc = .ok b ∧ Q p := by
  obtain ⟨hg1, hh1⟩ := run_inv hP ops c c1 hg hh hrun
  refine ⟨hg1, hh1, ?_⟩
  intro c2 out hf
  have hq := (holds_flush hP hQ hg1 hh1 hf).2
  have henc := (System.flush_facts hg1.1 hf).1
  refine ⟨hq, henc, ?_⟩
  intro b hb
  obtain ⟨p, hp, he⟩ := System.enc_mem henc hb
  exact ⟨p, hp, he, hq p hp⟩

/-! ### flushes in the middle of a run -/

theorem runOps_cons (c : Conn) (op : SL.ConnOp) (rest : List SL.ConnOp) :
    SL.Conn.runOps c (op :: rest) =
      (match op.apply c with
       | .ok c' => SL.Conn.runOps c' rest
       | .err e => .err e
       | .panic s => .panic s) := by
  cases h : op.apply c <;> simp only [SL.Conn.runOps, h]

theorem runOps_split : ∀ (a b : List SL.ConnOp) (c c2 : Conn), SL.Conn.runOps c (a ++ b) = .ok c2 →
    ∃ c1, SL.Conn.runOps c a = .ok c1 ∧ SL.Conn.runOps c1 b = .ok c2
  | [], _, c, _, h => ⟨c, rfl, h⟩
  | op :: a, b, c, c2, h => by
    rw [List.cons_append, runOps_cons] at h
    rw [runOps_cons]
    cases h1 : op.apply c with
    | ok c' =>
      rw [h1] at h
      exact runOps_split a b c' c2 h
    | err x => exact x.elim
    | panic m => rw [h1] at h; cases h

/-- a run that contains a flush: the state before the flush, and the flush itself -/
theorem runOps_flush_inside {pre post : List SL.ConnOp} {c cN : Conn}
    (h : SL.Conn.runOps c (pre ++ SL.ConnOp.getPacketsToSend :: post) = .ok cN) :
    ∃ c1 c2 out, SL.Conn.runOps c pre = .ok c1 ∧ c1.getPacketsToSend = .ok (c2, out) ∧ SL.Conn.runOps c2 post = .ok cN := by
  obtain ⟨c1, h1, h2⟩ := runOps_split pre _ c cN h
  rw [runOps_cons] at h2
  cases h3 : SL.ConnOp.apply c1 .getPacketsToSend with
  | ok c2 =>
    rw [h3] at h2
    obtain ⟨out, ho⟩ := SL.Res.stateOf_ok h3
    exact ⟨c1, c2, out, h1, ho, h2⟩
  | err x => exact x.elim
  | panic m => rw [h3] at h2; cases h2

end RenetVerif.AckFinal
