/-
  A MULTI-CLIENT system: ONE `Server` (Renet/Server.lean: a table id → Conn) and any number of remote client
  endpoints (each a `Conn`), one adversarial network per client, and the simulation that projects it, client by
  client and direction by direction, onto the two-endpoint system of `Lemmas/System.lean`.

  Part A  — the two-endpoint system with the extra endpoint-local operations that a BIDIRECTIONAL link needs
            (`VStep`): in `System.Sys` endpoint A only submits and endpoint B only obtains; on a real link the server
            side connection also calls `receive_message`, the client also calls `send_message`, and either side may
            be disconnected by its application.  Those operations touch none of the fields the system invariants
            (`Inv1`, `Inv2`, `InvR`, `InvU`) talk about, so the invariants (`Good` = the conclusion of
            `System.system_inv`) are preserved by every `VStep`.
  Part B  — `MSys`, `MOp`, `MSys.step`, `MSys.run`.
  Part C  — the local view `LV` of client `i` (its slot in the server table + its link) and the local action
            `MOp.act i`: `step_view` — the view of `i` after a step is a function of the view of `i` before and of
            the local action alone (operations addressed to other clients are `skip`).
  Part D  — `down` / `up`: the two `System.Sys` projections of a view; `sim`: every local action is a `VStep` of
            both projections (or starts a fresh session).
  Part E  — run level: `reach` (every untainted link of every reachable state is `Good` in both directions, its
            submission logs are sub-sequences of what the op list addressed to it), non-interference `run_agree`,
            the C01S conclusions read off `Good`, a counting lemma.
-/
import RenetVerif.Lemmas.System
import RenetVerif.Props.C11
namespace RenetVerif.MultiSystem
open RenetVerif C RenetVerif.System

/-! ## Part A: the bidirectional two-endpoint step relation -/

/-- the conclusion of `System.system_inv` as a predicate on states -/
def Good (cfg : Cfg) (s : Sys) : Prop :=
  ∃ pkA, Inv1 cfg s pkA ∧ (CountersOK cfg s → Inv2 cfg s pkA) ∧ InvR cfg s pkA ∧ InvU cfg s pkA

theorem good_init (cfg : Cfg) : Good cfg (Sys.init cfg) :=
  ⟨[], inv1_init cfg, fun _ => inv2_init cfg, invR_init cfg, invU_init cfg⟩

theorem good_step {cfg : Cfg} {s s' : Sys} {op : SysOp} (h : Good cfg s) (hs : s.step op = some s') : Good cfg s' := by
  obtain ⟨pkA, h1, h2, h3, h4⟩ := h
  exact ⟨nextPk s op pkA, inv1_step h1 hs, fun hc => inv2_step h1 (h2 (counters_step h1 hs hc)) hs hc,
    invR_step h1 h3 hs, invU_step h1 h2 h4 hs⟩

theorem not_disc_of_keeps {c c' : Conn} (hk : SL.Conn.Keeps c c') (h : c'.isDisconnected = false) :
    c.isDisconnected = false := by
  cases hd : c.isDisconnected with
  | false => rfl
  | true =>
    obtain ⟨r, hr⟩ := (SL.Conn.isDisconnected_iff c).mp hd
    rw [SL.Conn.isDisconnected_of_status (hk r hr)] at h
    cases h

/-- endpoint A changes in a way that leaves its sending side alone -/
theorem good_frameA {cfg : Cfg} {s : Sys} {a' : Conn} (hg : Good cfg s)
    (hr : C08.Reach cfg.budget cfg.send cfg.recv a')
    (e1 : a'.sendRel = s.a.sendRel) (e2 : a'.sendUnrel = s.a.sendUnrel) (e3 : a'.sent = s.a.sent)
    (e4 : a'.packetSeq = s.a.packetSeq) (e5 : a'.isDisconnected = false → s.a.isDisconnected = false) :
    Good cfg { s with a := a' } := by
  obtain ⟨pkA, h1, h2, h3, Lg, hA, hB⟩ := hg
  have hc : CountersOK cfg { s with a := a' } → CountersOK cfg s := fun hc =>
    ⟨hc.chan, by have := hc.seq; dsimp only at this; rw [e4] at this; exact this, hc.ids, hc.lens, hc.lensU⟩
  refine ⟨pkA, ⟨hr, h1.reachB, ?_, h1.encA, ⟨h1.seqA.1, ?_⟩, h1.genA, h1.delivB⟩,
    fun c => ⟨(h2 (hc c)).wfA, (h2 (hc c)).recvB, (h2 (hc c)).concl⟩, ⟨?_, h3.ackB, h3.ackOutB, ?_⟩,
    Lg, ⟨?_, hA.genU⟩, fun c => ⟨(hB (hc c)).recvBU, (hB (hc c)).conclU⟩⟩
  · intro ch sA hf
    dsimp only at hf; rw [e1] at hf
    exact h1.chanA ch sA hf
  · intro p hp
    dsimp only; rw [e4]; exact h1.seqA.2 p hp
  · intro hd seq t info hf
    dsimp only at hd hf; rw [e3] at hf
    exact h3.sentA (e5 hd) seq t info hf
  · intro ch sA hf
    dsimp only at hf; rw [e1] at hf
    exact h3.relA ch sA hf
  · intro ch sU hf
    dsimp only at hf; rw [e2] at hf
    exact hA.chanU ch sU hf

/-- endpoint B changes in a way that leaves its receiving side alone -/
theorem good_frameB {cfg : Cfg} {s : Sys} {b' : Conn} (hg : Good cfg s)
    (hr : C08.Reach cfg.budget cfg.recv cfg.send b')
    (e1 : b'.recvRel = s.b.recvRel) (e2 : b'.recvUnrel = s.b.recvUnrel) (e3 : b'.pendingAcks = s.b.pendingAcks)
    (e5 : b'.isDisconnected = false → s.b.isDisconnected = false) :
    Good cfg { s with b := b' } := by
  obtain ⟨pkA, h1, h2, h3, Lg, hA, hB⟩ := hg
  have hc : CountersOK cfg { s with b := b' } → CountersOK cfg s := fun hc => ⟨hc.chan, hc.seq, hc.ids, hc.lens, hc.lensU⟩
  refine ⟨pkA, ⟨h1.reachA, hr, h1.chanA, h1.encA, h1.seqA, h1.genA, h1.delivB⟩,
    fun c => ⟨(h2 (hc c)).wfA, ?_, (h2 (hc c)).concl⟩, ⟨h3.sentA, ?_, h3.ackOutB, h3.relA⟩,
    Lg, ⟨hA.chanU, hA.genU⟩, fun c => ⟨?_, (hB (hc c)).conclU⟩⟩
  · intro hd
    dsimp only at hd ⊢
    rw [e1]
    exact (h2 (hc c)).recvB (e5 hd)
  · intro x hx
    dsimp only at hx ⊢; rw [e3] at hx
    exact h3.ackB x hx
  · intro hd ch r hf hk
    dsimp only at hd hf ⊢; rw [e2] at hf
    exact (hB (hc c)).recvBU (e5 hd) ch r hf hk

theorem setConnected_keeps' (c : Conn) (h : c.setConnected.isDisconnected = false) : c.isDisconnected = false :=
  not_disc_of_keeps (SL.Conn.setConnected_keeps c) h

theorem setConnected_fields (c : Conn) :
    c.setConnected.sendRel = c.sendRel ∧ c.setConnected.sendUnrel = c.sendUnrel ∧ c.setConnected.sent = c.sent ∧
    c.setConnected.packetSeq = c.packetSeq ∧ c.setConnected.recvRel = c.recvRel ∧
    c.setConnected.recvUnrel = c.recvUnrel ∧ c.setConnected.pendingAcks = c.pendingAcks := by
  unfold Conn.setConnected
  split <;> exact ⟨rfl, rfl, rfl, rfl, rfl, rfl, rfl⟩

/-- the fresh session: both endpoints built from the configuration and marked connected
    (`RenetServer::add_connection` / the transport's `set_connected` on the client) -/
def Sys.fresh (cfg : Cfg) : Sys :=
  { Sys.init cfg with a := (Conn.fromChannels cfg.budget cfg.send cfg.recv).setConnected
                      b := (Conn.fromChannels cfg.budget cfg.recv cfg.send).setConnected }

/-- One step of a bidirectional link, seen from one direction (A = the submitting side of that direction).
    `op`: an operation of `System.Sys`.  `recvA`, `sendB`: the traffic of the OTHER direction at the two endpoints.
    `discA`, `discB`: an application-level disconnect.  `fresh`: a new session replaces the link.  `stutter`: an
    operation that concerns another client. -/
inductive VStep (cfg : Cfg) : Sys → Sys → Prop
  | stutter (s : Sys) : VStep cfg s s
  | op {s s' : Sys} (o : SysOp) : s.step o = some s' → VStep cfg s s'
  | recvA {s : Sys} {a' : Conn} {ch : Nat} {mo : Option Bytes} :
      s.a.receiveMessage ch = .ok (a', mo) → VStep cfg s { s with a := a' }
  | sendB {s : Sys} {b' : Conn} {ch : Nat} {m : Bytes} : s.b.sendMessage ch m = .ok b' → VStep cfg s { s with b := b' }
  | discA (s : Sys) (r : Reason) : VStep cfg s { s with a := s.a.disconnectWith r }
  | discB (s : Sys) (r : Reason) : VStep cfg s { s with b := s.b.disconnectWith r }
  | fresh (s : Sys) : VStep cfg s (Sys.fresh cfg)

theorem good_fresh (cfg : Cfg) : Good cfg (Sys.fresh cfg) := by
  have h0 := good_init cfg
  have ha := setConnected_fields (Sys.init cfg).a
  have h1 : Good cfg { Sys.init cfg with a := (Sys.init cfg).a.setConnected } :=
    good_frameA h0 (.connected .init) ha.1 ha.2.1 ha.2.2.1 ha.2.2.2.1 (setConnected_keeps' _)
  have hb := setConnected_fields (Sys.init cfg).b
  exact good_frameB (s := { Sys.init cfg with a := (Sys.init cfg).a.setConnected }) h1 (.connected .init)
    hb.2.2.2.2.1 hb.2.2.2.2.2.1 hb.2.2.2.2.2.2 (setConnected_keeps' _)

theorem good_vstep {cfg : Cfg} {s s' : Sys} (hg : Good cfg s) (hs : VStep cfg s s') : Good cfg s' := by
  cases hs with
  | stutter => exact hg
  | op o h => exact good_step hg h
  | recvA h =>
    obtain ⟨-, ⟨f1, f2, f3, f4⟩, -, f6, -⟩ := SL.Conn.receiveMessage_frame h
    obtain ⟨pkA, h1, -⟩ := id hg
    exact good_frameA hg (.receiveMessage h1.reachA h) f1 f2 f3 f4
      (not_disc_of_keeps (SL.Conn.Keeps.of_status_eq f6))
  | sendB h =>
    obtain ⟨-, f1, f2, -, f4, -, -⟩ := SL.Conn.sendMessage_frame h
    obtain ⟨pkA, h1, -⟩ := id hg
    exact good_frameB hg (.sendMessage h1.reachB h) f1 f2 f4 (not_disc_of_keeps (SL.Conn.sendMessage_keeps h))
  | discA r =>
    obtain ⟨pkA, h1, -⟩ := id hg
    exact good_frameA hg (.disconnect h1.reachA) (by simp) (by simp) (by simp) (by simp)
      (not_disc_of_keeps (SL.Conn.disconnectWith_keeps _ r))
  | discB r =>
    obtain ⟨pkA, h1, -⟩ := id hg
    exact good_frameB hg (.disconnect h1.reachB) (by simp) (by simp) (by simp)
      (not_disc_of_keeps (SL.Conn.disconnectWith_keeps _ r))
  | fresh => exact good_fresh cfg

/-! ## Part B: the multi-client system -/

/-- the configuration shared by the server and every client -/
structure Params where
  budget : Nat
  sCh : List ChanCfg     -- server → client
  cCh : List ChanCfg     -- client → server

/-- the two-endpoint configurations of the two directions of a link -/
def Params.down (P : Params) : Cfg := ⟨P.budget, P.sCh, P.cCh⟩
def Params.up (P : Params) : Cfg := ⟨P.budget, P.cCh, P.sCh⟩

def paramsOf (sv : Server) : Params := ⟨sv.budget, sv.serverCh, sv.clientCh⟩

/-- Everything that belongs to ONE client id outside the server table: the remote endpoint, the two emission
    histories of its private network, and the ghost logs.  `last` is a ghost copy of the server-side connection taken
    when `remove_connection` drops it from the table (so that the link can still be looked at afterwards);
    `tainted` records that hostile bytes were handed to the server under this id. -/
structure Link where
  cl : Conn
  last : Conn
  /-- every datagram the server emitted for this id / this client emitted, in emission order -/
  outS : List Bytes
  outC : List Bytes
  /-- ghost, per channel: messages the server application addressed to this id that the reliable channel accepted /
      that were passed to the unreliable channel; messages this client's application obtained -/
  subS : Nat → List Bytes
  subSU : Nat → List Bytes
  obtC : Nat → List Bytes
  /-- ghost, per channel: the same in the other direction (client application submits, server application obtains
      under this id) -/
  subC : Nat → List Bytes
  subCU : Nat → List Bytes
  obtS : Nat → List Bytes
  /-- ghost: indices into `outS` handed to the client, indices into `outC` handed to the server -/
  delivC : List Nat
  delivS : List Nat
  tainted : Bool

def Link.fresh (P : Params) : Link :=
  { cl := (Conn.fromChannels P.budget P.cCh P.sCh).setConnected
    last := (Conn.fromChannels P.budget P.sCh P.cCh).setConnected
    outS := [], outC := [], subS := fun _ => [], subSU := fun _ => [], obtC := fun _ => []
    subC := fun _ => [], subCU := fun _ => [], obtS := fun _ => [], delivC := [], delivS := [], tainted := false }

/-- the server application addressed `m` to this link on channel `ch`; `c`, `c'`: the table entry before / after -/
def Link.logS (l : Link) (c c' : Conn) (ch : Nat) (m : Bytes) : Link :=
  { l with subS := if accepted c c' ch then push l.subS ch m else l.subS
           subSU := if offeredU c ch then push l.subSU ch m else l.subSU }

def Link.logS? (c c' : Option Conn) (ch : Nat) (m : Bytes) (l : Link) : Link :=
  match c, c' with
  | some c, some c' => l.logS c c' ch m
  | _, _ => l

def Link.gotS (l : Link) (ch : Nat) : Option Bytes → Link
  | some m => { l with obtS := push l.obtS ch m }
  | none => l

def Link.gotC (l : Link) (cl' : Conn) (ch : Nat) : Option Bytes → Link
  | some m => { l with cl := cl', obtC := push l.obtC ch m }
  | none => { l with cl := cl' }

def Link.logC (l : Link) (cl' : Conn) (ch : Nat) (m : Bytes) : Link :=
  { l with cl := cl'
           subC := if accepted l.cl cl' ch then push l.subC ch m else l.subC
           subCU := if offeredU l.cl ch then push l.subCU ch m else l.subCU }

structure MSys where
  server : Server
  links : Nat → Option Link

def upd (f : Nat → Option Link) (id : Nat) (v : Option Link) : Nat → Option Link :=
  fun j => if j = id then v else f j

def MSys.init (P : Params) : MSys := ⟨Server.new P.budget P.sCh P.cCh, fun _ => none⟩

inductive MOp where
  /-- `add_connection(id)` on the server + a new remote endpoint: a fresh session for `id` (no-op if `id` is in the table) -/
  | addClient (id : Nat)
  /-- `remove_connection(id)` -/
  | remove (id : Nat)
  /-- `RenetServer::disconnect(id)` -/
  | srvDisconnect (id : Nat)
  /-- `RenetClient::disconnect()` on the remote endpoint -/
  | cliDisconnect (id : Nat)
  | srvSend (id ch : Nat) (m : Bytes)
  | broadcast (ch : Nat) (m : Bytes)
  | broadcastExcept (ex ch : Nat) (m : Bytes)
  | srvRecv (id ch : Nat)
  | cliSend (id ch : Nat) (m : Bytes)
  | cliRecv (id ch : Nat)
  | srvUpdate (dt : Nat)
  | cliUpdate (id dt : Nat)
  /-- `get_packets_to_send(id)` on the server: appended to the server → `id` emission history -/
  | srvFlush (id : Nat)
  | cliFlush (id : Nat)
  /-- the network of `id` hands the `k`-th datagram the server EVER emitted for `id` to client `id` -/
  | deliverToCli (id k : Nat)
  /-- the network of `id` hands the `k`-th datagram client `id` EVER emitted to the server, as coming from `id` -/
  | deliverToSrv (id k : Nat)
  /-- arbitrary bytes handed to the server as coming from `id` -/
  | hostile (id : Nat) (bytes : Bytes)
  deriving Repr, DecidableEq

def conn? (sv : Server) (id : Nat) : Option Conn := SMap.find? sv.conns id

/-- one operation; `none` = a model function panicked or a datagram index is out of range -/
def MSys.step (m : MSys) : MOp → Option MSys
  | .addClient id =>
    if SMap.contains m.server.conns id then some m
    else some ⟨m.server.addConnection id, upd m.links id (some (Link.fresh (paramsOf m.server)))⟩
  | .remove id =>
    some ⟨m.server.removeConnection id,
      match conn? m.server id with
      | some c => upd m.links id ((m.links id).map (fun l => { l with last := c }))
      | none => m.links⟩
  | .srvDisconnect id => some ⟨m.server.disconnect id, m.links⟩
  | .cliDisconnect id =>
    some ⟨m.server, upd m.links id ((m.links id).map (fun l => { l with cl := l.cl.disconnectWith .byClient }))⟩
  | .srvSend id ch x =>
    match m.server.sendMessage id ch x with
    | .ok sv' => some ⟨sv', upd m.links id ((m.links id).map (Link.logS? (conn? m.server id) (conn? sv' id) ch x))⟩
    | _ => none
  | .broadcast ch x =>
    match m.server.broadcast ch x with
    | .ok sv' => some ⟨sv', fun j => (m.links j).map (Link.logS? (conn? m.server j) (conn? sv' j) ch x)⟩
    | _ => none
  | .broadcastExcept ex ch x =>
    match m.server.broadcastExcept ex ch x with
    | .ok sv' => some ⟨sv', fun j => if j = ex then m.links j else
                        (m.links j).map (Link.logS? (conn? m.server j) (conn? sv' j) ch x)⟩
    | _ => none
  | .srvRecv id ch =>
    match m.server.receiveMessage id ch with
    | .ok (sv', mo) => some ⟨sv', upd m.links id ((m.links id).map (fun l => l.gotS ch mo))⟩
    | _ => none
  | .cliSend id ch x =>
    match m.links id with
    | none => some m
    | some l =>
      match l.cl.sendMessage ch x with
      | .ok cl' => some ⟨m.server, upd m.links id (some (l.logC cl' ch x))⟩
      | _ => none
  | .cliRecv id ch =>
    match m.links id with
    | none => some m
    | some l =>
      match l.cl.receiveMessage ch with
      | .ok (cl', mo) => some ⟨m.server, upd m.links id (some (l.gotC cl' ch mo))⟩
      | _ => none
  | .srvUpdate dt =>
    match m.server.update dt with
    | .ok sv' => some ⟨sv', m.links⟩
    | _ => none
  | .cliUpdate id dt =>
    match m.links id with
    | none => some m
    | some l =>
      match l.cl.update dt with
      | .ok cl' => some ⟨m.server, upd m.links id (some { l with cl := cl' })⟩
      | _ => none
  | .srvFlush id =>
    match m.server.getPacketsToSend id with
    | .ok (sv', some ps) => some ⟨sv', upd m.links id ((m.links id).map (fun l => { l with outS := l.outS ++ ps }))⟩
    | .ok (sv', none) => some ⟨sv', m.links⟩
    | _ => none
  | .cliFlush id =>
    match m.links id with
    | none => some m
    | some l =>
      match l.cl.getPacketsToSend with
      | .ok (cl', ps) => some ⟨m.server, upd m.links id (some { l with cl := cl', outC := l.outC ++ ps })⟩
      | _ => none
  | .deliverToCli id k =>
    match m.links id with
    | none => some m
    | some l =>
      match l.outS[k]? with
      | none => none
      | some bytes =>
        match l.cl.processPacket bytes with
        | .ok cl' => some ⟨m.server, upd m.links id (some { l with cl := cl', delivC := l.delivC ++ [k] })⟩
        | _ => none
  | .deliverToSrv id k =>
    match m.links id with
    | none => some m
    | some l =>
      match l.outC[k]? with
      | none => none
      | some bytes =>
        match m.server.processPacketFrom bytes id with
        | .ok (sv', true) => some ⟨sv', upd m.links id (some { l with delivS := l.delivS ++ [k] })⟩
        | .ok (sv', false) => some ⟨sv', m.links⟩
        | _ => none
  | .hostile id bytes =>
    match m.server.processPacketFrom bytes id with
    | .ok (sv', _) => some ⟨sv', upd m.links id ((m.links id).map (fun l => { l with tainted := true }))⟩
    | _ => none

def MSys.run (m : MSys) : List MOp → Option MSys
  | [] => some m
  | op :: ops =>
    match m.step op with
    | some m' => m'.run ops
    | none => none

theorem MSys.run_append (m : MSys) : ∀ (a b : List MOp), m.run (a ++ b) = (m.run a).bind (fun m' => m'.run b) := by
  intro a
  induction a generalizing m with
  | nil => intro b; rfl
  | cons op a ih =>
    intro b
    simp only [List.cons_append, MSys.run]
    cases m.step op with
    | none => rfl
    | some m' => exact ih m' b

/-! ## Part C: the local view of one client and its local action -/

/-- what the whole system holds about client `i`: its slot in the server table and its link -/
structure LV where
  conn : Option Conn
  link : Option Link

def MSys.view (m : MSys) (i : Nat) : LV := ⟨conn? m.server i, m.links i⟩

/-- what an operation means for ONE client -/
inductive LAct where
  | skip
  | reset | remove | sDisc | cDisc
  | sSend (ch : Nat) (m : Bytes) | sRecv (ch : Nat) | cSend (ch : Nat) (m : Bytes) | cRecv (ch : Nat)
  | sUpd (dt : Nat) | cUpd (dt : Nat) | sFlush | cFlush
  | toCli (k : Nat) | toSrv (k : Nat) | hostile (bytes : Bytes)
  deriving Repr, DecidableEq

/-- the local action of `op` for client `i`: operations addressed to another client are `skip`; a broadcast is a
    `send_message` for everybody (but the excluded id); the server's `update` is an update of every slot -/
def MOp.act (i : Nat) : MOp → LAct
  | .addClient id => if id = i then .reset else .skip
  | .remove id => if id = i then .remove else .skip
  | .srvDisconnect id => if id = i then .sDisc else .skip
  | .cliDisconnect id => if id = i then .cDisc else .skip
  | .srvSend id ch m => if id = i then .sSend ch m else .skip
  | .broadcast ch m => .sSend ch m
  | .broadcastExcept ex ch m => if i = ex then .skip else .sSend ch m
  | .srvRecv id ch => if id = i then .sRecv ch else .skip
  | .cliSend id ch m => if id = i then .cSend ch m else .skip
  | .cliRecv id ch => if id = i then .cRecv ch else .skip
  | .srvUpdate dt => .sUpd dt
  | .cliUpdate id dt => if id = i then .cUpd dt else .skip
  | .srvFlush id => if id = i then .sFlush else .skip
  | .cliFlush id => if id = i then .cFlush else .skip
  | .deliverToCli id k => if id = i then .toCli k else .skip
  | .deliverToSrv id k => if id = i then .toSrv k else .skip
  | .hostile id b => if id = i then .hostile b else .skip

/-- the local action as a (partial) function on the view — nothing else of the system is read or written -/
def LV.apply (P : Params) (lv : LV) : LAct → Option LV
  | .skip => some lv
  | .reset =>
    match lv.conn with
    | some _ => some lv
    | none => some ⟨some (Conn.fromChannels P.budget P.sCh P.cCh).setConnected, some (Link.fresh P)⟩
  | .remove =>
    match lv.conn with
    | none => some lv
    | some c => some ⟨none, lv.link.map (fun l => { l with last := c })⟩
  | .sDisc => some ⟨lv.conn.map (·.disconnectWith .byServer), lv.link⟩
  | .cDisc => some ⟨lv.conn, lv.link.map (fun l => { l with cl := l.cl.disconnectWith .byClient })⟩
  | .sSend ch x =>
    match lv.conn with
    | none => some lv
    | some c =>
      match c.sendMessage ch x with
      | .ok c' => some ⟨some c', lv.link.map (fun l => l.logS c c' ch x)⟩
      | _ => none
  | .sRecv ch =>
    match lv.conn with
    | none => some lv
    | some c =>
      match c.receiveMessage ch with
      | .ok (c', mo) => some ⟨some c', lv.link.map (fun l => l.gotS ch mo)⟩
      | _ => none
  | .cSend ch x =>
    match lv.link with
    | none => some lv
    | some l =>
      match l.cl.sendMessage ch x with
      | .ok cl' => some ⟨lv.conn, some (l.logC cl' ch x)⟩
      | _ => none
  | .cRecv ch =>
    match lv.link with
    | none => some lv
    | some l =>
      match l.cl.receiveMessage ch with
      | .ok (cl', mo) => some ⟨lv.conn, some (l.gotC cl' ch mo)⟩
      | _ => none
  | .sUpd dt =>
    match lv.conn with
    | none => some lv
    | some c =>
      match c.update dt with
      | .ok c' => some ⟨some c', lv.link⟩
      | _ => none
  | .cUpd dt =>
    match lv.link with
    | none => some lv
    | some l =>
      match l.cl.update dt with
      | .ok cl' => some ⟨lv.conn, some { l with cl := cl' }⟩
      | _ => none
  | .sFlush =>
    match lv.conn with
    | none => some lv
    | some c =>
      match c.getPacketsToSend with
      | .ok (c', ps) => some ⟨some c', lv.link.map (fun l => { l with outS := l.outS ++ ps })⟩
      | _ => none
  | .cFlush =>
    match lv.link with
    | none => some lv
    | some l =>
      match l.cl.getPacketsToSend with
      | .ok (cl', ps) => some ⟨lv.conn, some { l with cl := cl', outC := l.outC ++ ps }⟩
      | _ => none
  | .toCli k =>
    match lv.link with
    | none => some lv
    | some l =>
      match l.outS[k]? with
      | none => none
      | some bytes =>
        match l.cl.processPacket bytes with
        | .ok cl' => some ⟨lv.conn, some { l with cl := cl', delivC := l.delivC ++ [k] }⟩
        | _ => none
  | .toSrv k =>
    match lv.link with
    | none => some lv
    | some l =>
      match l.outC[k]? with
      | none => none
      | some bytes =>
        match lv.conn with
        | none => some lv
        | some c =>
          match c.processPacket bytes with
          | .ok c' => some ⟨some c', some { l with delivS := l.delivS ++ [k] }⟩
          | _ => none
  | .hostile bytes =>
    match lv.conn with
    | none => some ⟨none, lv.link.map (fun l => { l with tainted := true })⟩
    | some c =>
      match c.processPacket bytes with
      | .ok c' => some ⟨some c', lv.link.map (fun l => { l with tainted := true })⟩
      | _ => none

theorem upd_same (f : Nat → Option Link) (id : Nat) (v : Option Link) : upd f id v id = v := by simp [upd]
theorem upd_ne (f : Nat → Option Link) {id j : Nat} (v : Option Link) (h : j ≠ id) : upd f id v j = f j := by simp [upd, h]

theorem map_self (o : Option Link) : o.map (fun l => l) = o := by cases o <;> rfl

/-- well-formedness of the global state: the table is sorted (it is a `HashMap` in the Rust code; the model's
    `erase` relies on unique keys) and the configuration is `P` -/
structure MSys.WF (P : Params) (m : MSys) : Prop where
  sorted : SL.SMap.Sorted m.server.conns
  params : paramsOf m.server = P

theorem wf_init (P : Params) : (MSys.init P).WF P := ⟨SL.SMap.sorted_nil, rfl⟩

theorem params_of_addressed {i : Nat} {s s' : Server} (h : SL.Server.Addressed i s s') : paramsOf s' = paramsOf s := by
  unfold paramsOf; rw [h.budget, h.serverCh, h.clientCh]

theorem broadcast_params {s s' : Server} {ch : Nat} {m : Bytes} (h : s.broadcast ch m = .ok s') : paramsOf s' = paramsOf s := by
  unfold Server.broadcast at h
  cases hm : Server.mapConnsM (fun _ c => c.sendMessage ch m) s.conns with
  | err e => simp [hm] at h
  | panic p => simp [hm] at h
  | ok cs => simp [hm] at h; subst h; rfl

theorem broadcastExcept_params {s s' : Server} {ex ch : Nat} {m : Bytes} (h : s.broadcastExcept ex ch m = .ok s') :
    paramsOf s' = paramsOf s := by
  unfold Server.broadcastExcept at h
  cases hm : Server.mapConnsM (fun k c => if k = ex then .ok c else c.sendMessage ch m) s.conns with
  | err e => simp [hm] at h
  | panic p => simp [hm] at h
  | ok cs => simp [hm] at h; subst h; rfl

theorem update_params {s s' : Server} {dt : Nat} (h : s.update dt = .ok s') : paramsOf s' = paramsOf s := by
  unfold Server.update at h
  cases hm : Server.mapConnsM (fun _ c => c.update dt) s.conns with
  | err e => simp [hm] at h
  | panic p => simp [hm] at h
  | ok cs => simp [hm] at h; subst h; rfl

theorem step_wf {P : Params} {m m' : MSys} {op : MOp} (hw : m.WF P) (hs : m.step op = some m') : m'.WF P := by
  obtain ⟨hso, hp⟩ := hw
  cases op with
  | addClient id =>
    simp only [MSys.step] at hs
    split at hs
    · cases hs; exact ⟨hso, hp⟩
    · rename_i hc
      cases hs
      refine ⟨?_, ?_⟩
      · show SL.SMap.Sorted (m.server.addConnection id).conns
        unfold Server.addConnection
        rw [if_neg hc]
        exact SL.SMap.sorted_insert _ _ _ hso
      · show paramsOf (m.server.addConnection id) = P
        unfold Server.addConnection
        rw [if_neg hc]
        exact hp
  | remove id =>
    simp only [MSys.step, Option.some.injEq] at hs
    subst hs
    refine ⟨?_, ?_⟩
    · show SL.SMap.Sorted (m.server.removeConnection id).conns
      unfold Server.removeConnection
      split
      · exact hso
      · exact SL.SMap.sorted_erase _ _ hso
    · show paramsOf (m.server.removeConnection id) = P
      unfold Server.removeConnection
      split
      · exact hp
      · exact hp
  | srvDisconnect id =>
    simp only [MSys.step, Option.some.injEq] at hs
    subst hs
    obtain ⟨a, q, -⟩ := SL.Server.disconnect_spec m.server id
    exact ⟨q.sorted hso, (params_of_addressed a).trans hp⟩
  | cliDisconnect id =>
    simp only [MSys.step, Option.some.injEq] at hs
    subst hs
    exact ⟨hso, hp⟩
  | srvSend id ch x =>
    simp only [MSys.step] at hs
    split at hs
    · rename_i sv' h
      cases hs
      obtain ⟨a, q, -⟩ := SL.Server.sendMessage_spec h
      exact ⟨q.sorted hso, (params_of_addressed a).trans hp⟩
    · cases hs
  | broadcast ch x =>
    simp only [MSys.step] at hs
    split at hs
    · rename_i sv' h
      cases hs
      obtain ⟨-, q, -⟩ := SL.Server.broadcast_spec h
      exact ⟨q.sorted hso, (broadcast_params h).trans hp⟩
    · cases hs
  | broadcastExcept ex ch x =>
    simp only [MSys.step] at hs
    split at hs
    · rename_i sv' h
      cases hs
      obtain ⟨-, q, -⟩ := SL.Server.broadcastExcept_spec h
      exact ⟨q.sorted hso, (broadcastExcept_params h).trans hp⟩
    · cases hs
  | srvRecv id ch =>
    simp only [MSys.step] at hs
    split at hs
    · rename_i sv' mo h
      cases hs
      obtain ⟨a, q, -⟩ := SL.Server.receiveMessage_spec h
      exact ⟨q.sorted hso, (params_of_addressed a).trans hp⟩
    · cases hs
  | cliSend id ch x =>
    simp only [MSys.step] at hs
    split at hs
    · cases hs; exact ⟨hso, hp⟩
    · split at hs
      · cases hs; exact ⟨hso, hp⟩
      · cases hs
  | cliRecv id ch =>
    simp only [MSys.step] at hs
    split at hs
    · cases hs; exact ⟨hso, hp⟩
    · split at hs
      · cases hs; exact ⟨hso, hp⟩
      · cases hs
  | srvUpdate dt =>
    simp only [MSys.step] at hs
    split at hs
    · rename_i sv' h
      cases hs
      obtain ⟨-, q, -⟩ := SL.Server.update_spec h
      exact ⟨q.sorted hso, (update_params h).trans hp⟩
    · cases hs
  | cliUpdate id dt =>
    simp only [MSys.step] at hs
    split at hs
    · cases hs; exact ⟨hso, hp⟩
    · split at hs
      · cases hs; exact ⟨hso, hp⟩
      · cases hs
  | srvFlush id =>
    simp only [MSys.step] at hs
    split at hs
    · rename_i sv' ps h
      cases hs
      obtain ⟨a, q, -⟩ := SL.Server.getPacketsToSend_spec h
      exact ⟨q.sorted hso, (params_of_addressed a).trans hp⟩
    · rename_i sv' h
      cases hs
      obtain ⟨a, q, -⟩ := SL.Server.getPacketsToSend_spec h
      exact ⟨q.sorted hso, (params_of_addressed a).trans hp⟩
    · cases hs
  | cliFlush id =>
    simp only [MSys.step] at hs
    split at hs
    · cases hs; exact ⟨hso, hp⟩
    · split at hs
      · cases hs; exact ⟨hso, hp⟩
      · cases hs
  | deliverToCli id k =>
    simp only [MSys.step] at hs
    split at hs
    · cases hs; exact ⟨hso, hp⟩
    · split at hs
      · cases hs
      · split at hs
        · cases hs; exact ⟨hso, hp⟩
        · cases hs
  | deliverToSrv id k =>
    simp only [MSys.step] at hs
    split at hs
    · cases hs; exact ⟨hso, hp⟩
    · split at hs
      · cases hs
      · split at hs
        · rename_i sv' h
          cases hs
          obtain ⟨a, q, -⟩ := SL.Server.processPacketFrom_spec h
          exact ⟨q.sorted hso, (params_of_addressed a).trans hp⟩
        · rename_i sv' h
          cases hs
          obtain ⟨a, q, -⟩ := SL.Server.processPacketFrom_spec h
          exact ⟨q.sorted hso, (params_of_addressed a).trans hp⟩
        · cases hs
  | hostile id bytes =>
    simp only [MSys.step] at hs
    split at hs
    · rename_i sv' o h
      cases hs
      obtain ⟨a, q, -⟩ := SL.Server.processPacketFrom_spec h
      exact ⟨q.sorted hso, (params_of_addressed a).trans hp⟩
    · cases hs

theorem view_eq {m m' : MSys} {i : Nat} (h1 : conn? m'.server i = conn? m.server i) (h2 : m'.links i = m.links i) :
    m'.view i = m.view i := by
  unfold MSys.view; rw [h1, h2]

/-- **Locality of every step.**  The view of client `i` after a step is the local action of that step applied to the
    view of `i` before — it does not depend on any other client's slot, link, network or ghost state. -/
theorem step_view {P : Params} {m m' : MSys} {op : MOp} (hw : m.WF P) (hs : m.step op = some m') (i : Nat) :
    (m.view i).apply P (op.act i) = some (m'.view i) := by
  obtain ⟨hso, hp⟩ := hw
  cases op with
  | addClient id =>
    simp only [MSys.step] at hs
    split at hs
    · rename_i hc
      cases hs
      simp only [MOp.act]
      split
      · rename_i e
        subst e
        have : SMap.find? m.server.conns id ≠ none := (SL.SMap.contains_iff _ _).mp hc
        cases hf : SMap.find? m.server.conns id with
        | none => exact absurd hf this
        | some c => simp only [LV.apply, MSys.view, conn?, hf]
      · rfl
    · rename_i hc
      cases hs
      have hn : SMap.find? m.server.conns id = none := (SL.SMap.contains_eq_false_iff _ _).mp (by simpa using hc)
      have hadd : (m.server.addConnection id).conns = SMap.insert m.server.conns id m.server.newConn.setConnected := by
        unfold Server.addConnection; rw [if_neg hc]
      simp only [MOp.act]
      split
      · rename_i e
        subst e
        simp only [LV.apply, MSys.view, conn?, hn, hadd, SL.SMap.find?_insert_self, upd_same]
        rw [← hp]; rfl
      · rename_i e
        have e' : i ≠ id := fun h => e h.symm
        simp only [LV.apply, MSys.view, conn?, hadd, SL.SMap.find?_insert_ne _ _ _ _ e', upd_ne _ _ e']
  | remove id =>
    simp only [MSys.step, Option.some.injEq] at hs
    subst hs
    simp only [MOp.act]
    split
    · rename_i e
      subst e
      cases hf : SMap.find? m.server.conns id with
      | none =>
        have : m.server.removeConnection id = m.server := by unfold Server.removeConnection; rw [hf]
        simp only [LV.apply, MSys.view, conn?, hf, this]
      | some c =>
        have : (m.server.removeConnection id).conns = SMap.erase m.server.conns id := by
          unfold Server.removeConnection; rw [hf]
        simp only [LV.apply, MSys.view, conn?, hf, this, SL.SMap.find?_erase_self _ _ hso, upd_same]
    · rename_i e
      have e' : i ≠ id := fun h => e h.symm
      have hc : conn? (m.server.removeConnection id) i = conn? m.server i := by
        unfold conn? Server.removeConnection
        split
        · rfl
        · exact SL.SMap.find?_erase_ne _ _ _ e'
      simp only [LV.apply]
      congr 1
      unfold MSys.view
      rw [hc]
      dsimp only
      cases conn? m.server id with
      | none => rfl
      | some c => dsimp only; rw [upd_ne _ _ e']
  | srvDisconnect id =>
    simp only [MSys.step, Option.some.injEq] at hs
    subst hs
    obtain ⟨a, -, hi⟩ := SL.Server.disconnect_spec m.server id
    simp only [MOp.act]
    split
    · rename_i e
      subst e
      simp only [LV.apply, MSys.view, conn?, hi]
    · rename_i e
      have e' : i ≠ id := fun h => e h.symm
      simp only [LV.apply, MSys.view, conn?, a.others i e']
  | cliDisconnect id =>
    simp only [MSys.step, Option.some.injEq] at hs
    subst hs
    simp only [MOp.act]
    split
    · rename_i e
      subst e
      simp only [LV.apply, MSys.view, upd_same]
    · rename_i e
      have e' : i ≠ id := fun h => e h.symm
      simp only [LV.apply, MSys.view, upd_ne _ _ e']
  | srvSend id ch x =>
    simp only [MSys.step] at hs
    split at hs
    · rename_i sv' h
      cases hs
      obtain ⟨a, -, hi⟩ := SL.Server.sendMessage_spec h
      simp only [MOp.act]
      split
      · rename_i e
        subst e
        rcases hi with ⟨hf, rfl⟩ | ⟨c, c', hf, hc, hf'⟩
        · simp only [LV.apply, MSys.view, conn?, hf, upd_same]
          congr 2
          exact (map_self _).symm
        · simp only [LV.apply, MSys.view, conn?, hf, hf', hc, upd_same]
          rfl
      · rename_i e
        have e' : i ≠ id := fun h => e h.symm
        simp only [LV.apply, MSys.view, conn?, a.others i e', upd_ne _ _ e']
    · cases hs
  | broadcast ch x =>
    simp only [MSys.step] at hs
    split at hs
    · rename_i sv' h
      cases hs
      obtain ⟨-, -, hj⟩ := SL.Server.broadcast_spec h
      simp only [MOp.act]
      cases hf : SMap.find? m.server.conns i with
      | none =>
        simp only [LV.apply, MSys.view, conn?, hf, (hj i).1 hf]
        congr 2
        exact (map_self _).symm
      | some c =>
        obtain ⟨c', hc, hf'⟩ := (hj i).2 c hf
        simp only [LV.apply, MSys.view, conn?, hf, hf', hc]
        rfl
    · cases hs
  | broadcastExcept ex ch x =>
    simp only [MSys.step] at hs
    split at hs
    · rename_i sv' h
      cases hs
      obtain ⟨-, -, hex, hj⟩ := SL.Server.broadcastExcept_spec h
      simp only [MOp.act]
      split
      · rename_i e
        subst e
        simp only [LV.apply, MSys.view, conn?, hex, if_true]
      · rename_i e
        cases hf : SMap.find? m.server.conns i with
        | none =>
          simp only [LV.apply, MSys.view, conn?, hf, (hj i e).1 hf, if_neg e]
          congr 2
          exact (map_self _).symm
        | some c =>
          obtain ⟨c', hc, hf'⟩ := (hj i e).2 c hf
          simp only [LV.apply, MSys.view, conn?, hf, hf', hc, if_neg e]
          rfl
    · cases hs
  | srvRecv id ch =>
    simp only [MSys.step] at hs
    split at hs
    · rename_i sv' mo h
      cases hs
      obtain ⟨a, -, hi⟩ := SL.Server.receiveMessage_spec h
      simp only [MOp.act]
      split
      · rename_i e
        subst e
        rcases hi with ⟨hf, rfl, rfl⟩ | ⟨c, c', hf, hc, hf'⟩
        · simp only [LV.apply, MSys.view, conn?, hf, upd_same]
          congr 2
          exact (map_self _).symm
        · simp only [LV.apply, MSys.view, conn?, hf, hf', hc, upd_same]
      · rename_i e
        have e' : i ≠ id := fun h => e h.symm
        simp only [LV.apply, MSys.view, conn?, a.others i e', upd_ne _ _ e']
    · cases hs
  | cliSend id ch x =>
    simp only [MSys.step] at hs
    simp only [MOp.act]
    split at hs
    · rename_i hl
      cases hs
      split
      · rename_i e
        subst e
        simp only [LV.apply, MSys.view, hl]
      · rfl
    · rename_i l hl
      split at hs
      · rename_i cl' h
        cases hs
        split
        · rename_i e
          subst e
          simp only [LV.apply, MSys.view, hl, h, upd_same]
        · rename_i e
          have e' : i ≠ id := fun h => e h.symm
          simp only [LV.apply, MSys.view, upd_ne _ _ e']
      · cases hs
  | cliRecv id ch =>
    simp only [MSys.step] at hs
    simp only [MOp.act]
    split at hs
    · rename_i hl
      cases hs
      split
      · rename_i e
        subst e
        simp only [LV.apply, MSys.view, hl]
      · rfl
    · rename_i l hl
      split at hs
      · rename_i cl' mo h
        cases hs
        split
        · rename_i e
          subst e
          simp only [LV.apply, MSys.view, hl, h, upd_same]
        · rename_i e
          have e' : i ≠ id := fun h => e h.symm
          simp only [LV.apply, MSys.view, upd_ne _ _ e']
      · cases hs
  | srvUpdate dt =>
    simp only [MSys.step] at hs
    split at hs
    · rename_i sv' h
      cases hs
      obtain ⟨-, -, hj⟩ := SL.Server.update_spec h
      simp only [MOp.act]
      cases hf : SMap.find? m.server.conns i with
      | none => simp only [LV.apply, MSys.view, conn?, hf, (hj i).1 hf]
      | some c =>
        obtain ⟨c', hc, hf'⟩ := (hj i).2 c hf
        simp only [LV.apply, MSys.view, conn?, hf, hf', hc]
    · cases hs
  | cliUpdate id dt =>
    simp only [MSys.step] at hs
    simp only [MOp.act]
    split at hs
    · rename_i hl
      cases hs
      split
      · rename_i e
        subst e
        simp only [LV.apply, MSys.view, hl]
      · rfl
    · rename_i l hl
      split at hs
      · rename_i cl' h
        cases hs
        split
        · rename_i e
          subst e
          simp only [LV.apply, MSys.view, hl, h, upd_same]
        · rename_i e
          have e' : i ≠ id := fun h => e h.symm
          simp only [LV.apply, MSys.view, upd_ne _ _ e']
      · cases hs
  | srvFlush id =>
    simp only [MSys.step] at hs
    simp only [MOp.act]
    split at hs
    · rename_i sv' ps h
      cases hs
      obtain ⟨a, -, hi⟩ := SL.Server.getPacketsToSend_spec h
      split
      · rename_i e
        subst e
        rcases hi with ⟨hf, -, ho⟩ | ⟨c, c', ps', hf, hc, ho, hf'⟩
        · cases ho
        · cases ho
          simp only [LV.apply, MSys.view, conn?, hf, hf', hc, upd_same]
      · rename_i e
        have e' : i ≠ id := fun h => e h.symm
        simp only [LV.apply, MSys.view, conn?, a.others i e', upd_ne _ _ e']
    · rename_i sv' h
      cases hs
      obtain ⟨a, -, hi⟩ := SL.Server.getPacketsToSend_spec h
      split
      · rename_i e
        subst e
        rcases hi with ⟨hf, rfl, -⟩ | ⟨c, c', ps', hf, hc, ho, hf'⟩
        · simp only [LV.apply, MSys.view, conn?, hf]
        · cases ho
      · rename_i e
        have e' : i ≠ id := fun h => e h.symm
        simp only [LV.apply, MSys.view, conn?, a.others i e']
    · cases hs
  | cliFlush id =>
    simp only [MSys.step] at hs
    simp only [MOp.act]
    split at hs
    · rename_i hl
      cases hs
      split
      · rename_i e
        subst e
        simp only [LV.apply, MSys.view, hl]
      · rfl
    · rename_i l hl
      split at hs
      · rename_i cl' ps h
        cases hs
        split
        · rename_i e
          subst e
          simp only [LV.apply, MSys.view, hl, h, upd_same]
        · rename_i e
          have e' : i ≠ id := fun h => e h.symm
          simp only [LV.apply, MSys.view, upd_ne _ _ e']
      · cases hs
  | deliverToCli id k =>
    simp only [MSys.step] at hs
    simp only [MOp.act]
    split at hs
    · rename_i hl
      cases hs
      split
      · rename_i e
        subst e
        simp only [LV.apply, MSys.view, hl]
      · rfl
    · rename_i l hl
      split at hs
      · cases hs
      · rename_i bytes hb
        split at hs
        · rename_i cl' h
          cases hs
          split
          · rename_i e
            subst e
            simp only [LV.apply, MSys.view, hl, hb, h, upd_same]
          · rename_i e
            have e' : i ≠ id := fun h => e h.symm
            simp only [LV.apply, MSys.view, upd_ne _ _ e']
        · cases hs
  | deliverToSrv id k =>
    simp only [MSys.step] at hs
    simp only [MOp.act]
    split at hs
    · rename_i hl
      cases hs
      split
      · rename_i e
        subst e
        simp only [LV.apply, MSys.view, hl]
      · rfl
    · rename_i l hl
      split at hs
      · cases hs
      · rename_i bytes hb
        split at hs
        · rename_i sv' h
          cases hs
          obtain ⟨a, -, hi⟩ := SL.Server.processPacketFrom_spec h
          split
          · rename_i e
            subst e
            rcases hi with ⟨hf, -, ho⟩ | ⟨c, c', hf, hc, -, hf'⟩
            · cases ho
            · simp only [LV.apply, MSys.view, conn?, hl, hb, hf, hf', hc, upd_same]
          · rename_i e
            have e' : i ≠ id := fun h => e h.symm
            simp only [LV.apply, MSys.view, conn?, a.others i e', upd_ne _ _ e']
        · rename_i sv' h
          cases hs
          obtain ⟨a, -, hi⟩ := SL.Server.processPacketFrom_spec h
          split
          · rename_i e
            subst e
            rcases hi with ⟨hf, rfl, -⟩ | ⟨c, c', hf, hc, ho, hf'⟩
            · simp only [LV.apply, MSys.view, conn?, hl, hb, hf]
            · cases ho
          · rename_i e
            have e' : i ≠ id := fun h => e h.symm
            simp only [LV.apply, MSys.view, conn?, a.others i e']
        · cases hs
  | hostile id bytes =>
    simp only [MSys.step] at hs
    simp only [MOp.act]
    split at hs
    · rename_i sv' o h
      cases hs
      obtain ⟨a, -, hi⟩ := SL.Server.processPacketFrom_spec h
      split
      · rename_i e
        subst e
        rcases hi with ⟨hf, rfl, -⟩ | ⟨c, c', hf, hc, -, hf'⟩
        · simp only [LV.apply, MSys.view, conn?, hf, upd_same]
        · simp only [LV.apply, MSys.view, conn?, hf, hf', hc, upd_same]
      · rename_i e
        have e' : i ≠ id := fun h => e h.symm
        simp only [LV.apply, MSys.view, conn?, a.others i e', upd_ne _ _ e']
    · cases hs

/-! ## Part D: the two projections of a view onto `System.Sys`, and the simulation -/

/-- the server-side connection of the link: the table entry, or the ghost copy kept at `remove_connection` -/
def LV.srv (lv : LV) (l : Link) : Conn := lv.conn.getD l.last

/-- direction server → client `i`: A = the server's connection for `i`, B = the remote endpoint -/
def down (lv : LV) (l : Link) : Sys :=
  { a := lv.srv l, b := l.cl, outA := l.outS, outB := l.outC, submitted := l.subS, submittedU := l.subSU,
    obtained := l.obtC, deliveredToB := l.delivC }

/-- direction client `i` → server: A = the remote endpoint, B = the server's connection for `i` -/
def up (lv : LV) (l : Link) : Sys :=
  { a := l.cl, b := lv.srv l, outA := l.outC, outB := l.outS, submitted := l.subC, submittedU := l.subCU,
    obtained := l.obtS, deliveredToB := l.delivS }

/-- the view right after `add_connection` -/
def LV.fresh (P : Params) : LV := ⟨some (Conn.fromChannels P.budget P.sCh P.cCh).setConnected, some (Link.fresh P)⟩

theorem down_fresh (P : Params) : down (LV.fresh P) (Link.fresh P) = Sys.fresh P.down := rfl
theorem up_fresh (P : Params) : up (LV.fresh P) (Link.fresh P) = Sys.fresh P.up := rfl

/-- how a local action moves the four submission logs of the link: unchanged, or — for a `send_message` of the
    matching side — the message appended on that channel -/
def LogRel (act : LAct) (l l' : Link) : Prop :=
  (l'.subS = l.subS ∨ ∃ ch x, act = .sSend ch x ∧ l'.subS = push l.subS ch x) ∧
  (l'.subSU = l.subSU ∨ ∃ ch x, act = .sSend ch x ∧ l'.subSU = push l.subSU ch x) ∧
  (l'.subC = l.subC ∨ ∃ ch x, act = .cSend ch x ∧ l'.subC = push l.subC ch x) ∧
  (l'.subCU = l.subCU ∨ ∃ ch x, act = .cSend ch x ∧ l'.subCU = push l.subCU ch x)

theorem LogRel.same {act : LAct} {l l' : Link} (h1 : l'.subS = l.subS) (h2 : l'.subSU = l.subSU) (h3 : l'.subC = l.subC)
    (h4 : l'.subCU = l.subCU) : LogRel act l l' := ⟨.inl h1, .inl h2, .inl h3, .inl h4⟩

theorem logRel_logS (l : Link) (c c' : Conn) (ch : Nat) (x : Bytes) : LogRel (.sSend ch x) l (l.logS c c' ch x) := by
  refine ⟨?_, ?_, .inl rfl, .inl rfl⟩
  · unfold Link.logS; dsimp only
    split
    · exact .inr ⟨ch, x, rfl, rfl⟩
    · exact .inl rfl
  · unfold Link.logS; dsimp only
    split
    · exact .inr ⟨ch, x, rfl, rfl⟩
    · exact .inl rfl

theorem logRel_logC (l : Link) (cl' : Conn) (ch : Nat) (x : Bytes) : LogRel (.cSend ch x) l (l.logC cl' ch x) := by
  refine ⟨.inl rfl, .inl rfl, ?_, ?_⟩
  · unfold Link.logC; dsimp only
    split
    · exact .inr ⟨ch, x, rfl, rfl⟩
    · exact .inl rfl
  · unfold Link.logC; dsimp only
    split
    · exact .inr ⟨ch, x, rfl, rfl⟩
    · exact .inl rfl

/-- **The simulation.**  A local action that leaves the link untainted is — for BOTH directions of the link — a step of
    the bidirectional two-endpoint system (`VStep`: an operation of `System.Sys`, an endpoint-local operation of the
    other direction, a stutter), or it starts a fresh session. -/
theorem sim {P : Params} {lv lv' : LV} {act : LAct} {l' : Link} (h : lv.apply P act = some lv')
    (hl' : lv'.link = some l') (ht : l'.tainted = false) :
    (lv' = LV.fresh P ∧ l' = Link.fresh P) ∨
    ∃ l, lv.link = some l ∧ l.tainted = false ∧ VStep P.down (down lv l) (down lv' l') ∧ VStep P.up (up lv l) (up lv' l') ∧
      LogRel act l l' := by
  obtain ⟨conn, link⟩ := lv
  cases act with
  | skip =>
    simp only [LV.apply, Option.some.injEq] at h
    subst h
    exact Or.inr ⟨l', hl', ht, .stutter _, .stutter _, LogRel.same rfl rfl rfl rfl⟩
  | reset =>
    simp only [LV.apply] at h
    cases conn with
    | some c =>
      simp only [Option.some.injEq] at h
      subst h
      exact Or.inr ⟨l', hl', ht, .stutter _, .stutter _, LogRel.same rfl rfl rfl rfl⟩
    | none =>
      simp only [Option.some.injEq] at h
      subst h
      simp only [Option.some.injEq] at hl'
      subst hl'
      exact Or.inl ⟨rfl, rfl⟩
  | remove =>
    simp only [LV.apply] at h
    cases conn with
    | none =>
      simp only [Option.some.injEq] at h
      subst h
      exact Or.inr ⟨l', hl', ht, .stutter _, .stutter _, LogRel.same rfl rfl rfl rfl⟩
    | some c =>
      simp only [Option.some.injEq] at h
      subst h
      cases link with
      | none => cases hl'
      | some l =>
        simp only [Option.map_some, Option.some.injEq] at hl'
        subst hl'
        exact Or.inr ⟨l, rfl, ht, .stutter _, .stutter _, LogRel.same rfl rfl rfl rfl⟩
  | sDisc =>
    simp only [LV.apply, Option.some.injEq] at h
    subst h
    dsimp only at hl'
    subst hl'
    refine Or.inr ⟨l', rfl, ht, ?_, ?_, LogRel.same rfl rfl rfl rfl⟩
    · cases conn with
      | none => exact .stutter _
      | some c => exact .discA (down ⟨some c, some l'⟩ l') .byServer
    · cases conn with
      | none => exact .stutter _
      | some c => exact .discB (up ⟨some c, some l'⟩ l') .byServer
  | cDisc =>
    simp only [LV.apply, Option.some.injEq] at h
    subst h
    cases link with
    | none => cases hl'
    | some l =>
      simp only [Option.map_some, Option.some.injEq] at hl'
      subst hl'
      exact Or.inr ⟨l, rfl, ht, .discB (down ⟨conn, some l⟩ l) .byClient, .discA (up ⟨conn, some l⟩ l) .byClient, LogRel.same rfl rfl rfl rfl⟩
  | sSend ch x =>
    simp only [LV.apply] at h
    cases conn with
    | none =>
      simp only [Option.some.injEq] at h
      subst h
      exact Or.inr ⟨l', hl', ht, .stutter _, .stutter _, LogRel.same rfl rfl rfl rfl⟩
    | some c =>
      dsimp only at h
      split at h
      · rename_i c' hc
        simp only [Option.some.injEq] at h
        subst h
        cases link with
        | none => cases hl'
        | some l =>
          simp only [Option.map_some, Option.some.injEq] at hl'
          subst hl'
          refine Or.inr ⟨l, rfl, ht, .op (.sendA ch x) ?_, ?_, logRel_logS l c c' ch x⟩
          · simp only [Sys.step, down, LV.srv, Option.getD_some, hc]
            rfl
          · exact (VStep.sendB (s := up ⟨some c, some l⟩ l) hc)
      · cases h
  | sRecv ch =>
    simp only [LV.apply] at h
    cases conn with
    | none =>
      simp only [Option.some.injEq] at h
      subst h
      exact Or.inr ⟨l', hl', ht, .stutter _, .stutter _, LogRel.same rfl rfl rfl rfl⟩
    | some c =>
      dsimp only at h
      split at h
      · rename_i c' mo hc
        simp only [Option.some.injEq] at h
        subst h
        cases link with
        | none => cases hl'
        | some l =>
          simp only [Option.map_some, Option.some.injEq] at hl'
          subst hl'
          have ht' : l.tainted = false := by cases mo <;> exact ht
          refine Or.inr ⟨l, rfl, ht', ?_, .op (.recvB ch) ?_, LogRel.same (by cases mo <;> rfl) (by cases mo <;> rfl) (by cases mo <;> rfl) (by cases mo <;> rfl)⟩
          · cases mo with
            | none => exact (VStep.recvA (s := down ⟨some c, some l⟩ l) hc)
            | some x => exact (VStep.recvA (s := down ⟨some c, some l⟩ l) hc)
          · simp only [Sys.step, up, LV.srv, Option.getD_some, hc]
            cases mo <;> rfl
      · cases h
  | cSend ch x =>
    simp only [LV.apply] at h
    cases link with
    | none =>
      simp only [Option.some.injEq] at h
      subst h
      cases hl'
    | some l =>
      dsimp only at h
      split at h
      · rename_i cl' hc
        simp only [Option.some.injEq] at h
        subst h
        simp only [Option.some.injEq] at hl'
        subst hl'
        refine Or.inr ⟨l, rfl, ht, ?_, .op (.sendA ch x) ?_, logRel_logC l cl' ch x⟩
        · exact (VStep.sendB (s := down ⟨conn, some l⟩ l) hc)
        · simp only [Sys.step, up, hc]
          rfl
      · cases h
  | cRecv ch =>
    simp only [LV.apply] at h
    cases link with
    | none =>
      simp only [Option.some.injEq] at h
      subst h
      cases hl'
    | some l =>
      dsimp only at h
      split at h
      · rename_i cl' mo hc
        simp only [Option.some.injEq] at h
        subst h
        simp only [Option.some.injEq] at hl'
        subst hl'
        have ht' : l.tainted = false := by cases mo <;> exact ht
        refine Or.inr ⟨l, rfl, ht', .op (.recvB ch) ?_, ?_, LogRel.same (by cases mo <;> rfl) (by cases mo <;> rfl) (by cases mo <;> rfl) (by cases mo <;> rfl)⟩
        · simp only [Sys.step, down, hc]
          cases mo <;> rfl
        · cases mo with
          | none => exact (VStep.recvA (s := up ⟨conn, some l⟩ l) hc)
          | some x => exact (VStep.recvA (s := up ⟨conn, some l⟩ l) hc)
      · cases h
  | sUpd dt =>
    simp only [LV.apply] at h
    cases conn with
    | none =>
      simp only [Option.some.injEq] at h
      subst h
      exact Or.inr ⟨l', hl', ht, .stutter _, .stutter _, LogRel.same rfl rfl rfl rfl⟩
    | some c =>
      dsimp only at h
      split at h
      · rename_i c' hc
        simp only [Option.some.injEq] at h
        subst h
        dsimp only at hl'
        subst hl'
        refine Or.inr ⟨l', rfl, ht, .op (.updA dt) ?_, .op (.updB dt) ?_, LogRel.same rfl rfl rfl rfl⟩
        · simp only [Sys.step, down, LV.srv, Option.getD_some, hc]
          try rfl
        · simp only [Sys.step, up, LV.srv, Option.getD_some, hc]
          try rfl
      · cases h
  | cUpd dt =>
    simp only [LV.apply] at h
    cases link with
    | none =>
      simp only [Option.some.injEq] at h
      subst h
      cases hl'
    | some l =>
      dsimp only at h
      split at h
      · rename_i cl' hc
        simp only [Option.some.injEq] at h
        subst h
        simp only [Option.some.injEq] at hl'
        subst hl'
        refine Or.inr ⟨l, rfl, ht, .op (.updB dt) ?_, .op (.updA dt) ?_, LogRel.same rfl rfl rfl rfl⟩
        · simp only [Sys.step, down, hc]
          try rfl
        · simp only [Sys.step, up, hc]
          try rfl
      · cases h
  | sFlush =>
    simp only [LV.apply] at h
    cases conn with
    | none =>
      simp only [Option.some.injEq] at h
      subst h
      exact Or.inr ⟨l', hl', ht, .stutter _, .stutter _, LogRel.same rfl rfl rfl rfl⟩
    | some c =>
      dsimp only at h
      split at h
      · rename_i c' ps hc
        simp only [Option.some.injEq] at h
        subst h
        cases link with
        | none => cases hl'
        | some l =>
          simp only [Option.map_some, Option.some.injEq] at hl'
          subst hl'
          refine Or.inr ⟨l, rfl, ht, .op .flushA ?_, .op .flushB ?_, LogRel.same rfl rfl rfl rfl⟩
          · simp only [Sys.step, down, LV.srv, Option.getD_some, hc]
            try rfl
          · simp only [Sys.step, up, LV.srv, Option.getD_some, hc]
            try rfl
      · cases h
  | cFlush =>
    simp only [LV.apply] at h
    cases link with
    | none =>
      simp only [Option.some.injEq] at h
      subst h
      cases hl'
    | some l =>
      dsimp only at h
      split at h
      · rename_i cl' ps hc
        simp only [Option.some.injEq] at h
        subst h
        simp only [Option.some.injEq] at hl'
        subst hl'
        refine Or.inr ⟨l, rfl, ht, .op .flushB ?_, .op .flushA ?_, LogRel.same rfl rfl rfl rfl⟩
        · simp only [Sys.step, down, hc]
          try rfl
        · simp only [Sys.step, up, hc]
          try rfl
      · cases h
  | toCli k =>
    simp only [LV.apply] at h
    cases link with
    | none =>
      simp only [Option.some.injEq] at h
      subst h
      cases hl'
    | some l =>
      dsimp only at h
      split at h
      · cases h
      · rename_i bytes hb
        split at h
        · rename_i cl' hc
          simp only [Option.some.injEq] at h
          subst h
          simp only [Option.some.injEq] at hl'
          subst hl'
          refine Or.inr ⟨l, rfl, ht, .op (.deliverToB k) ?_, .op (.deliverToA k) ?_, LogRel.same rfl rfl rfl rfl⟩
          · simp only [Sys.step, down, hb, hc]
            try rfl
          · simp only [Sys.step, up, hb, hc]
            try rfl
        · cases h
  | toSrv k =>
    simp only [LV.apply] at h
    cases link with
    | none =>
      simp only [Option.some.injEq] at h
      subst h
      cases hl'
    | some l =>
      dsimp only at h
      split at h
      · cases h
      · rename_i bytes hb
        cases conn with
        | none =>
          simp only [Option.some.injEq] at h
          subst h
          exact Or.inr ⟨l', hl', ht, .stutter _, .stutter _, LogRel.same rfl rfl rfl rfl⟩
        | some c =>
          dsimp only at h
          split at h
          · rename_i c' hc
            simp only [Option.some.injEq] at h
            subst h
            simp only [Option.some.injEq] at hl'
            subst hl'
            refine Or.inr ⟨l, rfl, ht, .op (.deliverToA k) ?_, .op (.deliverToB k) ?_, LogRel.same rfl rfl rfl rfl⟩
            · simp only [Sys.step, down, LV.srv, Option.getD_some, hb, hc]
              try rfl
            · simp only [Sys.step, up, LV.srv, Option.getD_some, hb, hc]
              try rfl
          · cases h
  | hostile bytes =>
    simp only [LV.apply] at h
    cases conn with
    | none =>
      simp only [Option.some.injEq] at h
      subst h
      cases link with
      | none => cases hl'
      | some l =>
        simp only [Option.map_some, Option.some.injEq] at hl'
        subst hl'
        cases ht
    | some c =>
      dsimp only at h
      split at h
      · simp only [Option.some.injEq] at h
        subst h
        cases link with
        | none => cases hl'
        | some l =>
          simp only [Option.map_some, Option.some.injEq] at hl'
          subst hl'
          cases ht
      · cases h

/-! ## Part E: run level -/

/-- the messages operation `op` addresses to client `i` on channel `ch` (read off the operation alone) -/
def MOp.addressed (i ch : Nat) : MOp → List Bytes
  | .srvSend id c m => if id = i ∧ c = ch then [m] else []
  | .broadcast c m => if c = ch then [m] else []
  | .broadcastExcept ex c m => if i ≠ ex ∧ c = ch then [m] else []
  | _ => []

/-- the messages client `i`'s application submits on channel `ch` in operation `op` -/
def MOp.submittedBy (i ch : Nat) : MOp → List Bytes
  | .cliSend id c m => if id = i ∧ c = ch then [m] else []
  | _ => []

/-- everything the server application addressed to `i` on `ch` during `ops`, in order: `send_message(i, ch, ·)`,
    `broadcast_message(ch, ·)`, `broadcast_message_except(ex, ch, ·)` with `ex ≠ i` -/
def addressedTo (i ch : Nat) (ops : List MOp) : List Bytes := ops.flatMap (MOp.addressed i ch)
/-- everything client `i`'s application passed to `send_message(ch, ·)` during `ops`, in order -/
def sentBy (i ch : Nat) (ops : List MOp) : List Bytes := ops.flatMap (MOp.submittedBy i ch)

theorem addressedTo_snoc (i ch : Nat) (pre : List MOp) (op : MOp) :
    addressedTo i ch (pre ++ [op]) = addressedTo i ch pre ++ op.addressed i ch := by
  simp [addressedTo]
theorem sentBy_snoc (i ch : Nat) (pre : List MOp) (op : MOp) :
    sentBy i ch (pre ++ [op]) = sentBy i ch pre ++ op.submittedBy i ch := by
  simp [sentBy]

theorem act_sSend {op : MOp} {i ch : Nat} {x : Bytes} (h : op.act i = .sSend ch x) : op.addressed i ch = [x] := by
  cases op <;> simp only [MOp.act] at h <;> (try split at h) <;> cases h <;> simp_all [MOp.addressed]

theorem act_cSend {op : MOp} {i ch : Nat} {x : Bytes} (h : op.act i = .cSend ch x) : op.submittedBy i ch = [x] := by
  cases op <;> simp only [MOp.act] at h <;> (try split at h) <;> cases h <;> simp_all [MOp.submittedBy]

theorem sub_step {f f' A B : Nat → List Bytes} (hsub : ∀ ch, (f ch).Sublist (A ch))
    (h : f' = f ∨ ∃ ch x, f' = push f ch x ∧ B ch = [x]) : ∀ ch, (f' ch).Sublist (A ch ++ B ch) := by
  intro c
  rcases h with rfl | ⟨ch, x, rfl, hB⟩
  · exact (hsub c).trans (List.sublist_append_left _ _)
  · by_cases e : c = ch
    · subst e
      rw [push_same, hB]
      exact List.Sublist.append (hsub c) (List.Sublist.refl _)
    · rw [push_other _ _ e]
      exact (hsub c).trans (List.sublist_append_left _ _)

/-- what is known about an untainted link of client `i` after the operations `pre` -/
structure LinkOK (P : Params) (i : Nat) (pre : List MOp) (lv : LV) (l : Link) : Prop where
  goodD : Good P.down (down lv l)
  goodU : Good P.up (up lv l)
  subS : ∀ ch, (l.subS ch).Sublist (addressedTo i ch pre)
  subSU : ∀ ch, (l.subSU ch).Sublist (addressedTo i ch pre)
  subC : ∀ ch, (l.subC ch).Sublist (sentBy i ch pre)
  subCU : ∀ ch, (l.subCU ch).Sublist (sentBy i ch pre)

def VInv (P : Params) (i : Nat) (pre : List MOp) (lv : LV) : Prop :=
  ∀ l, lv.link = some l → l.tainted = false → LinkOK P i pre lv l

theorem vinv_step {P : Params} {i : Nat} {pre : List MOp} {lv lv' : LV} {op : MOp} (hv : VInv P i pre lv)
    (h : lv.apply P (op.act i) = some lv') : VInv P i (pre ++ [op]) lv' := by
  intro l' hl' ht
  rcases sim h hl' ht with ⟨rfl, rfl⟩ | ⟨l, hl, htl, hd, hu, r1, r2, r3, r4⟩
  · exact ⟨good_fresh _, good_fresh _, fun _ => List.nil_sublist _, fun _ => List.nil_sublist _,
      fun _ => List.nil_sublist _, fun _ => List.nil_sublist _⟩
  · obtain ⟨g1, g2, s1, s2, s3, s4⟩ := hv l hl htl
    refine ⟨good_vstep g1 hd, good_vstep g2 hu, ?_, ?_, ?_, ?_⟩
    · intro ch; rw [addressedTo_snoc]
      exact sub_step (B := fun c => op.addressed i c) s1
        (r1.imp id (fun ⟨c, x, ha, e⟩ => ⟨c, x, e, act_sSend ha⟩)) ch
    · intro ch; rw [addressedTo_snoc]
      exact sub_step (B := fun c => op.addressed i c) s2
        (r2.imp id (fun ⟨c, x, ha, e⟩ => ⟨c, x, e, act_sSend ha⟩)) ch
    · intro ch; rw [sentBy_snoc]
      exact sub_step (B := fun c => op.submittedBy i c) s3
        (r3.imp id (fun ⟨c, x, ha, e⟩ => ⟨c, x, e, act_cSend ha⟩)) ch
    · intro ch; rw [sentBy_snoc]
      exact sub_step (B := fun c => op.submittedBy i c) s4
        (r4.imp id (fun ⟨c, x, ha, e⟩ => ⟨c, x, e, act_cSend ha⟩)) ch

theorem run_inv (P : Params) (i : Nat) : ∀ (ops pre : List MOp) (m m' : MSys), m.WF P → VInv P i pre (m.view i) →
    m.run ops = some m' → m'.WF P ∧ VInv P i (pre ++ ops) (m'.view i)
  | [], pre, m, m', hw, hv, hr => by
    simp only [MSys.run, Option.some.injEq] at hr; subst hr
    rw [List.append_nil]; exact ⟨hw, hv⟩
  | op :: ops, pre, m, m', hw, hv, hr => by
    simp only [MSys.run] at hr
    cases hs : m.step op with
    | none => rw [hs] at hr; cases hr
    | some m1 =>
      rw [hs] at hr
      have := run_inv P i ops (pre ++ [op]) m1 m' (step_wf hw hs) (vinv_step hv (step_view hw hs i)) hr
      rw [List.append_assoc] at this
      exact this

/-- **Every reachable link is good.**  After ANY finite run from the empty server, for every client `i` whose link
    is untainted: both directions of the link satisfy the system invariants of `System.system_inv` (so every
    theorem of Props/C01S holds for them), and the submission logs are sub-sequences of what the op list addressed
    to `i` / of what client `i` submitted. -/
theorem reach (P : Params) (ops : List MOp) (m : MSys) (hr : (MSys.init P).run ops = some m) (i : Nat) (l : Link)
    (hl : m.links i = some l) (ht : l.tainted = false) : LinkOK P i ops (m.view i) l := by
  have := (run_inv P i ops [] (MSys.init P) m (wf_init P) (fun l hl => by cases hl) hr).2
  rw [List.nil_append] at this
  exact this l hl ht

theorem reach_wf (P : Params) (ops : List MOp) (m : MSys) (hr : (MSys.init P).run ops = some m) : m.WF P :=
  (run_inv P 0 ops [] (MSys.init P) m (wf_init P) (fun l hl => by cases hl) hr).1

/-! ### non-interference -/

def LV.run (P : Params) (lv : LV) : List LAct → Option LV
  | [] => some lv
  | a :: as =>
    match lv.apply P a with
    | some lv' => LV.run P lv' as
    | none => none

/-- the local trace of client `i`: the local actions of the run that are not `skip` -/
def trace (i : Nat) (ops : List MOp) : List LAct := (ops.map (MOp.act i)).filter (· != .skip)

theorem run_view {P : Params} (i : Nat) : ∀ (ops : List MOp) (m m' : MSys), m.WF P → m.run ops = some m' →
    (m.view i).run P (ops.map (MOp.act i)) = some (m'.view i)
  | [], m, m', _, hr => by
    simp only [MSys.run, Option.some.injEq] at hr; subst hr; rfl
  | op :: ops, m, m', hw, hr => by
    simp only [MSys.run] at hr
    cases hs : m.step op with
    | none => rw [hs] at hr; cases hr
    | some m1 =>
      rw [hs] at hr
      simp only [List.map_cons, LV.run, step_view hw hs i]
      exact run_view i ops m1 m' (step_wf hw hs) hr

theorem lvrun_filter (P : Params) : ∀ (acts : List LAct) (lv : LV),
    lv.run P (acts.filter (· != .skip)) = lv.run P acts
  | [], _ => rfl
  | a :: as, lv => by
    by_cases e : a = .skip
    · subst e
      simp only [List.filter_cons, bne_self_eq_false, Bool.false_eq_true, if_false, LV.run, LV.apply]
      exact lvrun_filter P as lv
    · have : (a != LAct.skip) = true := by simpa using e
      simp only [List.filter_cons, this, if_true, LV.run]
      cases lv.apply P a with
      | none => rfl
      | some lv' => exact lvrun_filter P as lv'

/-- **Non-interference.**  Two runs — from states that agree on client `i` — whose local traces for `i` coincide end
    in states that agree on client `i` (table slot, remote endpoint, both emission histories, every ghost log),
    whatever the other clients, their networks and the hostile senders did in either run. -/
theorem run_agree {P : Params} (i : Nat) {m1 m2 m1' m2' : MSys} {ops1 ops2 : List MOp} (hw1 : m1.WF P) (hw2 : m2.WF P)
    (hv : m1.view i = m2.view i) (hr1 : m1.run ops1 = some m1') (hr2 : m2.run ops2 = some m2')
    (ht : trace i ops1 = trace i ops2) : m1'.view i = m2'.view i := by
  have h1 := run_view i ops1 m1 m1' hw1 hr1
  have h2 := run_view i ops2 m2 m2' hw2 hr2
  rw [← lvrun_filter] at h1 h2
  unfold trace at ht
  rw [ht, hv, h2] at h1
  exact (Option.some.inj h1).symm

/-! ### the C01S conclusions, read off `Good` -/

theorem good_ordered {cfg : Cfg} {s : Sys} (hg : Good cfg s) (hc : CountersOK cfg s) (ch : Nat) (ho : cfg.Ordered ch) :
    s.obtained ch <+: s.submitted ch := by
  obtain ⟨pkA, -, h2, -⟩ := hg
  have := (h2 hc).concl ch
  rw [relKind_ordered ho] at this
  exact this

theorem good_unordered {cfg : Cfg} {s : Sys} (hg : Good cfg s) (hc : CountersOK cfg s) (ch : Nat) (hu : cfg.Unordered ch) :
    ∃ ids : List Nat, ids.Nodup ∧ (s.obtained ch).map some = ids.map (fun id => (s.submitted ch)[id]?) := by
  obtain ⟨pkA, -, h2, -⟩ := hg
  have := (h2 hc).concl ch
  rw [relKind_unordered hu] at this
  exact this

theorem good_unreliable {cfg : Cfg} {s : Sys} (hg : Good cfg s) (hc : CountersOK cfg s) (ch : Nat) (hk : cfg.Unreliable ch) :
    ∀ x ∈ s.obtained ch, x ∈ s.submittedU ch := by
  obtain ⟨pkA, -, -, -, Lg, -, hB⟩ := hg
  exact (hB hc).conclU ch (relKind_unreliable hk)

theorem good_integrity {cfg : Cfg} {s : Sys} (hg : Good cfg s) (hc : CountersOK cfg s) (ch : Nat)
    (hk : cfg.Ordered ch ∨ cfg.Unordered ch) : ∀ x ∈ s.obtained ch, x ∈ s.submitted ch := by
  intro x hx
  rcases hk with ho | hu
  · exact (good_ordered hg hc ch ho).subset hx
  · obtain ⟨ids, -, h⟩ := good_unordered hg hc ch hu
    have : some x ∈ (s.obtained ch).map some := List.mem_map.mpr ⟨x, hx, rfl⟩
    rw [h] at this
    obtain ⟨id, -, hid⟩ := List.mem_map.mp this
    exact List.mem_of_getElem? hid

/-- C08 read off `Good` (same proof as `C01S.release_only_after_delivery`) -/
theorem good_release {cfg : Cfg} {s : Sys} (hg : Good cfg s) (hc : CountersOK cfg s) (ch : Nat) (sA : SendRel)
    (hf : SMap.find? s.a.sendRel ch = some sA) (id : Nat) (hid : id < sA.nextId)
    (hrel : SMap.find? sA.unacked id = none) :
    ∃ m, (s.submitted ch)[id]? = some m ∧
      (m.length ≤ SLICE_SIZE → ∃ k ∈ s.deliveredToB, ∃ bytes sq msgs, s.outA[k]? = some bytes ∧
          Packet.fromBytes bytes = .ok (.smallReliable sq ch msgs) ∧ (id, m) ∈ msgs) ∧
      (SLICE_SIZE < m.length → ∀ i, i < divCeil m.length SLICE_SIZE → ∃ k ∈ s.deliveredToB, ∃ bytes sq,
          s.outA[k]? = some bytes ∧
          Packet.fromBytes bytes = .ok (.reliableSlice sq ch
            ⟨id, i, divCeil m.length SLICE_SIZE, sliceBytes m (divCeil m.length SLICE_SIZE) i⟩)) := by
  obtain ⟨pkA, h1, h2, h3, -⟩ := hg
  have h2 := h2 hc
  obtain ⟨hg, -⟩ := h1.chanA ch sA hf
  have hlt : id < (s.submitted ch).length := by rw [← hg.nid]; exact hid
  refine ⟨(s.submitted ch)[id], List.getElem?_eq_getElem hlt, ?_⟩
  obtain ⟨r1, r2⟩ := (h3.relA ch sA hf).gone id _ (List.getElem?_eq_getElem hlt) hrel
  constructor
  · intro hl
    obtain ⟨k, hk, sq, msgs, hp, hin⟩ := r1 hl
    obtain ⟨bytes, hb, hd⟩ := decode_lookup h1 h2 hp rfl
    refine ⟨k, hk, bytes, sq, msgs, hb, hd, ?_⟩
    obtain ⟨x, hx, rfl⟩ := List.mem_map.mp hin
    have hgen : (s.submitted ch)[x.1]? = some x.2 := h1.genA _ (List.mem_of_getElem? hp) x hx
    rw [List.getElem?_eq_getElem hlt] at hgen
    have : x = (x.1, (s.submitted ch)[x.1]) := by rw [Option.some.inj hgen]
    rw [← this]; exact hx
  · intro hl i hi
    obtain ⟨k, hk, sq, sl, hp, e1, e2⟩ := r2 hl i hi
    obtain ⟨bytes, hb, hd⟩ := decode_lookup h1 h2 hp rfl
    refine ⟨k, hk, bytes, sq, hb, ?_⟩
    obtain ⟨m', g1, -, g3, -, g5⟩ : DataPath.GenuineSlice (s.submitted ch) sl := h1.genA _ (List.mem_of_getElem? hp)
    rw [e1, List.getElem?_eq_getElem hlt] at g1
    have hm' := Option.some.inj g1
    subst hm'
    rw [hd]
    cases sl with
    | mk mid idx n payload =>
      simp only at e1 e2 g3 g5
      subst e1 e2 g3 g5
      rfl

/-! ### counting -/

theorem count_map_some (l : List Bytes) (x : Bytes) : (l.map some).count (some x) = l.count x := by
  induction l with
  | nil => rfl
  | cons y t ih => simp [List.count_cons, ih]

theorem range_map_get (L : List Bytes) : (List.range L.length).map (fun k => L[k]?) = L.map some := by
  apply List.ext_getElem?
  intro k
  by_cases hk : k < L.length
  · simp [hk]
  · simp [hk]

/-- obtained messages matched to pairwise distinct positions of the log: no message more often than it was logged -/
theorem count_le_of_ids {o L : List Bytes} {ids : List Nat} (hn : ids.Nodup)
    (h : o.map some = ids.map (fun k => L[k]?)) (x : Bytes) : o.count x ≤ L.count x := by
  let p : Nat → Bool := fun k => L[k]? == some x
  have e1 : o.count x = (ids.filter p).length := by
    rw [← count_map_some o x, h, List.count, List.countP_map, List.countP_eq_length_filter]
    rfl
  have e2 : L.count x = ((List.range L.length).filter p).length := by
    rw [← count_map_some L x, ← range_map_get, List.count, List.countP_map, List.countP_eq_length_filter]
    rfl
  rw [e1, e2]
  apply List.Nodup.length_le_of_subset (hn.sublist List.filter_sublist)
  intro k hk
  obtain ⟨-, hp⟩ := List.mem_filter.mp hk
  refine List.mem_filter.mpr ⟨List.mem_range.mpr ?_, hp⟩
  have : L[k]? = some x := by simpa [p] using hp
  exact (List.getElem?_eq_some_iff.mp this).1

end RenetVerif.MultiSystem
